package core_test

// C14, dimension "edge bytes of an encoding".
//
// Charon's decoders pick a format by looking at the bytes (SSZ first, JSON as fall-back; offsets sniffed to tell layouts
// apart), so an encoding whose FIRST and LAST bytes look like another format is the input class on which such a choice can
// go wrong. For every unit of the catalogue (core data type x fork version) the SSZ encoding of one generated base value gets
// its first and its last byte replaced by every pair of an alphabet of bytes that are significant in JSON (object / array /
// string delimiters, white space, the first letters of null/true/false, digits, minus) plus 0x00 and 0xff. Pairs that the
// type's own SSZ decoder refuses are counted and skipped (for versioned containers the first byte is the version); every
// other pair IS a value of the type (for the fixed-size containers: a slot or index with that low byte and a signature or
// root with that last byte) and must survive Clone, SSZ, JSON and both proto encodings like any other value (the oracle of
// the integer dimension).

import (
	"fmt"
	"strings"

	ssz "github.com/ferranbt/fastssz"

	"github.com/obolnetwork/charon/zzverif/enumx"
)

var (
	c14edgeFirst = []byte{'{', '[', '"', ' ', '\t', '\n', '\r', 'n', 't', 'f', '-', '0', '1', '9', 0x00, 0xff}
	c14edgeLast  = []byte{'}', ']', '"', ' ', '\n', 'l', 'e', '0', '9', 0x00, 0xff}
)

func (e *c14env) edgeVariant(u *c14unit, enc []byte, f, l byte, mode string) (decodable bool, step, why string) {
	b := append([]byte(nil), enc...)
	b[0], b[len(b)-1] = f, l
	p := u.Zero()
	var err error
	if pn := c14guard(func() { err = p.(ssz.Unmarshaler).UnmarshalSSZ(b) }); pn != nil {
		return true, "panic", "panic " + pn.Val + " in " + pn.TopLib + " via " + pn.TopCharon + " while decoding"
	}
	if err != nil {
		return false, "", ""
	}
	y := c14deref(p)
	if pn := c14guard(func() { step, why = e.intOracle(u, y, 1, mode, false) }); pn != nil {
		return true, "panic", "panic " + pn.Val + " in " + pn.TopLib + " via " + pn.TopCharon
	}
	return true, step, why
}

func (e *c14env) partEdges(u *c14unit) {
	r := e.r
	base, ok := e.intBase(u)
	if !ok {
		return
	}
	m, ok := base.(ssz.Marshaler)
	if !ok {
		return
	}
	enc, err := m.MarshalSSZ()
	if err != nil || len(enc) < 2 {
		return
	}
	mode := "all"
	if c14isBig(u) && !enumx.Thorough() {
		mode = "ssz"
	}
	key := "edges:" + u.Name
	fails := map[string][]string{}
	whys := map[string]string{}
	firstCase := map[string]c14intCase{}
	var order []string
	for _, f := range c14edgeFirst {
		for _, l := range c14edgeLast {
			if r.Expired() {
				return
			}
			r.Eval(key)
			dec, step, why := e.edgeVariant(u, enc, f, l, mode)
			if !dec {
				r.Count("edge_pairs_refused_by_the_types_own_ssz_decoder", 1)
				continue
			}
			if step == "" {
				r.Count("edge_pairs_roundtripped", 1)
				continue
			}
			confirmed := true
			for i := 0; i < 3; i++ {
				if _, s2, _ := e.edgeVariant(u, enc, f, l, mode); s2 != step {
					confirmed = false
				}
			}
			if !confirmed {
				r.Unconfirmed("edge-roundtrip " + key)
				continue
			}
			if _, seen := fails[step]; !seen {
				order = append(order, step)
				whys[step] = why
				firstCase[step] = c14intCase{Part: "edges", Unit: u.Name, Value: fmt.Sprintf("%#02x", f), Value2: fmt.Sprintf("%#02x", l), Mode: mode, Step: step}
			}
			fails[step] = append(fails[step], fmt.Sprintf("%#02x..%#02x", f, l))
		}
	}
	for _, step := range order {
		vs := fails[step]
		show := vs
		if len(show) > 12 {
			show = append(append([]string{}, show[:12]...), "...")
		}
		r.Violation(fmt.Sprintf("kind=roundtrip-edge-bytes step=%s type=%s", step, u.Name),
			fmt.Sprintf("%s: a value whose SSZ encoding begins and ends with the bytes %s (all other bytes from a generated base value) does not survive: %s: %s; failing (first..last) pairs (%d): %s",
				u.Name, vs[0], step, whys[step], len(vs), strings.Join(show, " ")), firstCase[step])
	}
}
