package core_test

// C14 (partial signature exchange, sets with several entries): equal sets decode to equal values whatever the order
// in which the entries of the proto map appear on the wire.
//
// Sender, as in production: parsigex.ParSigEx.Broadcast (core.ParSignedDataSetToProto, ParSigExMsg) -> the send
// function gets the message -> pbio delimited writer (proto.Marshal with the default, non-deterministic options).
// The sender's map iteration is pinned to every rotation of the runtime overlay, separately for the conversion (r1)
// and for the marshalling (r2); in addition the entries of the encoded map field are permuted by hand (every
// permutation for k <= 3, every rotation of the forward and the reversed order for k = 8, each also with key and
// value of every entry swapped).
//
// Receiver: frame bytes -> the stream handler that p2p.RegisterHandler installed for a real parsigex.ParSigEx
// (delimited reader, proto.Unmarshal, protonil) -> ParSigEx.handle -> core.ParSignedDataSetFromProto -> verify
// function (called once per entry) -> per-subscriber Clone -> subscriber.
//
// Oracle: every encoding is delivered, and the delivered set has the validators, share indexes, signatures, signing
// roots and contents of the original.

import (
	"bytes"
	"context"
	"encoding/base64"
	"encoding/binary"
	"fmt"
	"runtime"
	"sort"

	"github.com/libp2p/go-libp2p/core/host"
	"github.com/libp2p/go-libp2p/core/peer"
	"github.com/libp2p/go-libp2p/core/protocol"
	"github.com/libp2p/go-msgio/pbio"
	"google.golang.org/protobuf/encoding/protowire"
	"google.golang.org/protobuf/proto"

	"github.com/obolnetwork/charon/core"
	pbv1 "github.com/obolnetwork/charon/core/corepb/v1"
	"github.com/obolnetwork/charon/core/parsigex"
	"github.com/obolnetwork/charon/p2p"
	"github.com/obolnetwork/charon/testutil"
	"github.com/obolnetwork/charon/zzverif/enumx"
)

type c14pCase struct {
	Part      string `json:"part"` // "canon-parsigex"
	Unit      string `json:"type"`
	Duty      int    `json:"duty_type"`
	K         int    `json:"entries"`
	How       string `json:"encoding_from"`
	Canonical string `json:"canonical_msg_b64"` // deterministic bytes of the ParSigExMsg (the original set)
	Frame     string `json:"frame_b64"`
}

//go:noinline
func c14pNewSet() core.ParSignedDataSet { return make(core.ParSignedDataSet) }

type c14pEnv struct {
	r      *enumx.Run
	ctx    context.Context
	sent   []proto.Message
	sender *parsigex.ParSigEx
	rhost  *c14host
	// what the receiver saw
	verified int
	got      core.ParSignedDataSet
	calls    int
}

func c14pNewEnv(r *enumx.Run) *c14pEnv {
	e := &c14pEnv{r: r, ctx: context.Background()}
	peers := []peer.ID{"c14-sender", "c14-receiver"}
	gater := func(core.Duty) bool { return true }
	var send p2p.SendFunc = func(_ context.Context, _ host.Host, _ protocol.ID, _ peer.ID, m proto.Message, _ ...p2p.SendRecvOption) error {
		e.sent = append(e.sent, m)
		return nil
	}
	e.sender = parsigex.NewParSigEx(&c14host{}, send, 0, peers, nil, gater)
	e.rhost = &c14host{}
	recv := parsigex.NewParSigEx(e.rhost, nil, 1, peers, func(context.Context, peer.ID, core.Duty, core.PubKey, core.ParSignedData) error {
		e.verified++ // signatures are not the subject here (and every cluster peer can produce valid ones)
		return nil
	}, gater)
	recv.Subscribe(func(_ context.Context, _ core.Duty, set core.ParSignedDataSet) error {
		e.got = set
		e.calls++
		return nil
	})
	return e
}

// frames runs the production sending side under the two rotations.
func (e *c14pEnv) frame(duty core.Duty, set core.ParSignedDataSet, r1, r2 uint64) ([]byte, error) {
	e.sent = nil
	runtime.VerifSetMapRot(true, r1)
	err := e.sender.Broadcast(e.ctx, duty, set)
	runtime.VerifSetMapRot(false, 0)
	if err != nil {
		return nil, err
	}
	if len(e.sent) != 1 {
		return nil, fmt.Errorf("broadcast sent %d messages", len(e.sent))
	}
	var buf bytes.Buffer
	runtime.VerifSetMapRot(true, r2)
	err = pbio.NewDelimitedWriter(&buf).WriteMsg(e.sent[0])
	runtime.VerifSetMapRot(false, 0)
	return buf.Bytes(), err
}

// deliver pushes the frame through the receiver's stream handler and compares what the subscriber got.
func (e *c14pEnv) deliver(frame []byte, want core.ParSignedDataSet) (verdict, detail string, p *c14panic) {
	e.verified, e.got, e.calls = 0, nil, 0
	e.r.Steps(3)
	p = c14guard(func() {
		e.rhost.handler(&c14stream{r: bytes.NewReader(frame), pid: "/charon/parsigex/2.0.0", conn: c14conn{p: "c14-sender"}})
	})
	if p != nil {
		return "panic", p.Val, p
	}
	if e.calls != 1 {
		return "not-delivered", fmt.Sprintf("the subscriber was called %d times (%d entries reached the verifier)", e.calls, e.verified), nil
	}
	e.r.Count("canon_parsigex_entries_verified", e.verified)
	if len(e.got) != len(want) {
		return "entries-lost", fmt.Sprintf("the delivered set has %d entries, the original %d", len(e.got), len(want)), nil
	}
	for pk, w := range want {
		g, ok := e.got[pk]
		if !ok {
			return "entries-differ", "a validator of the original set is missing", nil
		}
		if g.ShareIdx != w.ShareIdx {
			return "entries-differ", "the share index of an entry changed", nil
		}
		if d := c14diff(w.SignedData, g.SignedData); d != "" {
			return "entries-differ", "an entry differs from the original entry of that validator: " + d, nil
		}
	}
	return "", "", nil
}

func c14pSplit(b []byte) ([][]byte, bool) {
	var out [][]byte
	for len(b) > 0 {
		num, typ, n := protowire.ConsumeTag(b)
		if n < 0 {
			return nil, false
		}
		m := protowire.ConsumeFieldValue(num, typ, b[n:])
		if m < 0 {
			return nil, false
		}
		out = append(out, b[:n+m])
		b = b[n+m:]
	}
	return out, true
}

func c14pPayload(field []byte) (protowire.Number, []byte, bool) {
	num, typ, n := protowire.ConsumeTag(field)
	if n < 0 || typ != protowire.BytesType {
		return 0, nil, false
	}
	payload, m := protowire.ConsumeBytes(field[n:])
	return num, payload, m >= 0
}

func c14pSwapKV(field []byte) ([]byte, bool) {
	num, payload, ok := c14pPayload(field)
	if !ok {
		return nil, false
	}
	inner, ok := c14pSplit(payload)
	if !ok || len(inner) != 2 {
		return nil, false
	}
	var p []byte
	p = append(p, inner[1]...)
	p = append(p, inner[0]...)
	return protowire.AppendBytes(protowire.AppendTag(nil, num, protowire.BytesType), p), true
}

func c14pOrders(k int) [][]int {
	if k <= 3 {
		var out [][]int
		var rec func(cur []int, used []bool)
		rec = func(cur []int, used []bool) {
			if len(cur) == k {
				out = append(out, append([]int{}, cur...))
				return
			}
			for i := 0; i < k; i++ {
				if !used[i] {
					used[i] = true
					rec(append(cur, i), used)
					used[i] = false
				}
			}
		}
		rec(nil, make([]bool, k))
		return out
	}
	var out [][]int
	for _, rev := range []bool{false, true} {
		for r := 0; r < k; r++ {
			o := make([]int, k)
			for i := range o {
				j := (i + r) % k
				if rev {
					j = k - 1 - j
				}
				o[i] = j
			}
			out = append(out, o)
		}
	}
	return out
}

// c14pPermute rebuilds a frame of a ParSigExMsg with the entries of data_set.set in the given order.
func c14pPermute(frame []byte, order []int, swap bool) ([]byte, bool) {
	l, n := binary.Uvarint(frame)
	if n <= 0 || int(l) != len(frame)-n {
		return nil, false
	}
	top, ok := c14pSplit(frame[n:])
	if !ok {
		return nil, false
	}
	var msg []byte
	done := false
	for _, f := range top {
		num, payload, isBytes := c14pPayload(f)
		if !isBytes || num != 2 || done {
			msg = append(msg, f...)
			continue
		}
		entries, ok := c14pSplit(payload)
		if !ok || len(entries) != len(order) {
			return nil, false
		}
		var set []byte
		for _, i := range order {
			en := entries[i]
			if swap {
				if en, ok = c14pSwapKV(en); !ok {
					return nil, false
				}
			}
			set = append(set, en...)
		}
		msg = protowire.AppendBytes(protowire.AppendTag(msg, 2, protowire.BytesType), set)
		done = true
	}
	if !done {
		return nil, false
	}
	return append(binary.AppendUvarint(nil, uint64(len(msg))), msg...), true
}

func (e *c14pEnv) report(c c14pCase, frame []byte, want core.ParSignedDataSet, class string, canon []byte) {
	r := e.r
	verdict, detail, p := e.deliver(frame, want)
	r.Eval(fmt.Sprintf("canon-parsigex:%s:k=%d:%s", c.Unit, c.K, class))
	if verdict == "" {
		r.Count("canon_parsigex_delivered_equal_to_original", 1)
		return
	}
	sig := fmt.Sprintf("kind=noncanonical-encoding path=parsigex-receive verdict=%s type=%s duty=%s encoding=%s", verdict, c.Unit, core.DutyType(c.Duty), class)
	if p != nil {
		sig += " op=" + p.TopCharon
	}
	for i := 0; i < 3; i++ {
		if v2, _, _ := e.deliver(frame, want); v2 != verdict {
			r.Unconfirmed(sig)
			return
		}
	}
	c.Part, c.Frame, c.Canonical = "canon-parsigex", c14b64(frame), c14b64(canon)
	r.Violation(sig, fmt.Sprintf("a partial signature set of %d %s entries (duty %s), encoded as %s, is not received as the set it is: %s - %s",
		c.K, c.Unit, core.DutyType(c.Duty), c.How, verdict, detail), c)
}

func (e *c14pEnv) unit(u *c14unit, dutyType core.DutyType, k int, pks []core.PubKey) {
	r := e.r
	duty := core.Duty{Slot: c14slot, Type: dutyType}
	set := c14pNewSet()
	for i := 0; i < k; i++ {
		sd, ok := u.Gen().(core.SignedData)
		if !ok {
			return
		}
		set[pks[i]] = core.ParSignedData{SignedData: sd, ShareIdx: 1 + i%4}
	}
	var canon []byte
	distinct, bySender := map[string]bool{}, map[string]bool{}
	var base []byte
	for r1 := 0; r1 < k; r1++ {
		for r2 := 0; r2 < k; r2++ {
			frame, err := e.frame(duty, set, uint64(r1), uint64(r2))
			if err != nil {
				r.Note("canon-parsigex sender " + u.Name + ": " + err.Error())
				return
			}
			if base == nil {
				base = frame
				canon, _ = proto.MarshalOptions{Deterministic: true}.Marshal(e.sent[0])
			}
			distinct[string(frame)], bySender[string(frame)] = true, true
			e.report(c14pCase{Unit: u.Name, Duty: int(dutyType), K: k, How: fmt.Sprintf("sender-rot:r1=%d,r2=%d", r1, r2)}, frame, set, "sender-rotation", canon)
		}
	}
	r.Count(fmt.Sprintf("canon_parsigex_encodings_by_sender_rotation:k=%d", k), len(bySender))
	if len(bySender) != k {
		r.NotExhaustive(fmt.Sprintf("canon-parsigex: the pinned map rotations of the sender produced %d distinct encodings of a %d-entry set of %s, expected %d", len(bySender), k, u.Name, k))
	}
	for _, order := range c14pOrders(k) {
		for _, swap := range []bool{false, true} {
			frame, ok := c14pPermute(base, order, swap)
			if !ok {
				r.Note("canon-parsigex: cannot permute the encoded set of " + u.Name)
				continue
			}
			distinct[string(frame)] = true
			class, how := "entries-permuted", fmt.Sprintf("perm:%v", order)
			if swap {
				class, how = "entries-permuted-kv-swapped", fmt.Sprintf("perm-kvswap:%v", order)
			}
			e.report(c14pCase{Unit: u.Name, Duty: int(dutyType), K: k, How: how}, frame, set, class, canon)
		}
	}
	r.Count(fmt.Sprintf("canon_parsigex_distinct_encodings_of_one_set:k=%d", k), len(distinct))
	r.Count("canon_parsigex_sets", 1)
	r.Count(fmt.Sprintf("canon_parsigex_sets:k=%d:distinct_encodings=%d", k, len(distinct)), 1)
}

func (e *c14env) partCanon(units []*c14unit) {
	r := e.r
	pe := c14pNewEnv(r)
	insts := 1
	if enumx.Thorough() {
		insts = 3
	}
	pks := make([]core.PubKey, 8)
	for i := range pks {
		pks[i] = testutil.RandomCorePubKey(e.t)
	}
	sort.Slice(pks, func(i, j int) bool { return pks[i] > pks[j] }) // insertion order = descending keys: no rotation is the sorted order
	for _, u := range units {
		if !u.Signed {
			continue
		}
		for _, d := range u.Duties {
			for _, k := range []int{1, 2, 3, 8} {
				if !r.Mine() {
					continue
				}
				if r.Expired() {
					return
				}
				for i := 0; i < insts; i++ {
					if p := c14guard(func() { pe.unit(u, d, k, pks) }); p != nil {
						r.Note("canon-parsigex: harness-side panic for " + u.Name + ": " + p.Val)
					}
				}
			}
		}
	}
}

func (e *c14env) replayCanon(c c14pCase) {
	pe := c14pNewEnv(e.r)
	canon, _ := base64.StdEncoding.DecodeString(c.Canonical)
	frame, _ := base64.StdEncoding.DecodeString(c.Frame)
	msg := new(pbv1.ParSigExMsg)
	if err := proto.Unmarshal(canon, msg); err != nil {
		fmt.Println("replay:", err)
		return
	}
	want, err := core.ParSignedDataSetFromProto(core.DutyType(c.Duty), msg.GetDataSet())
	if err != nil {
		fmt.Println("replay:", err)
		return
	}
	pe.report(c, frame, want, "replay", canon)
	verdict, detail, _ := pe.deliver(frame, want)
	fmt.Printf("replay canon-parsigex %s k=%d %s: verdict=%q %s\n", c.Unit, c.K, c.How, verdict, detail)
}
