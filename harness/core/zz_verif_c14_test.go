package core_test

// C14 – duty data encoding is lossless, deterministic and total.
//
// Part (a): every core data type x fork version x 3 generated instances through JSON, SSZ, the proto
// encodings (SSZ-enabled and JSON), Clone, and all map rotations.
// Part (b): every single structural mutation of every valid encoding (JSON tree walker, SSZ truncations
// and offset smashing, type confusion through the duty type, proto-level and frame-level malformations)
// pushed through the real receive paths:
//
//	parsigex:  frame bytes -> p2p.RegisterHandler stream closure (real delimited reader, proto unmarshal,
//	           protonil) -> parsigex.handle -> core.ParSignedDataSetFromProto -> parsigex.NewEth2Verifier
//	           -> parsigdb.MemDB.StoreExternal (threshold 1) -> sigagg.Aggregate -> subscriber (JSON encode)
//	consensus: core.UnsignedDataSetFromProto -> dutydb.MemDB.Store -> Await* -> Clone -> re-encode
//
// Oracle of (b): every input ends in an error or a value that all later operations handle; a panic
// that escapes charon's code (the handlers have no recovery) is a violation.
//
// Part (c), zz_verif_c14ints_test.go: the small-scope value alphabet of every integer field of every unit, one
// field at a time (thorough: pairs of the wrapper-level fields), through every codec.
// Part (d), zz_verif_c14dec_test.go: prefix x body x suffix around the SSZ-or-JSON format detection, every later
// operation applied to an accepted value on its own, then the receive paths above.

import (
	"bytes"
	"context"
	"encoding/base64"
	"encoding/binary"
	"encoding/json"
	"fmt"
	"io"
	"math"
	"os"
	"reflect"
	"regexp"
	"runtime"
	"runtime/debug"
	"sort"
	"strings"
	"syscall"
	"testing"
	"time"

	eth2api "github.com/attestantio/go-eth2-client/api"
	eth2bellatrix "github.com/attestantio/go-eth2-client/api/v1/bellatrix"
	eth2capella "github.com/attestantio/go-eth2-client/api/v1/capella"
	eth2deneb "github.com/attestantio/go-eth2-client/api/v1/deneb"
	eth2electra "github.com/attestantio/go-eth2-client/api/v1/electra"
	eth2spec "github.com/attestantio/go-eth2-client/spec"
	"github.com/attestantio/go-eth2-client/spec/altair"
	"github.com/attestantio/go-eth2-client/spec/bellatrix"
	"github.com/attestantio/go-eth2-client/spec/capella"
	"github.com/attestantio/go-eth2-client/spec/electra"
	eth2p0 "github.com/attestantio/go-eth2-client/spec/phase0"
	ssz "github.com/ferranbt/fastssz"
	"github.com/libp2p/go-libp2p/core/host"
	"github.com/libp2p/go-libp2p/core/network"
	"github.com/libp2p/go-libp2p/core/peer"
	"github.com/libp2p/go-libp2p/core/protocol"
	"github.com/libp2p/go-msgio/pbio"
	"go.uber.org/zap/zapcore"
	"google.golang.org/protobuf/proto"

	"github.com/obolnetwork/charon/app/eth2wrap"
	"github.com/obolnetwork/charon/app/log"
	"github.com/obolnetwork/charon/app/protonil"
	"github.com/obolnetwork/charon/core"
	pbv1 "github.com/obolnetwork/charon/core/corepb/v1"
	"github.com/obolnetwork/charon/core/dutydb"
	"github.com/obolnetwork/charon/core/parsigdb"
	"github.com/obolnetwork/charon/core/parsigex"
	"github.com/obolnetwork/charon/core/sigagg"
	"github.com/obolnetwork/charon/tbls"
	"github.com/obolnetwork/charon/tbls/tblsconv"
	"github.com/obolnetwork/charon/testutil"
	"github.com/obolnetwork/charon/testutil/beaconmock"
	"github.com/obolnetwork/charon/zzverif/enumx"
)

// ---------------------------------------------------------------------------------------------------
// catalogue of all core data types x versions
// ---------------------------------------------------------------------------------------------------

type c14unit struct {
	Name   string
	Signed bool
	Gen    func() any // fresh pristine value of the core type (by value)
	Zero   func() any // pointer to a zero value of the core type
	Duties []core.DutyType
	insts  []any // pristine generated instances
	sigd   []any // SignedData only: same values with a parseable BLS signature (for part b)
}

var c14versions = []struct {
	name string
	v    eth2spec.DataVersion
}{
	{"phase0", eth2spec.DataVersionPhase0}, {"altair", eth2spec.DataVersionAltair}, {"bellatrix", eth2spec.DataVersionBellatrix},
	{"capella", eth2spec.DataVersionCapella}, {"deneb", eth2spec.DataVersionDeneb}, {"electra", eth2spec.DataVersionElectra},
	{"fulu", eth2spec.DataVersionFulu},
}

func c14must[T any](v T, err error) T {
	if err != nil {
		panic(fmt.Sprintf("c14 fixture: %v", err))
	}
	return v
}

func c14signedProposal(v eth2spec.DataVersion, blinded bool) any {
	p := eth2api.VersionedSignedProposal{Version: v, Blinded: blinded}
	sig := testutil.RandomEth2Signature()
	switch v {
	case eth2spec.DataVersionPhase0:
		p.Phase0 = &eth2p0.SignedBeaconBlock{Message: testutil.RandomPhase0BeaconBlock(), Signature: sig}
	case eth2spec.DataVersionAltair:
		p.Altair = &altair.SignedBeaconBlock{Message: testutil.RandomAltairBeaconBlock(), Signature: sig}
	case eth2spec.DataVersionBellatrix:
		if blinded {
			p.BellatrixBlinded = &eth2bellatrix.SignedBlindedBeaconBlock{Message: testutil.RandomBellatrixBlindedBeaconBlock(), Signature: sig}
		} else {
			p.Bellatrix = &bellatrix.SignedBeaconBlock{Message: testutil.RandomBellatrixBeaconBlock(), Signature: sig}
		}
	case eth2spec.DataVersionCapella:
		if blinded {
			p.CapellaBlinded = &eth2capella.SignedBlindedBeaconBlock{Message: testutil.RandomCapellaBlindedBeaconBlock(), Signature: sig}
		} else {
			p.Capella = &capella.SignedBeaconBlock{Message: testutil.RandomCapellaBeaconBlock(), Signature: sig}
		}
	case eth2spec.DataVersionDeneb:
		if blinded {
			p.DenebBlinded = &eth2deneb.SignedBlindedBeaconBlock{Message: testutil.RandomDenebBlindedBeaconBlock(), Signature: sig}
		} else {
			p.Deneb = testutil.RandomDenebVersionedSignedProposal().Deneb
		}
	case eth2spec.DataVersionElectra:
		if blinded {
			p.ElectraBlinded = &eth2electra.SignedBlindedBeaconBlock{Message: testutil.RandomElectraBlindedBeaconBlock(), Signature: sig}
		} else {
			p.Electra = testutil.RandomElectraVersionedSignedProposal().Electra
		}
	case eth2spec.DataVersionFulu:
		if blinded {
			p.FuluBlinded = &eth2electra.SignedBlindedBeaconBlock{Message: testutil.RandomElectraBlindedBeaconBlock(), Signature: sig}
		} else {
			p.Fulu = testutil.RandomFuluVersionedSignedProposal().Fulu
		}
	}
	return c14must(core.NewVersionedSignedProposal(&p))
}

func c14proposal(v eth2spec.DataVersion, blinded bool) any {
	p := eth2api.VersionedProposal{Version: v, Blinded: blinded}
	switch v {
	case eth2spec.DataVersionPhase0:
		p.Phase0 = testutil.RandomPhase0BeaconBlock()
	case eth2spec.DataVersionAltair:
		p.Altair = testutil.RandomAltairBeaconBlock()
	case eth2spec.DataVersionBellatrix:
		if blinded {
			p.BellatrixBlinded = testutil.RandomBellatrixBlindedBeaconBlock()
		} else {
			p.Bellatrix = testutil.RandomBellatrixBeaconBlock()
		}
	case eth2spec.DataVersionCapella:
		if blinded {
			p.CapellaBlinded = testutil.RandomCapellaBlindedBeaconBlock()
		} else {
			p.Capella = testutil.RandomCapellaBeaconBlock()
		}
	case eth2spec.DataVersionDeneb:
		if blinded {
			p.DenebBlinded = testutil.RandomDenebBlindedBeaconBlock()
		} else {
			p.Deneb = testutil.RandomDenebVersionedProposal().Deneb
		}
	case eth2spec.DataVersionElectra:
		if blinded {
			p.ElectraBlinded = testutil.RandomElectraBlindedBeaconBlock()
		} else {
			p.Electra = testutil.RandomElectraVersionedProposal().Electra
		}
	case eth2spec.DataVersionFulu:
		if blinded {
			p.FuluBlinded = testutil.RandomElectraBlindedBeaconBlock()
		} else {
			p.Fulu = testutil.RandomFuluVersionedProposal().Fulu
		}
	}
	return c14must(core.NewVersionedProposal(&p))
}

func c14versionedAtt(v eth2spec.DataVersion, withIdx bool) eth2spec.VersionedAttestation {
	a := eth2spec.VersionedAttestation{Version: v}
	if withIdx {
		idx := testutil.RandomVIdx()
		a.ValidatorIndex = &idx
	}
	switch v {
	case eth2spec.DataVersionPhase0:
		a.Phase0 = testutil.RandomAggregateAttestation()
	case eth2spec.DataVersionAltair:
		a.Altair = testutil.RandomAggregateAttestation()
	case eth2spec.DataVersionBellatrix:
		a.Bellatrix = testutil.RandomAggregateAttestation()
	case eth2spec.DataVersionCapella:
		a.Capella = testutil.RandomAggregateAttestation()
	case eth2spec.DataVersionDeneb:
		a.Deneb = testutil.RandomAggregateAttestation()
	case eth2spec.DataVersionElectra:
		a.Electra = testutil.RandomElectraAttestation()
	case eth2spec.DataVersionFulu:
		a.Fulu = testutil.RandomElectraAttestation()
	}
	return a
}

func c14versionedAggProof(v eth2spec.DataVersion) any {
	a := eth2spec.VersionedSignedAggregateAndProof{Version: v}
	p0 := func() *eth2p0.SignedAggregateAndProof { return testutil.RandomSignedAggregateAndProof() }
	el := func() *electra.SignedAggregateAndProof {
		return &electra.SignedAggregateAndProof{
			Message: &electra.AggregateAndProof{
				AggregatorIndex: testutil.RandomVIdx(), Aggregate: testutil.RandomElectraAttestation(), SelectionProof: testutil.RandomEth2Signature(),
			},
			Signature: testutil.RandomEth2Signature(),
		}
	}
	switch v {
	case eth2spec.DataVersionPhase0:
		a.Phase0 = p0()
	case eth2spec.DataVersionAltair:
		a.Altair = p0()
	case eth2spec.DataVersionBellatrix:
		a.Bellatrix = p0()
	case eth2spec.DataVersionCapella:
		a.Capella = p0()
	case eth2spec.DataVersionDeneb:
		a.Deneb = p0()
	case eth2spec.DataVersionElectra:
		a.Electra = el()
	case eth2spec.DataVersionFulu:
		a.Fulu = el()
	}
	return core.NewVersionedSignedAggregateAndProof(&a)
}

func c14catalogue(t *testing.T) []*c14unit {
	var us []*c14unit
	add := func(name string, signed bool, gen func() any, zero func() any, duties ...core.DutyType) {
		us = append(us, &c14unit{Name: name, Signed: signed, Gen: gen, Zero: zero, Duties: duties})
	}
	blindable := func(v eth2spec.DataVersion) bool { return v >= eth2spec.DataVersionBellatrix }

	// The proposals are by far the largest trees: spread them evenly over the round-robin shards by
	// interleaving them with the small types.
	var big, small []*c14unit
	for _, ver := range c14versions {
		ver := ver
		for _, bl := range []bool{false, true} {
			bl := bl
			if bl && !blindable(ver.v) {
				continue
			}
			n := ver.name
			if bl {
				n += "-blinded"
			}
			add("VersionedSignedProposal/"+n, true, func() any { return c14signedProposal(ver.v, bl) },
				func() any { return new(core.VersionedSignedProposal) }, core.DutyProposer)
			add("VersionedProposal/"+n, false, func() any { return c14proposal(ver.v, bl) },
				func() any { return new(core.VersionedProposal) }, core.DutyProposer)
		}
	}
	big, us = us, nil

	add("AttestationData", false, func() any { return testutil.RandomCoreAttestationData(t) },
		func() any { return new(core.AttestationData) }, core.DutyAttester)
	for _, ver := range c14versions {
		ver := ver
		add("VersionedAggregatedAttestation/"+ver.name, false, func() any {
			a := c14versionedAtt(ver.v, false)
			return c14must(core.NewVersionedAggregatedAttestation(&a))
		}, func() any { return new(core.VersionedAggregatedAttestation) }, core.DutyAggregator)
		nAtt := 0
		add("VersionedAttestation/"+ver.name, true, func() any {
			a := c14versionedAtt(ver.v, true)
			if nAtt++; nAtt%3 == 0 { // boundary value: validator index 0 is a legitimate index
				*a.ValidatorIndex = 0
			}
			return c14must(core.NewVersionedAttestation(&a))
		}, func() any { return new(core.VersionedAttestation) }, core.DutyAttester)
		add("VersionedSignedAggregateAndProof/"+ver.name, true, func() any { return c14versionedAggProof(ver.v) },
			func() any { return new(core.VersionedSignedAggregateAndProof) }, core.DutyAggregator)
	}
	for _, ver := range c14versions[4:6] { // the wire format without validator index (older peers)
		ver := ver
		add("VersionedAttestation/"+ver.name+"-novalidx", true, func() any {
			a := c14versionedAtt(ver.v, false)
			return c14must(core.NewVersionedAttestation(&a))
		}, func() any { return new(core.VersionedAttestation) }, core.DutyAttester)
	}
	add("AggregatedAttestation", false, func() any { return core.NewAggregatedAttestation(testutil.RandomAggregateAttestation()) },
		func() any { return new(core.AggregatedAttestation) }, core.DutyAggregator)
	add("SyncContribution", false, func() any { return testutil.RandomCoreSyncContribution() },
		func() any { return new(core.SyncContribution) }, core.DutySyncContribution)
	add("SyncContributions", false, func() any {
		a, b := testutil.RandomCoreSyncContribution(), testutil.RandomCoreSyncContribution()
		a.SubcommitteeIndex, b.SubcommitteeIndex = 1, 3
		return core.SyncContributions{a, b}
	}, func() any { return new(core.SyncContributions) }, core.DutySyncContribution)
	add("SignedVoluntaryExit", true, func() any { return core.NewSignedVoluntaryExit(testutil.RandomExit()) },
		func() any { return new(core.SignedVoluntaryExit) }, core.DutyExit)
	add("VersionedSignedValidatorRegistration/v1", true, func() any { return testutil.RandomCoreVersionedSignedValidatorRegistration(t) },
		func() any { return new(core.VersionedSignedValidatorRegistration) }, core.DutyBuilderRegistration)
	add("SignedRandao", true, func() any { return testutil.RandomCoreSignedRandao() },
		func() any { return new(core.SignedRandao) }, core.DutyRandao)
	add("BeaconCommitteeSelection", true, func() any { return testutil.RandomCoreBeaconCommitteeSelection() },
		func() any { return new(core.BeaconCommitteeSelection) }, core.DutyPrepareAggregator)
	add("SyncCommitteeSelection", true, func() any { return testutil.RandomCoreSyncCommitteeSelection() },
		func() any { return new(core.SyncCommitteeSelection) }, core.DutyPrepareSyncContribution)
	add("SignedAggregateAndProof", true, func() any { return core.NewSignedAggregateAndProof(testutil.RandomSignedAggregateAndProof()) },
		func() any { return new(core.SignedAggregateAndProof) }, core.DutyAggregator)
	add("SignedSyncMessage", true, func() any { return core.NewSignedSyncMessage(testutil.RandomSyncCommitteeMessage()) },
		func() any { return new(core.SignedSyncMessage) }, core.DutySyncMessage)
	add("SyncContributionAndProof", true, func() any { return core.NewSyncContributionAndProof(testutil.RandomSyncContributionAndProof()) },
		func() any { return new(core.SyncContributionAndProof) }) // no duty type decodes to it
	add("SignedSyncContributionAndProof", true, func() any { return testutil.RandomCoreSignedSyncContributionAndProof() },
		func() any { return new(core.SignedSyncContributionAndProof) }, core.DutySyncContribution)
	add("Signature", true, func() any { return testutil.RandomCoreSignature() },
		func() any { return new(core.Signature) }, core.DutySignature)
	small, us = us, nil

	for i := 0; i < len(big) || i < len(small); i++ {
		if i < len(big) {
			us = append(us, big[i])
		}
		if i < len(small) {
			us = append(us, small[i])
		}
	}
	return us
}

func c14deref(p any) any { return reflect.ValueOf(p).Elem().Interface() }

// ---------------------------------------------------------------------------------------------------
// guarded calls and stack analysis
// ---------------------------------------------------------------------------------------------------

type c14panic struct {
	Val       string   `json:"value"`
	TopLib    string   `json:"top_frame"`
	TopCharon string   `json:"top_charon_frame"`
	Chain     []string `json:"charon_frames"`
}

func (p *c14panic) class() string {
	switch {
	case strings.Contains(p.Val, "nil pointer dereference"):
		return "nil-deref"
	case strings.Contains(p.Val, "out of range"):
		return "out-of-range"
	case strings.Contains(p.Val, "nil map"):
		return "nil-map"
	}
	return "other"
}

var c14funcRe = regexp.MustCompile(`\.func\d+(\.\d+)*`)

// sig is stable against renumbering of closures.
func (p *c14panic) sig() string {
	return fmt.Sprintf("op=%s at=%s err=%s", c14funcRe.ReplaceAllString(p.TopCharon, ".func"), c14funcRe.ReplaceAllString(p.TopLib, ".func"), p.class())
}

func c14short(fn string) string {
	// closures returned by charon constructors that the compiler inlined into the harness keep the harness'
	// function as prefix; name them after the constructor
	if k := strings.Index(fn, ".NewEth2Verifier."); k > 0 {
		return "core/parsigex.NewEth2Verifier." + fn[k+len(".NewEth2Verifier."):]
	}
	if k := strings.Index(fn, ".NewVerifier."); k > 0 {
		return "core/sigagg.NewVerifier." + fn[k+len(".NewVerifier."):]
	}
	fn = strings.TrimPrefix(fn, "github.com/obolnetwork/charon/")
	fn = strings.TrimPrefix(fn, "github.com/attestantio/go-eth2-client/")
	fn = strings.TrimPrefix(fn, "github.com/")
	return fn
}

// c14guard runs f and returns the analysed panic, if any.
func c14guard(f func()) (p *c14panic) {
	defer func() {
		if r := recover(); r != nil {
			p = c14analyse(r, debug.Stack())
		}
	}()
	f()
	return nil
}

func c14fnName(line string) string {
	for i := 0; i < len(line); i++ {
		if line[i] == '(' && !(i+1 < len(line) && line[i+1] == '*') {
			return line[:i]
		}
	}
	return line
}

func c14analyse(val any, stack []byte) *c14panic {
	p := &c14panic{Val: fmt.Sprint(val)}
	lines := strings.Split(string(stack), "\n")
	type frame struct{ fn, file string }
	var frames []frame
	for i := 1; i+1 < len(lines); i++ {
		if strings.HasPrefix(lines[i], "\t") || lines[i] == "" || !strings.HasPrefix(lines[i+1], "\t") {
			continue
		}
		frames = append(frames, frame{c14fnName(lines[i]), strings.TrimSpace(lines[i+1])})
	}
	start := 0
	for i, f := range frames {
		if f.fn == "panic" || strings.HasPrefix(f.fn, "runtime.") {
			start = i + 1
		}
		if strings.HasPrefix(f.fn, "testing.") {
			break
		}
	}
	for _, f := range frames[start:] {
		if strings.HasPrefix(f.fn, "testing.") {
			break
		}
		if strings.Contains(f.file, "zz_verif_") {
			continue // harness glue between the real components
		}
		if p.TopLib == "" {
			p.TopLib = c14short(f.fn)
		}
		if strings.HasPrefix(f.fn, "github.com/obolnetwork/charon/") && !strings.Contains(f.fn, "/testutil") {
			if p.TopCharon == "" {
				p.TopCharon = c14short(f.fn)
			}
			if len(p.Chain) < 12 {
				p.Chain = append(p.Chain, c14short(f.fn))
			}
		}
	}
	if p.TopCharon == "" {
		p.TopCharon = "(none)"
	}
	return p
}

// ---------------------------------------------------------------------------------------------------
// environment: the real receive stacks
// ---------------------------------------------------------------------------------------------------

type c14host struct {
	host.Host
	handler network.StreamHandler
}

func (h *c14host) SetStreamHandlerMatch(_ protocol.ID, _ func(protocol.ID) bool, fn network.StreamHandler) {
	h.handler = fn
}

type c14conn struct {
	network.Conn
	p peer.ID
}

func (c c14conn) RemotePeer() peer.ID { return c.p }

type c14stream struct {
	network.Stream
	r    *bytes.Reader
	pid  protocol.ID
	conn c14conn
}

func (s *c14stream) Read(b []byte) (int, error)       { return s.r.Read(b) }
func (s *c14stream) Write(b []byte) (int, error)      { return len(b), nil }
func (s *c14stream) Close() error                     { return nil }
func (s *c14stream) SetReadDeadline(time.Time) error  { return nil }
func (s *c14stream) SetWriteDeadline(time.Time) error { return nil }
func (s *c14stream) Protocol() protocol.ID            { return s.pid }
func (s *c14stream) Conn() network.Conn               { return s.conn }

type c14deadliner struct{ ch chan core.Duty }

func (d c14deadliner) Add(duty core.Duty) core.DeadlineStatus {
	if duty.Type == core.DutyExit || duty.Type == core.DutyBuilderRegistration {
		return core.DeadlineExempt
	}
	return core.DeadlineScheduled
}
func (d c14deadliner) C() <-chan core.Duty { return d.ch }

// scheduled-only deadliner for the dutydb (it refuses exempt duties).
type c14schedDeadliner struct{ ch chan core.Duty }

func (d c14schedDeadliner) Add(core.Duty) core.DeadlineStatus { return core.DeadlineScheduled }
func (d c14schedDeadliner) C() <-chan core.Duty               { return d.ch }

type c14stages struct {
	verifyCalls, verifyPass, storeCalls, storeOK, aggOK, bcast int
}

type c14env struct {
	t       *testing.T
	r       *enumx.Run
	ctx     context.Context
	eth2Cl  eth2wrap.Client
	pubkey  core.PubKey
	shares  map[core.PubKey]map[int]tbls.PublicKey
	realSig core.Signature
	peer    peer.ID
	host    *c14host
	psx     *parsigex.ParSigEx
	agg     *sigagg.Aggregator
	db      *parsigdb.MemDB
	st      c14stages
	stage   string // the stage of the receive path that is running (where a panic happened)
	lastErr error
}

const c14slot = 100

type c14eth2 struct {
	eth2wrap.Client
	spec *eth2api.Response[map[string]any]
}

func (c *c14eth2) Spec(context.Context, *eth2api.SpecOpts) (*eth2api.Response[map[string]any], error) {
	return c.spec, nil
}

func (c *c14eth2) Domain(_ context.Context, typ eth2p0.DomainType, _ eth2p0.Epoch) (eth2p0.Domain, error) {
	var d eth2p0.Domain
	copy(d[:], typ[:])
	return d, nil
}

func (c *c14eth2) GenesisDomain(ctx context.Context, typ eth2p0.DomainType) (eth2p0.Domain, error) {
	return c.Domain(ctx, typ, 0)
}

type c14tbls struct{ tbls.Herumi }

func (c14tbls) Verify(tbls.PublicKey, []byte, tbls.Signature) error {
	return fmt.Errorf("c14: BLS equation not evaluated")
}

func c14newEnv(t *testing.T, r *enumx.Run) *c14env {
	e := &c14env{t: t, r: r, ctx: context.Background()}
	// The beacon node: a beaconmock, its spec fetched once; spec and domain lookups are then served from memory
	// so that no outcome depends on HTTP timing (the domain value is irrelevant: the BLS equation is not evaluated).
	var cl *c14eth2
	for try := 0; try < 5 && cl == nil; try++ {
		bmock, err := beaconmock.New(e.ctx)
		if err != nil {
			continue
		}
		spec, err := bmock.Spec(e.ctx, &eth2api.SpecOpts{})
		if err != nil || spec == nil || spec.Data["SLOTS_PER_EPOCH"] == nil {
			continue
		}
		cl = &c14eth2{Client: bmock, spec: spec}
	}
	if cl == nil {
		r.NotExhaustive("harness: the beaconmock could not be started")
		t.Skip("beaconmock unavailable")
	}
	e.eth2Cl = cl

	secret := c14must(tbls.GenerateSecretKey())
	pub := c14must(tbls.SecretToPublicKey(secret))
	e.pubkey = core.PubKeyFrom48Bytes(pub)
	shareSecrets := c14must(tbls.ThresholdSplit(secret, 4, 3))
	e.shares = map[core.PubKey]map[int]tbls.PublicKey{e.pubkey: {}}
	for idx, s := range shareSecrets {
		e.shares[e.pubkey][idx] = c14must(tbls.SecretToPublicKey(s))
	}
	sig := c14must(tbls.Sign(shareSecrets[1], []byte("c14")))
	e.realSig = tblsconv.SigToCore(sig)
	e.peer = peer.ID("c14-peer")
	// The pairing check costs ~2 ms and is not what this check is about: from here on the BLS equation is
	// not evaluated (constant "invalid"); everything else of the tbls implementation stays real.
	tbls.SetImplementation(c14tbls{})
	t.Cleanup(func() { tbls.SetImplementation(tbls.Herumi{}) })

	realVerify := c14must(parsigex.NewEth2Verifier(e.eth2Cl, e.shares))
	// A cluster peer holds a genuine share key and can validly sign every root it can compute, so the BLS
	// equation is no barrier for it. The model: everything the real verifier does runs for real; when all
	// checks before the BLS equation hold the partial signature counts as valid.
	verify := func(ctx context.Context, p peer.ID, duty core.Duty, pk core.PubKey, data core.ParSignedData) error {
		e.st.verifyCalls++
		e.stage = "verify"
		err := realVerify(ctx, p, duty, pk, data)
		e.lastErr = err
		if err == nil {
			e.st.verifyPass++
			return nil
		}
		if _, ok := e.shares[pk][data.ShareIdx]; !ok {
			return err
		}
		signed, ok := data.SignedData.(core.Eth2SignedData)
		if !ok {
			return err
		}
		if _, e1 := signed.Epoch(ctx, e.eth2Cl); e1 != nil {
			return err
		}
		if _, e2 := signed.MessageRoot(); e2 != nil {
			return err
		}
		e.st.verifyPass++
		return nil
	}
	gater := c14must(core.NewDutyGater(e.ctx, e.eth2Cl))
	e.host = &c14host{}
	e.psx = parsigex.NewParSigEx(e.host, nil, 0, []peer.ID{"self", e.peer}, verify, gater)
	if e.host.handler == nil {
		r.NotExhaustive("harness: stream handler not registered")
		t.Fatalf("stream handler not registered")
	}
	e.psx.Subscribe(func(ctx context.Context, duty core.Duty, set core.ParSignedDataSet) error {
		e.st.storeCalls++
		e.stage = "store"
		err := e.db.StoreExternal(ctx, duty, set)
		if err == nil {
			e.st.storeOK++
		}
		e.lastErr = err
		return err
	})

	realAggVerify := sigagg.NewVerifier(e.eth2Cl)
	e.agg = c14must(sigagg.New(1, func(ctx context.Context, pk core.PubKey, data core.SignedData) error {
		e.stage = "aggregate-verify"
		err := realAggVerify(ctx, pk, data)
		if err == nil {
			return nil
		}
		signed, ok := data.(core.Eth2SignedData)
		if !ok {
			return err
		}
		if _, e1 := signed.Epoch(ctx, e.eth2Cl); e1 != nil {
			return err
		}
		if _, e2 := signed.MessageRoot(); e2 != nil {
			return err
		}
		return nil
	}))
	e.agg.Subscribe(func(_ context.Context, _ core.Duty, set core.SignedDataSet) error {
		e.st.aggOK++
		e.stage = "broadcast-encode"
		for _, d := range set { // the broadcaster serialises the aggregate for the beacon node
			if _, err := json.Marshal(d); err != nil {
				return err
			}
			e.st.bcast++
		}
		return nil
	})
	return e
}

func (e *c14env) freshDB() {
	e.db = parsigdb.NewMemDB(1, c14deadliner{ch: make(chan core.Duty)}, parsigdb.NewMemDBMetadata(12, time.Unix(0, 0)))
	e.db.SubscribeThreshold(func(ctx context.Context, duty core.Duty, set map[core.PubKey][]core.ParSignedData) error {
		e.stage = "aggregate"
		return e.agg.Aggregate(ctx, duty, set)
	})
	e.st = c14stages{}
	e.stage, e.lastErr = "decode", nil
}

func c14frame(msg proto.Message) []byte {
	b, err := proto.Marshal(msg)
	if err != nil {
		return nil
	}
	return append(binary.AppendUvarint(nil, uint64(len(b))), b...)
}

// deliver pushes frame bytes through the real stream handler registered by parsigex.
func (e *c14env) deliver(frame []byte) {
	e.host.handler(&c14stream{r: bytes.NewReader(frame), pid: "/charon/parsigex/2.0.0", conn: c14conn{p: e.peer}})
}

// ---------------------------------------------------------------------------------------------------
// cases (replayable)
// ---------------------------------------------------------------------------------------------------

type c14case struct {
	Path     string `json:"path"` // parsigex | consensus | frame | api-parsig | api-unsigned
	Duty     int    `json:"duty_type"`
	ShareIdx int32  `json:"share_idx"`
	PubKey   string `json:"pubkey,omitempty"` // "" = the cluster's validator
	Data     string `json:"data_b64"`
	NilData  bool   `json:"nil_data,omitempty"`
	NilEntry bool   `json:"nil_entry,omitempty"`
	NoSet    bool   `json:"no_set,omitempty"`
	Empty    bool   `json:"empty_set,omitempty"`
	Unit     string `json:"type"`
	Mutation string `json:"mutation"`
	Where    string `json:"where,omitempty"`
	Affix    string `json:"affix,omitempty"` // format dimension: the names of the prefix and suffix around the body
}

func (c c14case) data() []byte {
	if c.NilData {
		return nil
	}
	b, _ := base64.StdEncoding.DecodeString(c.Data)
	return b
}

type c14result struct {
	Panic    *c14panic
	Decoded  bool // the real decode function accepted the input
	Handled  bool // ... and some later stage also ran to completion
	Stage    string
	Recov    bool // charon's own recover() converted a decode panic into an error
	ErrClass string
}

func (e *c14env) pk(c c14case) string {
	if c.PubKey != "" {
		return c.PubKey
	}
	return string(e.pubkey)
}

// runParSigEx: the full partial-signature receive path (delivered twice: the second delivery takes the
// duplicate branch of the store, which compares JSON encodings).
func (e *c14env) runParSigEx(c c14case) (res c14result) {
	set := &pbv1.ParSignedDataSet{Set: map[string]*pbv1.ParSignedData{}}
	switch {
	case c.NoSet:
		set = nil
	case c.Empty:
	case c.NilEntry:
		set.Set[e.pk(c)] = nil
	default:
		set.Set[e.pk(c)] = &pbv1.ParSignedData{Data: c.data(), Signature: e.realSig, ShareIdx: c.ShareIdx}
	}
	frame := c14frame(&pbv1.ParSigExMsg{Duty: &pbv1.Duty{Slot: c14slot, Type: int32(c.Duty)}, DataSet: set})
	e.freshDB()
	e.r.Steps(2)
	res.Panic = c14guard(func() {
		e.deliver(frame)
		e.stage = "decode"
		e.deliver(frame)
	})
	res.Decoded = e.st.verifyCalls > 0
	res.Handled = e.st.storeOK > 0
	switch {
	case e.st.bcast > 0:
		res.Stage = "aggregated"
	case e.st.storeOK > 0:
		res.Stage = "stored"
	case e.st.storeCalls > 0:
		res.Stage = "store-rejected"
	case e.st.verifyCalls > 0:
		res.Stage = "verify-rejected"
	default:
		res.Stage = "decode-rejected"
	}
	if res.Panic != nil {
		res.Stage = e.stage
	}
	if res.Panic == nil && !res.Decoded && set != nil && set.Set[e.pk(c)] != nil {
		// was the rejection a decode panic that charon's own recover() turned into an error?
		_ = c14guard(func() {
			if _, err := core.ParSignedDataFromProto(core.DutyType(c.Duty), set.Set[e.pk(c)]); err != nil {
				res.Recov = strings.Contains(err.Error(), "panic recovered")
			}
		})
	}
	if res.Panic == nil && res.Decoded {
		// Everything else a node does with a decoded partial signature, in a harness-side guard: the direct API.
		e.apiParSig(c, &res)
	}
	return res
}

// apiParSig calls the decode function directly and then the accessors in the order of the real verifier
// (Epoch, MessageRoot, DomainName, Signature); later operations (Clone, re-encode, JSON) only when a node
// could get that far (verification passes).
func (e *c14env) apiParSig(c c14case, res *c14result) {
	pb := &pbv1.ParSignedData{Data: c.data(), Signature: e.realSig, ShareIdx: c.ShareIdx}
	stage := "api-decode"
	p := c14guard(func() {
		psd, err := core.ParSignedDataFromProto(core.DutyType(c.Duty), pb)
		if err != nil {
			return
		}
		e.r.Steps(1)
		signed, ok := psd.SignedData.(core.Eth2SignedData)
		if !ok {
			return
		}
		stage = "api-verify"
		if _, err := signed.Epoch(e.ctx, e.eth2Cl); err != nil {
			return
		}
		if _, err := signed.MessageRoot(); err != nil {
			return
		}
		_ = signed.DomainName()
		_ = psd.Signature()
		if _, err := core.SyncSubcommitteeIndex(core.DutyType(c.Duty), psd.SignedData); err != nil {
			return
		}
		stage = "api-clone"
		clone, err := psd.Clone()
		if err != nil {
			return
		}
		_, _ = clone.MessageRoot()
		_ = clone.Signature()
		stage = "api-reencode-proto"
		if _, err := core.ParSignedDataToProto(psd); err != nil {
			return
		}
		stage = "api-reencode-json"
		if _, err := json.Marshal(psd); err != nil {
			return
		}
		stage = "api-set-signature"
		if s2, err := psd.SetSignature(e.realSig); err == nil {
			_, _ = s2.MessageRoot()
			_, _ = json.Marshal(s2)
		}
		e.r.Steps(8)
	})
	if p != nil {
		res.Panic, res.Stage = p, stage
	}
}

// runConsensus: what a node does with a decided unsigned data set.
func (e *c14env) runConsensus(c c14case) (res c14result) {
	set := &pbv1.UnsignedDataSet{Set: map[string][]byte{}}
	switch {
	case c.NoSet:
		set = nil
	case c.Empty:
	default:
		set.Set[e.pk(c)] = c.data()
	}
	typ := core.DutyType(c.Duty)
	res.Stage = "decode"
	e.r.Steps(1)
	res.Panic = c14guard(func() {
		unsigned, err := core.UnsignedDataSetFromProto(typ, set)
		if err != nil {
			res.Recov = strings.Contains(err.Error(), "panic recovered")
			res.Stage = "decode-rejected"
			return
		}
		res.Decoded = true
		res.Stage = "store"
		db := dutydb.NewMemDB(c14schedDeadliner{ch: make(chan core.Duty)})
		e.r.Steps(1)
		err = db.Store(e.ctx, core.Duty{Slot: c14slot, Type: typ}, unsigned)
		e.lastErr = err
		if err == nil {
			res.Handled = true
			res.Stage = "await"
			for pk, v := range unsigned {
				e.await(db, pk, v)
			}
		}
		// Clone and re-encode (a node proposing or relaying the decided value).
		res.Stage = "clone"
		if cl, err := unsigned.Clone(); err == nil {
			_, _ = core.UnsignedDataSetToProto(cl)
		}
		res.Stage = "reencode-proto"
		_, _ = core.UnsignedDataSetToProto(unsigned)
		res.Stage = "reencode-json"
		for _, v := range unsigned {
			_, _ = json.Marshal(v)
		}
		e.r.Steps(4)
		switch {
		case res.Handled:
			res.Stage = "stored"
		default:
			res.Stage = "store-rejected"
		}
	})
	return res
}

// await queries the dutydb the way the validator API does. The query keys are derived from the decoded
// value inside a harness-side guard (a failure to derive a key is the harness' problem, not charon's).
func (e *c14env) await(db *dutydb.MemDB, pk core.PubKey, v core.UnsignedData) {
	ctx, cancel := context.WithTimeout(e.ctx, 2*time.Second)
	defer cancel()
	var query func()
	if p := c14guard(func() {
		switch d := v.(type) {
		case core.VersionedProposal:
			slot, err := d.Slot()
			if err != nil {
				return
			}
			query = func() {
				if pr, err := db.AwaitProposal(ctx, uint64(slot)); err == nil && pr != nil {
					_, _ = pr.Root()
				}
			}
		case core.AttestationData:
			slot, ci, vi := uint64(d.Data.Slot), uint64(d.Duty.CommitteeIndex), uint64(d.Duty.ValidatorIndex)
			query = func() {
				_, _ = db.AwaitAttestation(ctx, slot, ci)
				_, _ = db.PubKeyByAttestation(ctx, slot, ci, vi)
			}
		case core.VersionedAggregatedAttestation:
			data, err := d.Data()
			if err != nil || data == nil {
				return
			}
			root, err := data.HashTreeRoot()
			if err != nil {
				return
			}
			ci, err := d.CommitteeIndex()
			if err != nil {
				return
			}
			query = func() { _, _ = db.AwaitAggAttestation(ctx, uint64(data.Slot), root, ci) }
		case core.SyncContribution:
			query = func() { _, _ = db.AwaitSyncContribution(ctx, uint64(d.Slot), d.SubcommitteeIndex, d.BeaconBlockRoot) }
		case core.SyncContributions:
			query = func() {
				for _, x := range d {
					_, _ = db.AwaitSyncContribution(ctx, uint64(x.Slot), x.SubcommitteeIndex, x.BeaconBlockRoot)
				}
			}
		}
	}); p != nil || query == nil {
		return
	}
	e.r.Steps(1)
	query()
	if ctx.Err() != nil {
		e.r.Count("await_timeout_after_successful_store", 1)
	}
}

// runAPI: the in-memory proto shapes that cannot be expressed on the wire (nil map entries etc.) against the
// decode functions themselves.
func (e *c14env) runAPI(c c14case) (res c14result) {
	res.Stage = "decode-rejected"
	e.r.Steps(1)
	res.Panic = c14guard(func() {
		if c.Path == "api-parsig" {
			set := &pbv1.ParSignedDataSet{Set: map[string]*pbv1.ParSignedData{}}
			switch {
			case c.NoSet:
				set = nil
			case c.Empty:
			case c.NilEntry:
				set.Set[e.pk(c)] = nil
			default:
				set.Set[e.pk(c)] = &pbv1.ParSignedData{Data: c.data(), ShareIdx: c.ShareIdx}
			}
			out, err := core.ParSignedDataSetFromProto(core.DutyType(c.Duty), set)
			if err != nil {
				res.Recov = strings.Contains(err.Error(), "panic recovered")
				return
			}
			res.Decoded = true
			for _, v := range out {
				if v.ShareIdx != int(c.ShareIdx) {
					panic("c14: share index changed by decoding")
				}
			}
		}
	})
	return res
}

func (e *c14env) run(c c14case) c14result {
	switch c.Path {
	case "parsigex":
		return e.runParSigEx(c)
	case "consensus":
		return e.runConsensus(c)
	case "frame":
		return e.runFrame(c)
	default:
		return e.runAPI(c)
	}
}

// runFrame: raw bytes on a stream. Data = the frame bytes, Where = the message type.
func (e *c14env) runFrame(c c14case) (res c14result) {
	frame := c.data()
	res.Stage = "frame-rejected"
	e.r.Steps(1)
	res.Panic = c14guard(func() {
		if c.Where == "parsigex" {
			e.freshDB()
			res.Stage = "parsigex-handler"
			e.deliver(frame)
			res.Stage = "frame-rejected"
			res.Decoded = e.st.verifyCalls > 0
			res.Handled = e.st.storeOK > 0
			return
		}
		// the same calls p2p.RegisterHandler makes for the other protocols' request types
		var req proto.Message
		switch c.Where {
		case "qbft":
			req = new(pbv1.QBFTConsensusMsg)
		case "priority":
			req = new(pbv1.PriorityMsg)
		default:
			req = new(pbv1.ParSigExMsg)
		}
		if err := pbio.NewDelimitedReader(bytes.NewReader(frame), 128<<20).ReadMsg(req); err != nil {
			return
		}
		if err := protonil.Check(req); err != nil {
			return
		}
		res.Decoded = true
	})
	return res
}

// ---------------------------------------------------------------------------------------------------
// checking a case, confirmation, reporting
// ---------------------------------------------------------------------------------------------------

var c14idxRe = regexp.MustCompile(`\[\d+\]`)

func (e *c14env) check(c c14case, evalKey string) c14result {
	res := e.run(c)
	r := e.r
	r.Eval(evalKey)
	switch {
	case res.Panic != nil:
	case res.Recov:
		r.Count("decode_panic_recovered_by_charon:"+c.Path, 1)
	case !res.Decoded:
		r.Count("rejected:"+c.Path, 1)
	case res.Handled:
		r.Count("accepted_and_handled:"+c.Path, 1)
	default:
		r.Count("decoded_then_rejected:"+c.Path, 1)
	}
	r.Outcome(c.Path + ":" + res.Stage)
	if res.Panic == nil {
		return res
	}
	sig := fmt.Sprintf("kind=panic path=%s stage=%s %s type=%s mutation=%s field=%s", c.Path, res.Stage, res.Panic.sig(), c.Unit, c.Mutation,
		c14idxRe.ReplaceAllString(c.Where, "[]"))
	for i := 0; i < 3; i++ {
		again := e.run(c)
		if again.Panic == nil || again.Panic.sig() != res.Panic.sig() {
			r.Unconfirmed(sig)
			return res
		}
	}
	desc := fmt.Sprintf("input %s of %s (mutation %s at %s, duty type %s, %d bytes) panics at stage %q: %q in %s; charon frames (innermost first) %v",
		c.Path, c.Unit, c.Mutation, c.Where, core.DutyType(c.Duty), len(c.data()), res.Stage, res.Panic.Val, res.Panic.TopLib, res.Panic.Chain)
	r.Violation(sig, desc, c)
	return res
}

// ---------------------------------------------------------------------------------------------------
// part (a): round trips, clone, determinism
// ---------------------------------------------------------------------------------------------------

func c14root(v any) (root [32]byte, ok bool) {
	defer func() {
		if recover() != nil {
			ok = false
		}
	}()
	switch d := v.(type) {
	case core.Signature:
		return root, false
	case core.SignedData:
		r, err := d.MessageRoot()
		return r, err == nil
	case core.VersionedProposal:
		r, err := d.Root()
		return r, err == nil
	case interface{ HashTreeRoot() ([32]byte, error) }:
		r, err := d.HashTreeRoot()
		return r, err == nil
	}
	return root, false
}

// c14diff compares two values of a unit through every view the workflow has of them.
func c14diff(a, b any) string {
	if reflect.TypeOf(a) != reflect.TypeOf(b) {
		return fmt.Sprintf("type %T became %T", a, b)
	}
	ja, err1 := json.Marshal(a)
	jb, err2 := json.Marshal(b)
	if err1 != nil || err2 != nil {
		return fmt.Sprintf("json marshal: %v / %v", err1, err2)
	}
	if !bytes.Equal(ja, jb) {
		return "json encodings differ"
	}
	if ma, ok := a.(ssz.Marshaler); ok {
		sa, err1 := ma.MarshalSSZ()
		sb, err2 := b.(ssz.Marshaler).MarshalSSZ()
		if err1 != nil || err2 != nil {
			return fmt.Sprintf("ssz marshal: %v / %v", err1, err2)
		}
		if !bytes.Equal(sa, sb) {
			return "ssz encodings differ"
		}
	}
	ra, oka := c14root(a)
	rb, okb := c14root(b)
	if oka != okb || ra != rb {
		return "signing/hash roots differ"
	}
	if sa, ok := a.(core.SignedData); ok {
		if !bytes.Equal(sa.Signature(), b.(core.SignedData).Signature()) {
			return "signatures differ"
		}
	}
	if !reflect.DeepEqual(a, b) {
		return "values differ (reflect.DeepEqual)"
	}
	return ""
}

// c14scribble flips every byte/integer reachable through pointers and slices of v (an addressable copy).
func c14scribble(v reflect.Value, viaRef bool, n *int) {
	switch v.Kind() {
	case reflect.Ptr:
		if !v.IsNil() {
			c14scribble(v.Elem(), true, n)
		}
	case reflect.Interface:
		// interfaces hold copies; nothing reachable to mutate in place
	case reflect.Struct:
		for i := 0; i < v.NumField(); i++ {
			if v.Type().Field(i).IsExported() {
				c14scribble(v.Field(i), viaRef, n)
			}
		}
	case reflect.Slice:
		for i := 0; i < v.Len(); i++ {
			c14scribble(v.Index(i), true, n)
		}
	case reflect.Array:
		for i := 0; i < v.Len(); i++ {
			c14scribble(v.Index(i), viaRef, n)
		}
	case reflect.Uint8, reflect.Uint16, reflect.Uint32, reflect.Uint64, reflect.Uint:
		if viaRef && v.CanSet() {
			v.SetUint(v.Uint() ^ 0x5a)
			*n++
		}
	case reflect.Bool:
		if viaRef && v.CanSet() {
			v.SetBool(!v.Bool())
			*n++
		}
	}
}

// prepare generates the unit's instances (once per process, only for the units of this shard).
func (e *c14env) prepare(u *c14unit) (okA, okB bool) {
	if p := c14guard(func() {
		for i := 0; i < 3; i++ {
			u.insts = append(u.insts, u.Gen())
		}
	}); p != nil {
		e.r.Note("fixture generator of " + u.Name + " failed: " + p.Val)
		e.r.NotExhaustive("a fixture could not be generated")
		return false, false
	}
	if !u.Signed {
		return true, true
	}
	// part (b) uses values carrying a parseable BLS signature, injected the way the workflow does it
	var why string
	for try := 0; try < 3 && (try == 0 || why != ""); try++ {
		u.sigd, why = nil, ""
		for _, v := range u.insts {
			v := v
			if p := c14guard(func() {
				s, err := v.(core.SignedData).SetSignature(e.realSig)
				if err != nil {
					why = "SetSignature of a valid value failed: " + err.Error()
					return
				}
				u.sigd = append(u.sigd, s)
			}); p != nil {
				why = "SetSignature of a valid value panics: " + p.Val + " in " + p.TopLib + " via " + p.TopCharon
			}
		}
	}
	if why != "" {
		e.r.Violation("kind=roundtrip step=set-signature type="+u.Name, u.Name+": "+why, c14aCase{"a", u.Name, 0, "set-signature"})
		return true, false
	}
	return true, true
}

type c14aCase struct {
	Part string `json:"part"`
	Unit string `json:"type"`
	Inst int    `json:"instance"`
	Step string `json:"step"`
}

func (e *c14env) partA(u *c14unit) {
	r := e.r
	bad := func(inst int, step, why string) {
		sig := fmt.Sprintf("kind=roundtrip step=%s type=%s", step, u.Name)
		r.Violation(sig, fmt.Sprintf("%s instance %d: %s: %s", u.Name, inst, step, why), c14aCase{"a", u.Name, inst, step})
	}
	// step runs f three times (confirmation) and reports when it consistently fails.
	step := func(inst int, name string, f func() string) {
		r.Eval("rt:" + name + ":" + u.Name)
		r.Steps(1)
		var why string
		if p := c14guard(func() { why = f() }); p != nil {
			why = "panic " + p.Val + " in " + p.TopLib + " via " + p.TopCharon
		}
		if why == "" {
			r.Count("roundtrip_ok:"+strings.SplitN(name, ":", 2)[0], 1)
			return
		}
		for i := 0; i < 3; i++ {
			var again string
			if p := c14guard(func() { again = f() }); p != nil {
				again = "panic"
			}
			if again == "" {
				r.Unconfirmed("roundtrip " + name + " " + u.Name)
				return
			}
		}
		bad(inst, name, why)
	}

	for i, v := range u.insts {
		i, v := i, v
		step(i, "json", func() string {
			b1, err := json.Marshal(v)
			if err != nil {
				return "marshal: " + err.Error()
			}
			p := u.Zero()
			if err := json.Unmarshal(b1, p); err != nil {
				return "unmarshal: " + err.Error()
			}
			v2 := c14deref(p)
			if d := c14diff(v, v2); d != "" {
				return d
			}
			p3 := u.Zero()
			b2, _ := json.Marshal(v2)
			if err := json.Unmarshal(b2, p3); err != nil {
				return "second unmarshal: " + err.Error()
			}
			return c14diff(v2, c14deref(p3))
		})
		if m, ok := v.(ssz.Marshaler); ok {
			step(i, "ssz", func() string {
				b1, err := m.MarshalSSZ()
				if err != nil {
					return "marshal: " + err.Error()
				}
				if m.SizeSSZ() != len(b1) { // not part of the property: informational only
					r.Count("info_SizeSSZ_differs_from_encoded_length", 1)
					r.Note(fmt.Sprintf("info: %s: SizeSSZ()=%d but the encoding has %d bytes", u.Name, m.SizeSSZ(), len(b1)))
				}
				p := u.Zero()
				if err := p.(ssz.Unmarshaler).UnmarshalSSZ(b1); err != nil {
					return "unmarshal: " + err.Error()
				}
				return c14diff(v, c14deref(p))
			})
		}
		step(i, "clone", func() string {
			before, err := json.Marshal(v)
			if err != nil {
				return err.Error()
			}
			var cl any
			if u.Signed {
				cl, err = v.(core.SignedData).Clone()
			} else {
				cl, err = v.(core.UnsignedData).Clone()
			}
			if err != nil {
				return "clone: " + err.Error()
			}
			if d := c14diff(v, cl); d != "" {
				return "clone differs: " + d
			}
			// deepness: scribble over everything reachable from the clone; the original must not change
			cp := reflect.New(reflect.TypeOf(cl))
			cp.Elem().Set(reflect.ValueOf(cl))
			n := 0
			c14scribble(cp.Elem(), false, &n)
			r.Count("clone_scribbled_words", n)
			after, err := json.Marshal(v)
			if err != nil {
				return "original no longer encodes after mutating its clone: " + err.Error()
			}
			if !bytes.Equal(before, after) {
				return "mutating the clone changed the original (shallow copy)"
			}
			if u.Signed {
				// the workflow's own way of changing a copy
				s2, err := v.(core.SignedData).SetSignature(e.realSig)
				if err != nil {
					return "set signature: " + err.Error()
				}
				if !bytes.Equal(s2.Signature(), e.realSig) {
					return "SetSignature result does not carry the signature"
				}
				after, _ = json.Marshal(v)
				if !bytes.Equal(before, after) {
					return "SetSignature changed the original"
				}
				if _, isSig := v.(core.Signature); !isSig {
					r1, ok1 := c14root(v)
					r2, ok2 := c14root(s2)
					if ok1 != ok2 || r1 != r2 {
						return "SetSignature changed the message root"
					}
				}
			}
			return ""
		})
		// pure function of the value: same bytes under every map rotation
		step(i, "det", func() string {
			var ref [3][]byte
			for rot := 0; rot < 4; rot++ {
				runtime.VerifSetMapRot(true, uint64(rot))
				var enc [3][]byte
				enc[0], _ = json.Marshal(v)
				if m, ok := v.(ssz.Marshaler); ok {
					enc[1], _ = m.MarshalSSZ()
				}
				if rt, ok := c14root(v); ok {
					enc[2] = rt[:]
				}
				runtime.VerifSetMapRot(false, 0)
				if rot == 0 {
					ref = enc
					continue
				}
				for k := range enc {
					if !bytes.Equal(enc[k], ref[k]) {
						return fmt.Sprintf("encoding %d differs under map rotation %d", k, rot)
					}
				}
			}
			return ""
		})
	}

	// proto encodings, SSZ-enabled and JSON
	protoSteps := func(mode string) {
		for _, duty := range u.Duties {
			duty := duty
			for i, v := range u.insts {
				i, v := i, v
				if u.Signed {
					step(i, "proto-"+mode+":"+duty.String(), func() string {
						psd := core.ParSignedData{SignedData: v.(core.SignedData), ShareIdx: 1 + i}
						pb1, err := core.ParSignedDataToProto(psd)
						if err != nil {
							return "to proto: " + err.Error()
						}
						wire, err := proto.Marshal(pb1)
						if err != nil {
							return err.Error()
						}
						pbw := new(pbv1.ParSignedData)
						if err := proto.Unmarshal(wire, pbw); err != nil {
							return err.Error()
						}
						psd2, err := core.ParSignedDataFromProto(duty, pbw)
						if err != nil {
							return "from proto: " + err.Error()
						}
						if psd2.ShareIdx != psd.ShareIdx {
							return "share index changed"
						}
						if d := c14diff(v, psd2.SignedData); d != "" {
							return d
						}
						pb2, err := core.ParSignedDataToProto(psd2)
						if err != nil {
							return "re-encode: " + err.Error()
						}
						if !proto.Equal(pb1, pb2) {
							return "re-encoded proto differs"
						}
						if !bytes.Equal(pb1.GetSignature(), psd.Signature()) {
							return "proto signature field differs from the data's signature"
						}
						return ""
					})
				} else {
					step(i, "proto-"+mode+":"+duty.String(), func() string {
						set := core.UnsignedDataSet{e.pubkey: v.(core.UnsignedData)}
						pb1, err := core.UnsignedDataSetToProto(set)
						if err != nil {
							return "to proto: " + err.Error()
						}
						wire, err := proto.Marshal(pb1)
						if err != nil {
							return err.Error()
						}
						pbw := new(pbv1.UnsignedDataSet)
						if err := proto.Unmarshal(wire, pbw); err != nil {
							return err.Error()
						}
						set2, err := core.UnsignedDataSetFromProto(duty, pbw)
						if err != nil {
							return "from proto: " + err.Error()
						}
						if len(set2) != 1 {
							return "set size changed"
						}
						if d := c14diff(v, set2[e.pubkey]); d != "" {
							return d
						}
						pb2, err := core.UnsignedDataSetToProto(set2)
						if err != nil {
							return "re-encode: " + err.Error()
						}
						if !proto.Equal(pb1, pb2) {
							return "re-encoded proto differs"
						}
						return ""
					})
				}
			}
			// whole sets, all map rotations, both insertion orders
			step(0, "set-"+mode+":"+duty.String(), func() string {
				keys := []core.PubKey{testutil.RandomCorePubKey(e.t), testutil.RandomCorePubKey(e.t), testutil.RandomCorePubKey(e.t)}
				var ref []byte
				for order := 0; order < 2; order++ {
					for rot := 0; rot < 4; rot++ {
						var msg proto.Message
						var err error
						runtime.VerifSetMapRot(true, uint64(rot))
						if u.Signed {
							set := core.ParSignedDataSet{}
							for k := range keys {
								j := k
								if order == 1 {
									j = len(keys) - 1 - k
								}
								set[keys[j]] = core.ParSignedData{SignedData: u.insts[j].(core.SignedData), ShareIdx: j + 1}
							}
							msg, err = core.ParSignedDataSetToProto(set)
						} else {
							set := core.UnsignedDataSet{}
							for k := range keys {
								j := k
								if order == 1 {
									j = len(keys) - 1 - k
								}
								set[keys[j]] = u.insts[j].(core.UnsignedData)
							}
							msg, err = core.UnsignedDataSetToProto(set)
						}
						var b []byte
						if err == nil {
							b, err = proto.MarshalOptions{Deterministic: true}.Marshal(msg)
						}
						runtime.VerifSetMapRot(false, 0)
						if err != nil {
							return "encode set: " + err.Error()
						}
						if ref == nil {
							ref = b
						} else if !bytes.Equal(ref, b) {
							return fmt.Sprintf("set encoding differs (insertion order %d, map rotation %d)", order, rot)
						}
						// and the set decodes back to the same members under this rotation
						runtime.VerifSetMapRot(true, uint64(rot))
						var why string
						if u.Signed {
							got, err := core.ParSignedDataSetFromProto(duty, msg.(*pbv1.ParSignedDataSet))
							if err != nil {
								why = "decode set: " + err.Error()
							} else {
								for j, k := range keys {
									if got[k].ShareIdx != j+1 {
										why = "share index of a set member changed"
									} else if d := c14diff(u.insts[j], got[k].SignedData); d != "" {
										why = "set member: " + d
									}
								}
							}
						} else {
							got, err := core.UnsignedDataSetFromProto(duty, msg.(*pbv1.UnsignedDataSet))
							if err != nil {
								why = "decode set: " + err.Error()
							} else {
								for j, k := range keys {
									if d := c14diff(u.insts[j], got[k]); d != "" {
										why = "set member: " + d
									}
								}
							}
						}
						runtime.VerifSetMapRot(false, 0)
						if why != "" {
							return why
						}
					}
				}
				return ""
			})
		}
	}
	protoSteps("ssz")
	e.t.Run("jsonproto", func(t *testing.T) {
		core.DisableSSZMarshallingForT(t)
		protoSteps("json")
	})
}

// ---------------------------------------------------------------------------------------------------
// part (b): mutation generators
// ---------------------------------------------------------------------------------------------------

var c14versionNames = []string{"phase0", "altair", "bellatrix", "capella", "deneb", "electra", "fulu"}

func c14isNumStr(s string) bool {
	if s == "" || len(s) > 20 {
		return false
	}
	for _, c := range s {
		if c < '0' || c > '9' {
			return false
		}
	}
	return true
}

// c14jsonMutations emits every single-node structural mutation of doc.
func c14jsonMutations(doc []byte, emit func(kind, path string, mutated []byte)) error {
	dec := json.NewDecoder(bytes.NewReader(doc))
	dec.UseNumber()
	var root any
	if err := dec.Decode(&root); err != nil {
		return err
	}
	out := func(kind, path string) {
		b, err := json.Marshal(root)
		if err == nil {
			emit(kind, path, b)
		}
	}
	var walk func(node any, path, key string, replace func(any), remove func() func())
	walk = func(node any, path, key string, replace func(any), remove func() func()) {
		kindOf := func(x any) string {
			switch x.(type) {
			case nil:
				return "null"
			case string:
				return "string"
			case json.Number:
				return "number"
			case bool:
				return "bool"
			case map[string]any:
				return "object"
			case []any:
				return "array"
			}
			return "?"
		}
		mine := kindOf(node)
		repl := []struct {
			kind string
			v    any
		}{
			{"null", nil}, {"type:string", "x"}, {"type:number", json.Number("7")}, {"type:bool", true},
			{"type:object", map[string]any{"a": json.Number("1")}}, {"type:array", []any{json.Number("1")}},
			{"emptyarr", []any{}}, {"nullarr", []any{nil}}, {"emptyobj", map[string]any{}},
		}
		for _, m := range repl {
			if m.kind == mine || m.kind == "type:"+mine {
				continue
			}
			if a, ok := node.([]any); ok && m.kind == "emptyarr" && len(a) == 0 {
				continue
			}
			if o, ok := node.(map[string]any); ok && m.kind == "emptyobj" && len(o) == 0 {
				continue
			}
			replace(m.v)
			out(m.kind, path)
		}
		switch x := node.(type) {
		case string:
			if x != "" {
				replace("")
				out("emptystr", path)
			}
			if strings.HasPrefix(x, "0x") && len(x) >= 4 {
				replace(x[:len(x)-2])
				out("hexshort", path)
				replace(x + "00")
				out("hexlong", path)
				replace("0x" + strings.Repeat("0", len(x)-2))
				out("hexzero", path)
				replace("0x" + strings.Repeat("f", len(x)-2))
				out("hexones", path)
			}
			if c14isNumStr(x) {
				replace("-1")
				out("num:negative", path)
				replace("340282366920938463463374607431768211456")
				out("num:huge", path)
				replace("18446744073709551615")
				out("num:maxuint64", path)
				if x != "0" {
					replace("0")
					out("num:zero", path)
				}
			}
			if key == "version" {
				for _, vn := range c14versionNames {
					if vn != x {
						replace(vn)
						out("version:"+vn, path)
					}
				}
			}
		case bool:
			replace(!x)
			out("boolflip", path)
		}
		replace(node)
		if remove != nil {
			undo := remove()
			out("removed", path)
			undo()
		}
		switch x := node.(type) {
		case map[string]any:
			keys := make([]string, 0, len(x))
			for k := range x {
				keys = append(keys, k)
			}
			sort.Strings(keys)
			for _, k := range keys {
				k := k
				walk(x[k], path+"."+k, k, func(v any) { x[k] = v }, func() func() {
					old := x[k]
					delete(x, k)
					return func() { x[k] = old }
				})
			}
		case []any:
			for i := range x {
				i := i
				walk(x[i], fmt.Sprintf("%s[%d]", path, i), key, func(v any) { x[i] = v }, func() func() {
					shorter := append(append([]any{}, x[:i]...), x[i+1:]...)
					replace(shorter)
					return func() { replace(x) }
				})
			}
		}
	}
	walk(root, "$", "", func(v any) { root = v }, nil)
	return nil
}

// c14sszMutations: truncations and offset smashing.
func c14sszMutations(b []byte, thorough bool, emit func(kind, where string, mutated []byte)) {
	n := len(b)
	want := func(l int) bool {
		if thorough || n <= 4096 {
			return true
		}
		// quick, big objects: the header/offset area, the tail, and every 4-byte (offset-sized) boundary up
		// to 2 KiB, then every 32-byte chunk boundary
		return l < 600 || l > n-200 || (l < 2048 && l%4 == 0) || l%32 == 0
	}
	for l := 0; l < n; l++ {
		if want(l) {
			emit("truncate", fmt.Sprintf("len=%d/%d", l, n), b[:l:l])
		}
	}
	emit("extend", "1 trailing byte", append(append([]byte{}, b...), 0))
	blim, vals := n, []byte{0x00, 0x01, 0xff}
	if !thorough {
		vals = []byte{0x00, 0xff}
		if blim > 160 {
			blim = 160
		}
	}
	for p := 0; p < blim; p++ {
		for _, val := range vals {
			if b[p] == val {
				continue
			}
			m := append([]byte{}, b...)
			m[p] = val
			emit("byte", fmt.Sprintf("byte@%d", p), m)
		}
	}
	lim := n - 4
	if lim > 512 && !thorough {
		lim = 512
	} else if lim > 4096 {
		lim = 4096
	}
	for p := 0; p <= lim; p += 4 {
		for _, val := range []uint32{0, 1, uint32(n - 1), uint32(n), uint32(n + 1), math.MaxUint32} {
			if binary.LittleEndian.Uint32(b[p:]) == val {
				continue
			}
			m := append([]byte{}, b...)
			binary.LittleEndian.PutUint32(m[p:], val)
			emit("offset", fmt.Sprintf("word@%d", p), m)
		}
	}
}

var c14allDuties = []int{-1, 0, 1, 2, 3, 4, 5, 6, 7, 8, 9, 10, 11, 12, 13, 14, 1 << 20}

func c14b64(b []byte) string { return base64.StdEncoding.EncodeToString(b) }

func (e *c14env) paths(u *c14unit) []string {
	if u.Signed {
		return []string{"parsigex"}
	}
	return []string{"consensus"}
}

func (e *c14env) partB(u *c14unit) {
	r := e.r
	thorough := enumx.Thorough()
	insts := u.insts
	if u.Signed {
		insts = u.sigd
	}
	nInst := 1
	if thorough {
		nInst = len(insts)
	}
	path := e.paths(u)[0]
	sampled := false

	for i := 0; i < nInst; i++ {
		if r.Expired() {
			return
		}
		v := insts[i]
		doc, err := json.Marshal(v)
		if err != nil {
			r.Note("cannot encode " + u.Name + ": " + err.Error())
			continue
		}
		var sszb []byte
		if m, ok := v.(ssz.Marshaler); ok {
			sszb, _ = m.MarshalSSZ()
		}
		for _, duty := range u.Duties {
			// the unmutated encodings must be accepted (non-vacuity of everything below)
			for _, enc := range [][]byte{doc, sszb} {
				if enc == nil {
					continue
				}
				res := e.check(c14case{Path: path, Duty: int(duty), ShareIdx: 1, Data: c14b64(enc), Unit: u.Name, Mutation: "none"}, "valid:"+u.Name)
				if res.Panic == nil && !res.Decoded {
					r.Note("valid encoding of " + u.Name + " was not accepted under " + duty.String())
				} else if res.Panic == nil && !res.Handled {
					r.Note(fmt.Sprintf("valid encoding of %s decoded but was not stored under %s: %v", u.Name, duty, e.lastErr))
				}
				if res.Handled {
					r.Count("valid_input_fully_handled", 1)
				}
			}
			n := 0
			err := c14jsonMutations(doc, func(kind, where string, mutated []byte) {
				if n&63 == 0 && r.Expired() {
					return
				}
				n++
				base := kind
				if k := strings.IndexByte(kind, ':'); k > 0 {
					base = kind[:k]
				}
				c := c14case{Path: path, Duty: int(duty), ShareIdx: 1, Data: c14b64(mutated), Unit: u.Name, Mutation: kind, Where: where}
				e.check(c, "mut:"+base+":"+u.Name)
				if !sampled && kind == "null" && strings.Count(where, ".") == 2 {
					sampled = true
					r.Sample(map[string]any{"type": u.Name, "path": path, "mutation": kind, "where": where, "bytes": len(mutated)})
				}
			})
			if err != nil {
				r.Note("json walker failed for " + u.Name + ": " + err.Error())
			}
			r.Count("json_mutations", n)
			if sszb != nil {
				n = 0
				c14sszMutations(sszb, thorough, func(kind, where string, mutated []byte) {
					if n&63 == 0 && r.Expired() {
						return
					}
					n++
					c := c14case{Path: path, Duty: int(duty), ShareIdx: 1, Data: c14b64(mutated), Unit: u.Name, Mutation: "ssz-" + kind, Where: where}
					e.check(c, "mut:ssz-"+kind+":"+u.Name)
				})
				r.Count("ssz_mutations", n)
			}
		}
		// type confusion: these bytes under every duty type, on both decode paths
		for _, enc := range []struct {
			name string
			b    []byte
		}{{"json", doc}, {"ssz", sszb}} {
			if enc.b == nil {
				continue
			}
			for _, duty := range c14allDuties {
				for _, p := range []string{"parsigex", "consensus"} {
					c := c14case{Path: p, Duty: duty, ShareIdx: 1, Data: c14b64(enc.b), Unit: u.Name, Mutation: "as-duty-" + enc.name, Where: core.DutyType(duty).String()}
					res := e.check(c, fmt.Sprintf("confuse:%s:%s->%d", enc.name, u.Name, duty))
					if res.Decoded {
						r.Count("type_confusion_decoded", 1)
					}
				}
			}
		}
	}

	// proto-level malformations in this type's decoding context
	v := insts[0]
	doc, _ := json.Marshal(v)
	for _, duty := range u.Duties {
		d := int(duty)
		var cs []c14case
		if u.Signed {
			for _, p := range []string{"parsigex", "api-parsig"} {
				cs = append(cs,
					c14case{Path: p, Duty: d, ShareIdx: 1, NilData: true, Mutation: "proto:nil-data"},
					c14case{Path: p, Duty: d, ShareIdx: 1, Data: "", Mutation: "proto:empty-data"},
					c14case{Path: p, Duty: d, NilEntry: true, Mutation: "proto:nil-entry"},
					c14case{Path: p, Duty: d, Empty: true, Mutation: "proto:empty-set"},
					c14case{Path: p, Duty: d, NoSet: true, Mutation: "proto:no-set"},
				)
				for _, idx := range []int32{0, -1, math.MinInt32, math.MaxInt32, 5, 255} {
					cs = append(cs, c14case{Path: p, Duty: d, ShareIdx: idx, Data: c14b64(doc), Mutation: fmt.Sprintf("proto:share-idx=%d", idx)})
				}
				for _, pk := range []string{"x", "0x", strings.Repeat("z", 98), string(e.pubkey) + "00"} {
					cs = append(cs, c14case{Path: p, Duty: d, ShareIdx: 1, PubKey: pk, Data: c14b64(doc), Mutation: "proto:pubkey", Where: fmt.Sprintf("len=%d", len(pk))})
				}
			}
		} else {
			cs = append(cs,
				c14case{Path: "consensus", Duty: d, NilData: true, Mutation: "proto:nil-data"},
				c14case{Path: "consensus", Duty: d, Data: "", Mutation: "proto:empty-data"},
				c14case{Path: "consensus", Duty: d, Empty: true, Mutation: "proto:empty-set"},
				c14case{Path: "consensus", Duty: d, NoSet: true, Mutation: "proto:no-set"},
			)
			for _, pk := range []string{"x", "0x", strings.Repeat("z", 98), string(e.pubkey) + "00"} {
				cs = append(cs, c14case{Path: "consensus", Duty: d, PubKey: pk, Data: c14b64(doc), Mutation: "proto:pubkey", Where: fmt.Sprintf("len=%d", len(pk))})
			}
		}
		for _, c := range cs {
			c.Unit = u.Name
			e.check(c, "proto:"+strings.TrimPrefix(strings.SplitN(c.Mutation, "=", 2)[0], "proto:")+":"+u.Name)
		}
	}

	// frame level: every prefix of a valid frame
	if u.Signed && len(u.Duties) > 0 {
		pb, err := core.ParSignedDataToProto(core.ParSignedData{SignedData: v.(core.SignedData), ShareIdx: 1})
		if err == nil {
			frame := c14frame(&pbv1.ParSigExMsg{Duty: &pbv1.Duty{Slot: c14slot, Type: int32(u.Duties[0])},
				DataSet: &pbv1.ParSignedDataSet{Set: map[string]*pbv1.ParSignedData{string(e.pubkey): pb}}})
			n := len(frame)
			for l := 0; l <= n; l++ {
				if !thorough && n > 4096 && !(l < 600 || l > n-200 || l%32 == 0) {
					continue
				}
				if l&63 == 0 && r.Expired() {
					return
				}
				c := c14case{Path: "frame", Duty: int(u.Duties[0]), Data: c14b64(frame[:l]), Unit: u.Name, Mutation: "frame-prefix", Where: "parsigex"}
				res := e.check(c, "frame:prefix:"+u.Name)
				if l == n && !res.Handled {
					r.Note("complete valid frame of " + u.Name + " was not stored")
				}
			}
		}
	}
}

// short arbitrary frames: every byte string of length <= 2, for each protocol's request type.
func (e *c14env) partFrames(first int) {
	for _, where := range []string{"parsigex", "qbft", "priority"} {
		if first == 0 {
			e.check(c14case{Path: "frame", Data: "", Unit: "bytes", Mutation: "short-frame", Where: where}, "frame:short:"+where)
		}
		e.check(c14case{Path: "frame", Data: c14b64([]byte{byte(first)}), Unit: "bytes", Mutation: "short-frame", Where: where}, "frame:short:"+where)
		for b := 0; b < 256; b++ {
			e.check(c14case{Path: "frame", Data: c14b64([]byte{byte(first), byte(b)}), Unit: "bytes", Mutation: "short-frame", Where: where}, "frame:short:"+where)
		}
	}
}

// ---------------------------------------------------------------------------------------------------
// the test
// ---------------------------------------------------------------------------------------------------

// c14cpuMs: CPU time of this process (the wall clock says little on a loaded machine).
func c14cpuMs() int {
	var ru syscall.Rusage
	if syscall.Getrusage(syscall.RUSAGE_SELF, &ru) != nil {
		return 0
	}
	return int(ru.Utime.Sec*1000+ru.Utime.Usec/1000) + int(ru.Stime.Sec*1000+ru.Stime.Usec/1000)
}

func TestVerifC14(t *testing.T) {
	r := enumx.New(t, "C14")
	defer r.Finish()
	log.InitConsoleForT(t, zapcore.AddSync(io.Discard))
	e := c14newEnv(t, r)

	if r.ReplayPath != "" {
		var ic c14intCase
		if err := r.ReplayCase(&ic); err == nil && ic.Part == "ints" {
			e.replayInts(ic, c14catalogue(t))
			return
		}
		var pc c14pCase
		if err := r.ReplayCase(&pc); err == nil && pc.Part == "canon-parsigex" {
			e.replayCanon(pc)
			return
		}
		var c c14case
		if err := r.ReplayCase(&c); err != nil {
			t.Fatalf("replay: %v", err)
		}
		if c.Path == "" {
			fmt.Println("replay: part (a) violations depend on generated values; re-run the check to reproduce")
			return
		}
		if strings.HasPrefix(c.Mutation, "fmt-") {
			e.decCase(c, "replay")
		}
		res := e.check(c, "replay")
		fmt.Printf("replay %s %s mutation=%s at %s: stage=%s decoded=%v panic=%+v\n", c.Path, c.Unit, c.Mutation, c.Where, res.Stage, res.Decoded, res.Panic)
		return
	}

	units := c14catalogue(t)
	only := os.Getenv("VERIF_C14_ONLY") // development aid: restrict to the units whose name contains this
	for _, u := range units {
		if !r.Mine() {
			continue
		}
		if r.Expired() {
			return
		}
		if only != "" && !strings.Contains(u.Name, only) {
			continue
		}
		t0 := time.Now()
		okA, okB := e.prepare(u)
		if okA {
			e.partA(u)
		}
		t1 := time.Now()
		if okB {
			e.partB(u)
		}
		r.Count("ms_part_a", int(t1.Sub(t0).Milliseconds()))
		r.Count("ms_part_b", int(time.Since(t1).Milliseconds()))
		if os.Getenv("VERIF_C14_TIMING") != "" {
			r.Count("ms:"+u.Name, int(time.Since(t0).Milliseconds()))
		}
	}
	for first := 0; first < 256 && only == ""; first++ {
		if !r.Mine() {
			continue
		}
		if r.Expired() {
			return
		}
		t0 := time.Now()
		e.partFrames(first)
		r.Count("ms_frames", int(time.Since(t0).Milliseconds()))
	}

	// ---- sets with several entries in every wire order of the entries (zz_verif_c14canon_test.go) --------------
	if only == "" {
		t0 := time.Now()
		e.partCanon(units)
		r.Count("ms_canon_parsigex", int(time.Since(t0).Milliseconds()))
	}

	// ---- valid values of realistic size, exactly at size boundaries (zz_verif_c14size_test.go) ------------------
	if only == "" || only == "size" {
		t0 := time.Now()
		e.partSizes(t)
		r.Count("ms_sizes", int(time.Since(t0).Milliseconds()))
	}

	// ---- small-scope values of every integer field (zz_verif_c14ints_test.go) ----------------------------
	r.Count("cpu_ms_parts_a_b_frames", c14cpuMs())
	if os.Getenv("VERIF_C14_SKIP_INTS") == "" {
		t0, c0 := time.Now(), c14cpuMs()
		for _, u := range units {
			K := 3
			if c14isBig(u) {
				K = 9
			}
			for chunk := 0; chunk < K; chunk++ {
				if !r.Mine() {
					continue
				}
				if r.Expired() {
					return
				}
				if only != "" && !strings.Contains(u.Name, only) {
					continue
				}
				t1 := time.Now()
				e.partInts(u, chunk, K)
				if c14isBig(u) {
					r.Count("ms_ints_proposals", int(time.Since(t1).Milliseconds()))
				}
			}
		}
		if r.Mine() && only == "" {
			e.partIntDuty()
		}
		// edge bytes of every unit's SSZ encoding (zz_verif_c14edges_test.go)
		for _, u := range units {
			if !r.Mine() {
				continue
			}
			if r.Expired() {
				return
			}
			if only != "" && !strings.Contains(u.Name, only) {
				continue
			}
			e.partEdges(u)
		}
		if enumx.Thorough() {
			for _, u := range units {
				K := 7 // coprime with the usual shard counts, so that the heavy items do not pile up on a few shards
				if u.Name == "AttestationData" {
					K = 61
				}
				for chunk := 0; chunk < K; chunk++ {
					if !r.Mine() {
						continue
					}
					if r.Expired() {
						return
					}
					if only != "" && !strings.Contains(u.Name, only) {
						continue
					}
					e.partIntPairs(u, chunk, K)
				}
			}
		}
		r.Count("ms_ints", int(time.Since(t0).Milliseconds()))
		r.Count("cpu_ms_ints", c14cpuMs()-c0)
	}

	// ---- decoder input alphabet around format detection (zz_verif_c14dec_test.go) --------------------------
	if os.Getenv("VERIF_C14_SKIP_DEC") == "" {
		t0, c0 := time.Now(), c14cpuMs()
		for _, u := range units {
			K := 3
			if c14isBig(u) {
				K = 15
			}
			for chunk := 0; chunk < K; chunk++ {
				if !r.Mine() {
					continue
				}
				if r.Expired() {
					return
				}
				if only != "" && !strings.Contains(u.Name, only) {
					continue
				}
				e.partDecoder(u, chunk, K)
			}
		}
		r.Count("ms_decoder", int(time.Since(t0).Milliseconds()))
		r.Count("cpu_ms_decoder", c14cpuMs()-c0)
	}
}
