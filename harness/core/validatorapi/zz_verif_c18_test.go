package validatorapi

// C18 (validator API): every submit-style endpoint of the component (signature verification disabled through the
// insecure constructor: C18 is not about signatures) with two subscribers. Parties: the request object handed in by
// the validator client, each subscriber's set, the response where the endpoint has one.

import (
	"context"
	"fmt"
	"reflect"
	"testing"
	"time"

	"github.com/OffchainLabs/go-bitfield"
	eth2api "github.com/attestantio/go-eth2-client/api"
	eth2v1 "github.com/attestantio/go-eth2-client/api/v1"
	eth2spec "github.com/attestantio/go-eth2-client/spec"
	"github.com/attestantio/go-eth2-client/spec/altair"
	"github.com/attestantio/go-eth2-client/spec/electra"
	eth2p0 "github.com/attestantio/go-eth2-client/spec/phase0"

	"github.com/obolnetwork/charon/app/eth2wrap"
	"github.com/obolnetwork/charon/core"
	"github.com/obolnetwork/charon/testutil"
	"github.com/obolnetwork/charon/zzverif/alias"
	"github.com/obolnetwork/charon/zzverif/enumx"
)

const (
	c18valIdx  = eth2p0.ValidatorIndex(11)
	c18valComm = 3 // position of the validator in its committee
)

var c18verField = map[eth2spec.DataVersion]string{
	eth2spec.DataVersionPhase0: "Phase0", eth2spec.DataVersionAltair: "Altair", eth2spec.DataVersionBellatrix: "Bellatrix",
	eth2spec.DataVersionCapella: "Capella", eth2spec.DataVersionDeneb: "Deneb", eth2spec.DataVersionElectra: "Electra", eth2spec.DataVersionFulu: "Fulu",
}

type c18eth2 struct {
	eth2wrap.Client
	pub eth2p0.BLSPubKey
}

func (c c18eth2) ActiveValidators(context.Context) (eth2wrap.ActiveValidators, error) {
	return eth2wrap.ActiveValidators{c18valIdx: c.pub}, nil
}

func (c18eth2) Spec(context.Context, *eth2api.SpecOpts) (*eth2api.Response[map[string]any], error) {
	return &eth2api.Response[map[string]any]{Data: map[string]any{"SECONDS_PER_SLOT": 12 * time.Second, "SLOTS_PER_EPOCH": uint64(32)}}, nil
}

// c18unsigned derives the consensus proposal that matches a signed proposal of the validator client.
func c18unsigned(p *eth2api.VersionedSignedProposal) (*eth2api.VersionedProposal, uint64, error) {
	name := c18verField[p.Version]
	if p.Blinded {
		name += "Blinded"
	}
	s := reflect.ValueOf(p).Elem().FieldByName(name)
	if !s.IsValid() || s.IsNil() {
		return nil, 0, fmt.Errorf("field %s not populated", name)
	}
	s = s.Elem()
	if sb := s.FieldByName("SignedBlock"); sb.IsValid() {
		s = sb.Elem()
	}
	msg := alias.DeepCopy(s.FieldByName("Message").Interface())
	mv := reflect.ValueOf(msg)
	out := &eth2api.VersionedProposal{Version: p.Version, Blinded: p.Blinded}
	f := reflect.ValueOf(out).Elem().FieldByName(name)
	if f.Type() == mv.Type() {
		f.Set(mv)
	} else { // block contents
		bc := reflect.New(f.Type().Elem())
		bc.Elem().FieldByName("Block").Set(mv)
		f.Set(bc)
	}
	return out, mv.Elem().FieldByName("Slot").Uint(), nil
}

func c18attestation(v eth2spec.DataVersion) *eth2spec.VersionedAttestation {
	a := &eth2spec.VersionedAttestation{Version: v}
	data := testutil.RandomAttestationDataPhase0()
	ab := bitfield.NewBitlist(8)
	ab.SetBitAt(c18valComm, true)
	if v >= eth2spec.DataVersionElectra {
		data.Index = 0
		idx := c18valIdx
		a.ValidatorIndex = &idx
		att := &electra.Attestation{AggregationBits: ab, Data: data, Signature: testutil.RandomEth2Signature(), CommitteeBits: testutil.RandomBitVec64()}
		reflect.ValueOf(a).Elem().FieldByName(c18verField[v]).Set(reflect.ValueOf(att))
	} else {
		att := &eth2p0.Attestation{AggregationBits: ab, Data: data, Signature: testutil.RandomEth2Signature()}
		reflect.ValueOf(a).Elem().FieldByName(c18verField[v]).Set(reflect.ValueOf(att))
	}
	return a
}

type c18endpoint struct {
	name string
	typ  string     // value type delivered to the subscribers
	req  func() any // fresh request object (deterministic: deep copy of one generated master)
	call func(c *Component, w *alias.World, req any) error
}

func c18endpoints(t *testing.T) []c18endpoint {
	var eps []c18endpoint
	add := func(name, typ string, master any, call func(c *Component, w *alias.World, req any) error) {
		eps = append(eps, c18endpoint{name: name, typ: typ, req: func() any { return alias.DeepCopy(master) }, call: call})
	}
	ctx := context.Background()
	vers := []eth2spec.DataVersion{eth2spec.DataVersionFulu}
	if enumx.Thorough() {
		vers = []eth2spec.DataVersion{eth2spec.DataVersionPhase0, eth2spec.DataVersionAltair, eth2spec.DataVersionBellatrix, eth2spec.DataVersionCapella,
			eth2spec.DataVersionDeneb, eth2spec.DataVersionElectra, eth2spec.DataVersionFulu}
	}
	for _, v := range vers {
		vn := alias.VersionName(v)
		add("SubmitAttestations", "VersionedAttestation/"+vn, &eth2api.SubmitAttestationsOpts{Attestations: []*eth2spec.VersionedAttestation{c18attestation(v)}},
			func(c *Component, _ *alias.World, req any) error {
				return c.SubmitAttestations(ctx, req.(*eth2api.SubmitAttestationsOpts))
			})
		agg := alias.AggregateAndProof(v)
		reflect.ValueOf(agg).Elem().FieldByName(c18verField[v]).Elem().FieldByName("Message").Elem().FieldByName("AggregatorIndex").SetUint(uint64(c18valIdx))
		add("SubmitAggregateAttestations", "VersionedSignedAggregateAndProof/"+vn,
			&eth2api.SubmitAggregateAttestationsOpts{SignedAggregateAndProofs: []*eth2spec.VersionedSignedAggregateAndProof{agg}},
			func(c *Component, _ *alias.World, req any) error {
				return c.SubmitAggregateAttestations(ctx, req.(*eth2api.SubmitAggregateAttestationsOpts))
			})
		add("SubmitProposal", "VersionedSignedProposal/"+vn, &eth2api.SubmitProposalOpts{Proposal: alias.SignedProposal(v, false)},
			func(c *Component, _ *alias.World, req any) error {
				return c.SubmitProposal(ctx, req.(*eth2api.SubmitProposalOpts))
			})
		if v >= eth2spec.DataVersionBellatrix {
			bl := alias.SignedProposal(v, true)
			add("SubmitProposal", "VersionedSignedProposal/"+vn+"-blinded", &eth2api.SubmitProposalOpts{Proposal: bl},
				func(c *Component, _ *alias.World, req any) error {
					return c.SubmitProposal(ctx, req.(*eth2api.SubmitProposalOpts))
				})
			bl2 := alias.SignedProposal(v, true)
			add("SubmitBlindedProposal", "VersionedSignedProposal/"+vn+"-blinded", &eth2api.SubmitBlindedProposalOpts{Proposal: &eth2api.VersionedSignedBlindedProposal{
				Version: v, Bellatrix: bl2.BellatrixBlinded, Capella: bl2.CapellaBlinded, Deneb: bl2.DenebBlinded, Electra: bl2.ElectraBlinded, Fulu: bl2.FuluBlinded}},
				func(c *Component, _ *alias.World, req any) error {
					return c.SubmitBlindedProposal(ctx, req.(*eth2api.SubmitBlindedProposalOpts))
				})
		}
	}
	exit := testutil.RandomExit()
	exit.Message.ValidatorIndex = c18valIdx
	add("SubmitVoluntaryExit", "SignedVoluntaryExit", exit, func(c *Component, _ *alias.World, req any) error {
		return c.SubmitVoluntaryExit(ctx, req.(*eth2p0.SignedVoluntaryExit))
	})
	bcs := testutil.RandomBeaconCommitteeSelection()
	bcs.ValidatorIndex = c18valIdx
	add("BeaconCommitteeSelections", "BeaconCommitteeSelection", &eth2api.BeaconCommitteeSelectionsOpts{Selections: []*eth2v1.BeaconCommitteeSelection{bcs}},
		func(c *Component, w *alias.World, req any) error {
			resp, err := c.BeaconCommitteeSelections(ctx, req.(*eth2api.BeaconCommitteeSelectionsOpts))
			if err == nil {
				w.Result("response", resp.Data)
			}
			return err
		})
	scs := testutil.RandomSyncCommitteeSelection()
	scs.ValidatorIndex = c18valIdx
	add("SyncCommitteeSelections", "SyncCommitteeSelection", &eth2api.SyncCommitteeSelectionsOpts{Selections: []*eth2v1.SyncCommitteeSelection{scs}},
		func(c *Component, w *alias.World, req any) error {
			resp, err := c.SyncCommitteeSelections(ctx, req.(*eth2api.SyncCommitteeSelectionsOpts))
			if err == nil {
				w.Result("response", resp.Data)
			}
			return err
		})
	msg := testutil.RandomSyncCommitteeMessage()
	msg.ValidatorIndex = c18valIdx
	add("SubmitSyncCommitteeMessages", "SignedSyncMessage", []*altair.SyncCommitteeMessage{msg}, func(c *Component, _ *alias.World, req any) error {
		return c.SubmitSyncCommitteeMessages(ctx, req.([]*altair.SyncCommitteeMessage))
	})
	contrib := testutil.RandomSignedSyncContributionAndProof()
	contrib.Message.AggregatorIndex = c18valIdx
	add("SubmitSyncCommitteeContributions", "SignedSyncContributionAndProof", []*altair.SignedContributionAndProof{contrib},
		func(c *Component, _ *alias.World, req any) error {
			return c.SubmitSyncCommitteeContributions(ctx, req.([]*altair.SignedContributionAndProof))
		})
	add("Proposal", "SignedRandao", &eth2api.ProposalOpts{Slot: 77, RandaoReveal: testutil.RandomEth2Signature(), Graffiti: testutil.RandomArray32()},
		func(c *Component, w *alias.World, req any) error {
			resp, err := c.Proposal(ctx, req.(*eth2api.ProposalOpts))
			if err == nil {
				w.Result("response", resp.Data)
			}
			return err
		})
	return eps
}

func c18spec(t *testing.T, pub eth2p0.BLSPubKey, pk core.PubKey, fx *c18fix, e c18endpoint) alias.Spec {
	return alias.Spec{Path: "validatorapi/" + e.name, Type: e.typ, Modes: []string{alias.SubArg, alias.Result}, Run: func(w *alias.World) {
		c, err := NewComponentInsecure(t, c18eth2{pub: pub}, 1)
		if err != nil {
			w.Fail("new: %v", err)
			return
		}
		req := e.req()
		var agreed *eth2api.VersionedProposal
		switch o := req.(type) {
		case *eth2api.SubmitProposalOpts:
			agreed, _, err = c18unsigned(o.Proposal)
		case *eth2api.SubmitBlindedProposalOpts:
			b := o.Proposal
			agreed, _, err = c18unsigned(&eth2api.VersionedSignedProposal{Version: b.Version, Blinded: true, BellatrixBlinded: b.Bellatrix,
				CapellaBlinded: b.Capella, DenebBlinded: b.Deneb, ElectraBlinded: b.Electra, FuluBlinded: b.Fulu})
		case *eth2api.ProposalOpts:
			agreed = alias.DeepCopy(fx.proposal)
		}
		if err != nil {
			w.Fail("agreed proposal: %v", err)
			return
		}
		c.RegisterPubKeyByAttestation(func(context.Context, uint64, uint64, uint64) (core.PubKey, error) { return pk, nil })
		c.RegisterAwaitProposal(func(context.Context, uint64) (*eth2api.VersionedProposal, error) { return agreed, nil })
		c.RegisterGetDutyDefinition(func(_ context.Context, duty core.Duty) (core.DutyDefinitionSet, error) {
			if duty.Type == core.DutyAttester {
				var commIdx eth2p0.CommitteeIndex
				if o, ok := req.(*eth2api.SubmitAttestationsOpts); ok {
					d, err := o.Attestations[0].Data()
					if err != nil {
						return nil, err
					}
					commIdx = d.Index
				}
				return core.DutyDefinitionSet{pk: core.NewAttesterDefinition(&eth2v1.AttesterDuty{PubKey: pub, Slot: eth2p0.Slot(duty.Slot),
					ValidatorIndex: c18valIdx, CommitteeIndex: commIdx, CommitteeLength: 8, ValidatorCommitteeIndex: c18valComm})}, nil
			}
			return core.DutyDefinitionSet{pk: core.NewProposerDefinition(&eth2v1.ProposerDuty{PubKey: pub, Slot: eth2p0.Slot(duty.Slot), ValidatorIndex: c18valIdx})}, nil
		})
		c.RegisterAwaitAggSigDB(func(_ context.Context, duty core.Duty, _ core.PubKey, _ core.SubcommitteeIndex) (core.SignedData, error) {
			if duty.Type == core.DutyPrepareAggregator {
				return alias.DeepCopy(fx.bcs), nil
			}
			return alias.DeepCopy(fx.scs), nil
		})
		called := 0
		for _, n := range []string{"sub1", "sub2"} {
			n := n
			c.Subscribe(func(_ context.Context, _ core.Duty, set core.ParSignedDataSet) error {
				called++
				w.Sub(n, set)
				return nil
			})
		}
		w.Input("request", req)
		err = e.call(c, w, req)
		w.Outcome(e.name, err)
		if w.Mode == alias.Clean && (err != nil || called != 2) {
			w.Fail("refused by the component (subscribers called %d times): %v", called, err)
			return
		}
		w.ObserveUnlessInputMode("request(after)", req)
	}}
}

type c18fix struct {
	proposal *eth2api.VersionedProposal
	bcs      core.BeaconCommitteeSelection
	scs      core.SyncCommitteeSelection
}

func TestVerifC18VAPI(t *testing.T) {
	r := enumx.New(t, "C18")
	defer r.Finish()
	pub := testutil.RandomEth2PubKey(t)
	pk, err := core.PubKeyFromBytes(pub[:])
	if err != nil {
		r.Note("fixture: " + err.Error())
		return
	}
	fx := &c18fix{proposal: alias.Proposal(eth2spec.DataVersionFulu, false), bcs: testutil.RandomCoreBeaconCommitteeSelection(), scs: testutil.RandomCoreSyncCommitteeSelection()}
	for _, e := range c18endpoints(t) {
		s := c18spec(t, pub, pk, fx, e)
		if !r.Mine() {
			continue
		}
		if r.Expired() {
			return
		}
		if !alias.Wanted(r, s.Path, s.Type) {
			continue
		}
		alias.Run(r, s)
	}
}
