package validatorapi

// C10, validator-client path – PAIR dimension: several entries of ONE request that are invalid TOGETHER.
//
// Every endpoint whose request carries a list receives requests with exactly two entries, one for each validator of
// the cluster, for the same slot (and, where the type allows it, with the same signing root: identical attestation data,
// identical beacon block root). Each of the two positions independently carries one signature of the alphabet
//
//	valid         the node's own share of that validator over the entry's own signing root
//	swap          the VALID signature of the other entry (entry A carries sig_B, entry B carries sig_A)
//	otherval      the same share index of the OTHER validator over this entry's own signing root
//	plusD/minusD  sig + D / sig - D, D = a signature over a third message (group addition of signatures)
//	othercontent  the own share over other content
//	zero          the zero signature
//
// in both list orders. Pairs such as (swap, swap) and (plusD, minusD) are invalid entry by entry but the SUM of the two
// signatures equals the sum of the two valid ones: code that verifies "the request" / "the set" with one aggregate
// check admits them, code that verifies each entry does not. The oracle is per entry: an entry whose own signature
// does not verify for its own root, domain, epoch, validator and share must not reach a subscriber; a request whose two
// entries both fail must be answered with an error and no subscriber call; a request whose two entries both verify must be
// delivered; whether the valid entry of a mixed request is delivered is not judged.
//
// The section between "C10 PAIR COMMON BEGIN/END" is duplicated verbatim in core/parsigex/zz_verif_c10p_test.go.

import (
	"fmt"
	"math/big"
	"strings"

	eth2spec "github.com/attestantio/go-eth2-client/spec"
	"github.com/attestantio/go-eth2-client/spec/altair"
	eth2p0 "github.com/attestantio/go-eth2-client/spec/phase0"

	"github.com/obolnetwork/charon/tbls"
	"github.com/obolnetwork/charon/testutil"
	"github.com/obolnetwork/charon/zzverif/enumx"
)

// ===================================== C10 PAIR COMMON BEGIN =====================================

// c10pairAlts is the alphabet of one position of a pair.
var c10pairAlts = []string{"valid", "swap", "otherval", "plusD", "minusD", "othercontent", "zero"}

// c10blsOrder is the order r of the BLS12-381 groups.
var c10blsOrder, _ = new(big.Int).SetString("73eda753299d7d483339d80809a1d80553bda402fffe5bfeffffffff00000001", 16)

// c10negKey returns r - d: signing a message with it yields the inverse (in the signature group) of d's signature.
func c10negKey(d tbls.PrivateKey) tbls.PrivateKey {
	var out tbls.PrivateKey
	new(big.Int).Sub(c10blsOrder, new(big.Int).SetBytes(d[:])).FillBytes(out[:])
	return out
}

// c10pairSig is the signature material of one pair.
type c10pairSig struct {
	Sigs     [2]eth2p0.BLSSignature // what the two entries carry
	Valid    [2]eth2p0.BLSSignature // what they would have to carry
	SameRoot bool                   // both entries have the same signing root
	SumEqual bool                   // Sigs[0]+Sigs[1] == Valid[0]+Valid[1] in the signature group
}

// c10pairSigs computes the signatures of a pair: entry i belongs to validator vs[i], has the derived content sds[i] and
// carries the signature alts[i] names; share is the share index whose key signs.
func (cl *c10cluster) c10pairSigs(share int, vs [2]*c10val, sds [2]c10sd, alts [2]string) (out c10pairSig, err error) {
	var srs [2][32]byte
	for i := 0; i < 2; i++ {
		if srs[i], err = cl.signingRoot(sds[i], c10signOpts{}); err != nil {
			return out, err
		}
		sig, err := tbls.Sign(vs[i].Shares[share], srs[i][:])
		if err != nil {
			return out, err
		}
		out.Valid[i] = eth2p0.BLSSignature(sig)
	}
	out.SameRoot = srs[0] == srs[1]
	sign := func(key tbls.PrivateKey, sd c10sd, o c10signOpts) (tbls.Signature, error) {
		sr, err := cl.signingRoot(sd, o)
		if err != nil {
			return tbls.Signature{}, err
		}
		return tbls.Sign(key, sr[:])
	}
	third := [32]byte(testutil.RandomRoot())
	dkey := vs[0].Shares[share]
	d, err := sign(dkey, sds[0], c10signOpts{Root: &third})
	if err != nil {
		return out, err
	}
	negD, err := sign(c10negKey(dkey), sds[0], c10signOpts{Root: &third})
	if err != nil {
		return out, err
	}
	for i := 0; i < 2; i++ {
		var sig tbls.Signature
		switch alts[i] {
		case "valid":
			sig = tbls.Signature(out.Valid[i])
		case "swap":
			sig = tbls.Signature(out.Valid[1-i])
		case "otherval":
			sig, err = tbls.Sign(vs[1-i].Shares[share], srs[i][:])
		case "plusD":
			sig, err = tbls.Aggregate([]tbls.Signature{tbls.Signature(out.Valid[i]), d})
		case "minusD":
			sig, err = tbls.Aggregate([]tbls.Signature{tbls.Signature(out.Valid[i]), negD})
		case "othercontent":
			other := [32]byte(testutil.RandomRoot())
			sig, err = sign(vs[i].Shares[share], sds[i], c10signOpts{Root: &other})
		case "zero":
		default:
			err = fmt.Errorf("unknown pair alteration %q", alts[i])
		}
		if err != nil {
			return out, err
		}
		out.Sigs[i] = eth2p0.BLSSignature(sig)
	}
	got, e1 := tbls.Aggregate([]tbls.Signature{tbls.Signature(out.Sigs[0]), tbls.Signature(out.Sigs[1])})
	want, e2 := tbls.Aggregate([]tbls.Signature{tbls.Signature(out.Valid[0]), tbls.Signature(out.Valid[1])})
	out.SumEqual = e1 == nil && e2 == nil && got == want
	return out, nil
}

// c10pairSelfTest checks the harness's own group arithmetic: (sig_A + D) + (sig_B - D) == sig_A + sig_B, neither
// altered signature equals the valid one, and the exchanged pair sums to the same value as well.
func (cl *c10cluster) c10pairSelfTest(share int) error {
	vs := [2]*c10val{cl.vals[0], cl.vals[1]}
	sds := [2]c10sd{{Kind: "SYNC_COMMITTEE", Root: testutil.RandomRoot(), Epoch: c10Epoch}, {Kind: "SYNC_COMMITTEE", Root: testutil.RandomRoot(), Epoch: c10Epoch}}
	for _, alts := range [][2]string{{"plusD", "minusD"}, {"minusD", "plusD"}, {"swap", "swap"}} {
		p, err := cl.c10pairSigs(share, vs, sds, alts)
		if err != nil {
			return err
		}
		if !p.SumEqual || p.Sigs[0] == p.Valid[0] || p.Sigs[1] == p.Valid[1] {
			return fmt.Errorf("pair %v does not cancel", alts)
		}
		for i := 0; i < 2; i++ {
			sd := sds[i]
			sd.Sig = p.Sigs[i]
			if cl.verifies(sd, vs[i].PubShares[share]) {
				return fmt.Errorf("pair %v: the altered signature of entry %d verifies", alts, i)
			}
			sd.Sig = p.Valid[i]
			if !cl.verifies(sd, vs[i].PubShares[share]) {
				return fmt.Errorf("pair %v: the valid signature of entry %d does not verify", alts, i)
			}
		}
	}
	if p, err := cl.c10pairSigs(share, vs, sds, [2]string{"plusD", "plusD"}); err != nil || p.SumEqual {
		return fmt.Errorf("pair plusD/plusD sums to the valid sum (%v)", err)
	}
	return nil
}

// c10pairVariants: "same-root" = the two entries have the same signing root, "own-roots" = each entry has its own.
func c10pairVariants(kind c10kind) []string {
	switch kind {
	case c10Att, c10SyncMsg:
		return []string{"same-root", "own-roots"} // identical / different attestation data; same / different block root
	case c10BCSel, c10SyncSel, c10Randao:
		return []string{"same-root"} // the root is the slot / (slot, subcommittee) / epoch
	}
	return []string{"own-roots"} // the signed message names the validator
}

// c10pairParse splits "pair-<alt of v0's entry>-<alt of v1's entry>".
func c10pairParse(alt string) (out [2]string, ok bool) {
	p := strings.Split(alt, "-")
	if len(p) != 3 || p[0] != "pair" {
		return out, false
	}
	return [2]string{p[1], p[2]}, true
}

// c10pairCount records the non-vacuity counters of one evaluated pair.
func c10pairCount(r *enumx.Run, path string, valid [2]bool, p c10pairSig, delivered bool) {
	n := func(name string) { r.Count(path+"_pair_"+name, 1) }
	if p.SameRoot {
		n("same_signing_root")
	}
	switch {
	case valid[0] && valid[1]:
		if delivered {
			n("both_valid_delivered")
		} else {
			n("both_valid_refused")
		}
	case valid[0] || valid[1]:
		if delivered {
			n("mixed_valid_entry_delivered")
		} else {
			n("mixed_refused")
		}
		if p.Sigs[0] == p.Sigs[1] {
			n("mixed_both_entries_carry_the_same_signature")
		}
	default:
		kind := "both_invalid"
		if p.SumEqual {
			kind = "cancelling" // invalid entry by entry, the sum of the two signatures is the sum of the two valid ones
		}
		if delivered {
			n(kind + "_accepted")
		} else {
			n(kind + "_rejected")
		}
	}
}

// ===================================== C10 PAIR COMMON END =====================================

// pairItems builds the two unsigned entries (validator 0, validator 1) of a pair.
func (h *c10vapi) pairItems(e c10endpoint, variant string) (items [2]any, err error) {
	ver := strings.TrimSuffix(e.Ver, "-blinded")
	for i := 0; i < 2; i++ {
		if items[i], err = h.cl.c10build(e.Kind, ver, h.cl.vals[i]); err != nil {
			return items, err
		}
	}
	if variant != "same-root" {
		return items, nil
	}
	switch a := items[0].(type) {
	case *eth2spec.VersionedAttestation: // both validators attest to the same data (same slot, same committee)
		sa, err := c10versioned(a, "")
		if err != nil {
			return items, err
		}
		sb, err := c10versioned(items[1], "")
		if err != nil {
			return items, err
		}
		sb.FieldByName("Data").Set(c10deep(sa.FieldByName("Data")))
	case *altair.SyncCommitteeMessage:
		items[1].(*altair.SyncCommitteeMessage).BeaconBlockRoot = a.BeaconBlockRoot
	}
	return items, nil
}

// runPair builds one pair request from scratch, submits it and judges it entry by entry.
// Case: Alt "pair-<v0's entry>-<v1's entry>", Field = variant, FAlt = list order.
func (h *c10vapi) runPair(r *enumx.Run, e c10endpoint, c c10case) *c10viol {
	cl := h.cl
	note := func(s string) {
		if r != nil {
			r.Note("harness could not build " + c.key() + ": " + s)
		}
	}
	alts, ok := c10pairParse(c.Alt)
	if !ok {
		note("bad alteration")
		return nil
	}
	items, err := h.pairItems(e, c.Field)
	if err != nil {
		note(err.Error())
		return nil
	}
	vs := [2]*c10val{cl.vals[0], cl.vals[1]}
	var sds [2]c10sd
	for i := range items {
		if sds[i], err = c10info(items[i]); err != nil {
			note(err.Error())
			return nil
		}
	}
	p, err := cl.c10pairSigs(c10Self, vs, sds, alts)
	if err != nil {
		note(err.Error())
		return nil
	}
	if p.SameRoot != (c.Field == "same-root") {
		note("the signing roots of the two entries are not as the variant says")
		return nil
	}
	var valid [2]bool
	for i := range items {
		f, err := c10sigField(items[i])
		if err != nil {
			note(err.Error())
			return nil
		}
		*f = p.Sigs[i]
		var who *c10val
		if valid[i], who = h.itemValid(items[i]); who != vs[i] {
			note("the harness does not identify the validator of its own entry")
			return nil
		}
		if valid[i] != (alts[i] == "valid") && !(p.SameRoot && false) {
			note(fmt.Sprintf("entry %d (%s) is judged valid=%v by the independent oracle", i, alts[i], valid[i]))
			return nil
		}
	}
	h.agreed, h.extraProp = nil, nil
	req := e.request(items[0], items[1])
	if c.FAlt == "v1-first" {
		req = e.request(items[1], items[0])
	}
	if r != nil {
		r.Eval(c.key())
	}
	err, calls, panicked := h.submit(e, req)
	h.lastErr = err
	if r != nil {
		r.Steps(1)
		if panicked {
			r.Count("vapi_handler_panics", 1)
			r.Note("a handler panicked on a pair request (counted as rejection): " + e.unit() + ": " + err.Error())
		}
		c10pairCount(r, "vapi", valid, p, len(calls) > 0)
	}
	if v := h.checkDelivered(e, calls); v != nil {
		return v
	}
	if e.NoSubs {
		if len(calls) > 0 {
			return &c10viol{"kind=forwarded-by-ignoring-endpoint", "an endpoint documented to ignore submissions called subscribers"}
		}
		return nil
	}
	for _, call := range calls { // per entry: the entry of validator i reached a subscriber although it does not verify
		for i, v := range vs {
			if _, ok := call.set[v.PK]; ok && !valid[i] {
				return &c10viol{"kind=invalid-admitted", fmt.Sprintf("subscriber %d received an entry for validator %s whose submitted signature (%s) does not verify for its own root, domain, epoch, validator and share", call.sub, v.Name, alts[i])}
			}
		}
	}
	switch {
	case !valid[0] && !valid[1]:
		if len(calls) > 0 {
			return &c10viol{"kind=invalid-admitted", fmt.Sprintf("a request whose two entries both fail verification reached %d subscriber call(s) (sum of the two signatures equals the valid sum: %v)", len(calls), p.SumEqual)}
		}
		if err == nil {
			return &c10viol{"kind=invalid-no-error", fmt.Sprintf("a request whose two entries both fail verification was answered without an error (sum of the two signatures equals the valid sum: %v)", p.SumEqual)}
		}
	case valid[0] && valid[1]:
		if err != nil {
			return &c10viol{"kind=valid-rejected", fmt.Sprintf("the request with two valid entries was rejected: %v", err)}
		}
		if len(calls) != 2 {
			return &c10viol{"kind=valid-not-delivered", fmt.Sprintf("the request with two valid entries produced %d subscriber calls, want one per subscriber", len(calls))}
		}
		for _, call := range calls {
			same := len(call.set) == 2 && call.duty.Type == e.Duty
			for i, v := range vs {
				ps, ok := call.set[v.PK]
				got, ierr := c10info(ps.SignedData)
				want := sds[i]
				want.Sig = p.Sigs[i]
				same = same && ok && ierr == nil && ps.ShareIdx == c10Self && got == want
			}
			if !same {
				return &c10viol{"kind=valid-delivered-differently", fmt.Sprintf("subscriber %d got duty %v set %v; want exactly the two submitted partial signatures, share %d", call.sub, call.duty, call.set, c10Self)}
			}
		}
	}
	return nil
}

func (h *c10vapi) evalPair(r *enumx.Run, e c10endpoint, c c10case) {
	c.Path, c.Unit = "vapi-pair", e.unit()
	sig := func(v *c10viol) *c10viol {
		if v != nil {
			v.sig = c10signature(c10case{Path: c.Path, Unit: c.Unit, Alt: "pair"}, v.sig)
			v.desc = fmt.Sprintf("pair request %s (%s, %s): %s", c.Alt, c.Field, c.FAlt, v.desc)
		}
		return v
	}
	if v := sig(h.runPair(r, e, c)); v != nil {
		c10report(r, c, v, func() *c10viol { return sig(h.runPair(nil, e, c)) })
	}
}

// c10vapiPairs: every list endpoint x variant x list order x alphabet^2.
func c10vapiPairs(r *enumx.Run, h *c10vapi) {
	if err := h.cl.c10pairSelfTest(c10Self); err != nil {
		r.NotExhaustive("harness: pair dimension skipped, the signature arithmetic of the harness is off: " + err.Error())
		return
	}
	n := 0
	for _, e := range c10endpoints(enumx.Thorough()) {
		if !e.List {
			continue
		}
		for _, variant := range c10pairVariants(e.Kind) {
			for _, order := range []string{"v0-first", "v1-first"} {
				n++
				if !r.Mine() {
					continue
				}
				if r.Expired() {
					return
				}
				for _, a := range c10pairAlts {
					for _, b := range c10pairAlts {
						h.evalPair(r, e, c10case{Alt: "pair-" + a + "-" + b, Field: variant, FAlt: order})
					}
				}
				if n == 1 {
					r.Sample(map[string]any{"path": "vapi-pair", "unit": e.unit(), "variant": variant, "order": order, "alphabet": c10pairAlts})
				}
			}
		}
	}
	r.Note(fmt.Sprintf("vapi pairs: %d (endpoint unit, variant, list order) combinations x %d x %d signatures", n, len(c10pairAlts), len(c10pairAlts)))
}

func c10vapiPairReplay(r *enumx.Run, h *c10vapi, c c10case) {
	for _, e := range c10endpoints(true) {
		if e.unit() == c.Unit && e.List {
			h.evalPair(r, e, c)
		}
	}
}
