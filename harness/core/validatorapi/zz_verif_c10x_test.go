package validatorapi

// C10, validator-client path – dimensions on top of the single-call enumeration of zz_verif_c10_test.go:
//
//  1. HISTORY: operation sequences on ONE long-lived Component instance: every ordered pair (thorough: also triples over
//     a reduced alphabet) of submissions from an explicit alphabet, plus, after every valid submission A, the replays
//     that share bytes with A: A's signature - and wherever the types allow A's message root - submitted to every other
//     endpoint (hash_tree_root(Slot(n)) == hash_tree_root(Epoch(n)): selection proof <-> randao reveal; a sync committee
//     message signs nothing but a 32-byte root), A's object and signature for the other validator where the root does not
//     bind the validator, at another epoch/fork where the root does not bind the epoch, and A itself again. Per call:
//     the single-call oracle. Differential: verdict after a prefix == verdict of the same request on a fresh instance.
//  2. ENVIRONMENT FAULTS: the Component's beacon client is the fault-scripting wrapper c10fc; invocation counts are
//     discovered by a counting run, then every single fault point (thorough: every pair) x kind is enumerated.

import (
	"context"
	"fmt"
	"reflect"
	"sort"
	"strings"

	"github.com/OffchainLabs/go-bitfield"
	eth2api "github.com/attestantio/go-eth2-client/api"
	eth2v1 "github.com/attestantio/go-eth2-client/api/v1"
	eth2spec "github.com/attestantio/go-eth2-client/spec"
	"github.com/attestantio/go-eth2-client/spec/altair"
	eth2p0 "github.com/attestantio/go-eth2-client/spec/phase0"

	"github.com/obolnetwork/charon/zzverif/enumx"
)

// c10vop is one submission of a sequence. Base operations ("<endpoint unit>|<alt>") are built once per process and
// re-submitted as deep copies; replay operations ("replay|<endpoint unit>|<mode>") are derived from the most recent
// valid single-item submission earlier in the same sequence.
type c10vop struct {
	Desc   string
	E      c10endpoint
	Req    any
	Agreed map[uint64]*eth2api.VersionedProposal // what the cluster agreed on (dutydb), part of the environment
	Extra  map[uint64]*c10val                    // additional proposer duties, part of the environment
	Mode   string                                // baseline | reject | auto | observe
	Want   *c10val
	Valid  bool // every item verifies for its own root, domain, epoch, validator and this node's share
	fresh  *string
}

func (o *c10vop) alt() string {
	p := strings.Split(o.Desc, "|")
	if p[0] == "replay" {
		return "replay-" + p[2]
	}
	return p[1]
}

type c10vseq struct {
	ctx   context.Context
	b     *c10vapi // builder: its component never receives a submission of the added dimensions
	units map[string]c10endpoint
	ops   map[string]*c10vop
}

func c10newVseq(ctx context.Context, b *c10vapi) *c10vseq {
	s := &c10vseq{ctx: ctx, b: b, units: map[string]c10endpoint{}, ops: map[string]*c10vop{}}
	for _, e := range c10endpoints(true) {
		s.units[e.unit()] = e
	}
	return s
}

func (s *c10vseq) finish(op *c10vop) *c10vop {
	s.b.extraProp = op.Extra
	items := op.E.items(op.Req)
	op.Valid = len(items) > 0
	for _, it := range items {
		ok, _ := s.b.itemValid(it)
		op.Valid = op.Valid && ok
	}
	s.b.extraProp = nil
	if op.Mode == "baseline" && (c10optional(op.E.Kind, op.E.Ver) || !op.Valid) {
		op.Mode = "auto"
	}
	return op
}

func (s *c10vseq) base(desc string) (*c10vop, error) {
	if op, ok := s.ops[desc]; ok {
		if op == nil {
			return nil, fmt.Errorf("skip")
		}
		return op, nil
	}
	p := strings.Split(desc, "|")
	e, ok := s.units[p[0]]
	if len(p) != 2 || !ok {
		return nil, fmt.Errorf("bad operation %q", desc)
	}
	req, mode, want, err := s.b.buildCase(e, c10case{Alt: p[1]})
	if err != nil {
		s.ops[desc] = nil
		return nil, err
	}
	op := s.finish(&c10vop{Desc: desc, E: e, Req: req, Agreed: s.b.agreed, Mode: mode, Want: want})
	s.ops[desc] = op
	return op, nil
}

// single returns the only item of a valid single-item submission that forwards to subscribers.
func (o *c10vop) single() (any, bool) {
	items := o.E.items(o.Req)
	if !o.Valid || len(items) != 1 || o.E.NoSubs {
		return nil, false
	}
	return items[0], true
}

func c10u64of(root [32]byte) (uint64, bool) {
	for _, b := range root[8:] {
		if b != 0 {
			return 0, false
		}
	}
	var x uint64
	for i := 7; i >= 0; i-- {
		x = x<<8 | uint64(root[i])
	}
	return x, true
}

// replay derives from the valid submission a a submission to endpoint y ("replay|<y>|<mode>") that shares bytes with a.
// It is judged like any other submission: by re-verification under its OWN root, domain, epoch and validator.
func (s *c10vseq) replay(a *c10vop, desc string) (*c10vop, error) {
	p := strings.Split(desc, "|")
	if len(p) != 3 {
		return nil, fmt.Errorf("bad operation %q", desc)
	}
	y, ok := s.units[p[1]]
	itA, ok2 := a.single()
	if !ok || !ok2 {
		return nil, fmt.Errorf("skip")
	}
	sdA, err := c10info(itA)
	if err != nil {
		return nil, fmt.Errorf("skip")
	}
	cl := s.b.cl
	s.b.extraProp = a.Extra
	vA := s.b.resolve(itA)
	s.b.extraProp = nil
	if vA == nil {
		return nil, fmt.Errorf("skip")
	}
	other := cl.vals[1]
	if vA == other {
		other = cl.vals[0]
	}
	op := &c10vop{Desc: desc, E: y, Mode: "auto", Want: vA, Agreed: map[uint64]*eth2api.VersionedProposal{}}
	agreedProposal := func(slots ...uint64) error { // Proposal() answers with the agreed proposal after admitting the reveal
		pr, err := cl.c10build(c10Prop, "capella", vA)
		if err != nil {
			return err
		}
		if err := s.b.agree(pr); err != nil {
			return err
		}
		for _, ag := range s.b.agreed {
			for _, sl := range slots {
				op.Agreed[sl] = ag
			}
		}
		return nil
	}
	switch mode := p[2]; {
	case mode == "xdom": // y's own object for the same validator; A's signature; A's message root wherever y's type allows
		it, err := cl.c10build(y.Kind, strings.TrimSuffix(y.Ver, "-blinded"), vA)
		if err != nil {
			return nil, err
		}
		n, isU64 := c10u64of(sdA.Root)
		switch o := it.(type) {
		case *altair.SyncCommitteeMessage: // signs nothing but the block root
			o.BeaconBlockRoot = sdA.Root
		case *eth2api.ProposalOpts: // randao: hash_tree_root(Epoch(n)) == hash_tree_root(Slot(n))
			if isU64 && n < 1<<59 && n != uint64(o.Slot)/c10SPE {
				o.Slot = eth2p0.Slot(n * c10SPE)
				op.Extra = map[uint64]*c10val{n * c10SPE: vA}
			}
			if err := agreedProposal(uint64(o.Slot)); err != nil {
				return nil, err
			}
		case *eth2v1.BeaconCommitteeSelection:
			if isU64 {
				o.Slot = eth2p0.Slot(n)
			}
		case *eth2api.VersionedSignedProposal, *eth2api.VersionedSignedBlindedProposal:
			if err := s.b.agree(it); err != nil {
				return nil, err
			}
			op.Agreed = s.b.agreed
		}
		f, err := c10sigField(it)
		if err != nil {
			return nil, err
		}
		*f = sdA.Sig
		op.Req = y.request(it)
	case mode == "exact":
		op.Req, op.Agreed, op.Extra, op.Mode = c10clone(a.Req), a.Agreed, a.Extra, a.Mode
	case mode == "other-validator": // A's object and signature, identifying the other validator (root does not bind it)
		req := c10clone(a.Req)
		it := y.items(req)[0]
		switch o := it.(type) {
		case *eth2spec.VersionedAttestation:
			st, err := c10versioned(o, "")
			if err != nil {
				return nil, fmt.Errorf("skip")
			}
			ab := bitfield.NewBitlist(c10CommLen)
			ab.SetBitAt(other.ValCommIdx, true)
			st.FieldByName("AggregationBits").Set(reflect.ValueOf(ab))
			if o.ValidatorIndex != nil {
				idx := other.Idx
				o.ValidatorIndex = &idx
			}
		case *altair.SyncCommitteeMessage:
			o.ValidatorIndex = other.Idx
		case *eth2v1.BeaconCommitteeSelection:
			o.ValidatorIndex = other.Idx
		case *eth2v1.SyncCommitteeSelection:
			o.ValidatorIndex = other.Idx
		case *eth2api.ProposalOpts: // the other validator proposes in another slot of the same epoch
			o.Slot = other.PropSlot
		default:
			return nil, fmt.Errorf("skip") // the root binds the validator: covered by the field walker
		}
		op.Req, op.Agreed, op.Want = req, a.Agreed, other
	case strings.HasPrefix(mode, "epoch-"): // same root and signature at another epoch (root does not bind the epoch)
		req := c10clone(a.Req)
		o, ok := y.items(req)[0].(*altair.SyncCommitteeMessage)
		if !ok {
			return nil, fmt.Errorf("skip")
		}
		switch strings.TrimPrefix(mode, "epoch-") {
		case "previous-fork":
			o.Slot = 2047*c10SPE + 3
		case "next-fork":
			o.Slot = 50688*c10SPE + 3
		case "same-fork":
			o.Slot = c10Slot + 1
		default:
			return nil, fmt.Errorf("bad operation %q", desc)
		}
		op.Req = req
	default:
		return nil, fmt.Errorf("bad operation %q", desc)
	}
	return s.finish(op), nil
}

func (s *c10vseq) replayDescs(x c10endpoint, units []c10endpoint) []string {
	var out []string
	for _, y := range units {
		if !y.NoSubs {
			out = append(out, "replay|"+y.unit()+"|xdom")
		}
	}
	xu := x.unit()
	out = append(out, "replay|"+xu+"|exact")
	switch x.Kind {
	case c10Att, c10SyncMsg, c10BCSel, c10SyncSel, c10Randao:
		out = append(out, "replay|"+xu+"|other-validator")
	}
	if x.Kind == c10SyncMsg {
		out = append(out, "replay|"+xu+"|epoch-previous-fork", "replay|"+xu+"|epoch-next-fork", "replay|"+xu+"|epoch-same-fork")
	}
	return out
}

// c10vverdict is the canonical observable outcome of one call.
func c10vverdict(err error, calls []c10call) string {
	var parts []string
	for _, c := range calls {
		var ents []string
		for pk, ps := range c.set {
			sd, e := c10info(ps.SignedData)
			ents = append(ents, fmt.Sprintf("%s/%d/%s/%x/%d/%x/%v", pk, ps.ShareIdx, sd.Kind, sd.Root, sd.Epoch, sd.Sig, e == nil))
		}
		sort.Strings(ents)
		parts = append(parts, fmt.Sprintf("sub%d %v {%s}", c.sub, c.duty, strings.Join(ents, ",")))
	}
	return fmt.Sprintf("rejected=%v delivered=[%s]", err != nil, strings.Join(parts, "; "))
}

// call submits a deep copy of op's request to inst under op's environment and judges it.
func (s *c10vseq) call(r *enumx.Run, inst *c10vapi, op *c10vop, mode string) *c10viol {
	inst.agreed, inst.extraProp = op.Agreed, op.Extra
	return inst.judge(r, op.E, c10clone(op.Req), mode, op.Want)
}

func (s *c10vseq) freshVerdict(op *c10vop) (string, error) {
	if op.fresh != nil {
		return *op.fresh, nil
	}
	inst, err := c10newVapi(s.ctx)
	if err != nil {
		return "", err
	}
	s.call(nil, inst, op, "observe")
	v := c10vverdict(inst.lastErr, inst.calls)
	op.fresh = &v
	return v, nil
}

func (s *c10vseq) runSeq(r *enumx.Run, descs []string) (v *c10viol, at int, bad *c10vop, skipped bool) {
	inst, err := c10newVapi(s.ctx)
	if err != nil {
		return nil, 0, nil, true
	}
	var ops []*c10vop
	var lastValid *c10vop
	for _, d := range descs {
		var op *c10vop
		if strings.HasPrefix(d, "replay|") {
			if lastValid == nil {
				return nil, 0, nil, true
			}
			op, err = s.replay(lastValid, d)
		} else {
			op, err = s.base(d)
		}
		if err != nil {
			if err.Error() != "skip" && r != nil {
				r.Note("harness could not build " + d + ": " + err.Error())
			}
			return nil, 0, nil, true
		}
		if _, ok := op.single(); ok && !strings.HasPrefix(d, "replay|") {
			lastValid = op
		}
		ops = append(ops, op)
	}
	for i, op := range ops {
		if v := s.call(r, inst, op, op.Mode); v != nil {
			return v, i, op, false
		}
		if r != nil && i > 0 && strings.HasPrefix(op.Desc, "replay|") {
			r.Count("vapi_seq_replays", 1)
			itA, _ := lastValid.single()
			a, _ := c10info(itA)
			if items := op.E.items(op.Req); len(items) == 1 {
				if b, e := c10info(items[0]); e == nil && b.Root == a.Root && b.Sig == a.Sig {
					r.Count("vapi_seq_replays_same_root_and_signature", 1)
					if !op.Valid {
						r.Count("vapi_seq_replays_same_root_and_signature_invalid", 1)
					}
				}
			}
			if len(inst.calls) > 0 {
				r.Count("vapi_seq_replays_admitted_valid", 1)
			}
		}
		if i == 0 {
			continue
		}
		got := c10vverdict(inst.lastErr, inst.calls)
		want, err := s.freshVerdict(op)
		if err != nil {
			return nil, 0, nil, true
		}
		if got != want {
			return &c10viol{"kind=history-dependent-verdict", fmt.Sprintf("after the prefix %v the submission %s was answered %s, on a fresh instance the same request is answered %s", descs[:i], op.Desc, got, want)}, i, op, false
		}
	}
	return nil, 0, nil, false
}

// c10sigX is c10signature with the alteration family prefixed by the dimension.
func c10sigX(c c10case, dim, kind string) string {
	return strings.Replace(c10signature(c, kind), " alt=", " alt="+dim+"-", 1)
}

func (s *c10vseq) evalSeq(r *enumx.Run, descs []string) {
	c := c10case{Path: "vapi-seq", Seq: descs}
	run := func(r *enumx.Run) (*c10viol, bool) {
		v, at, op, skipped := s.runSeq(r, descs)
		if v != nil {
			cc := c
			cc.Unit, cc.Alt, cc.Seq = op.E.unit(), op.alt(), nil
			v.sig = c10sigX(cc, "seq", v.sig)
			v.desc = fmt.Sprintf("sequence %v, call %d (%s): %s", descs, at, op.Desc, v.desc)
		}
		return v, skipped
	}
	v, skipped := run(r)
	if skipped {
		return
	}
	r.Eval("vapi-seq:" + strings.Join(descs, " > "))
	r.Count(fmt.Sprintf("vapi_seq_len%d", len(descs)), 1)
	if v != nil {
		c10report(r, c, v, func() *c10viol { v, _ := run(nil); return v })
	}
}

// ---- alphabets ----------------------------------------------------------------------------------------------

// c10vseqUnits: one version per endpoint (attestations additionally pre-electra); all: every endpoint unit of the
// single-call enumeration.
func c10vseqUnits(all bool) []c10endpoint {
	if all {
		return c10endpoints(true)
	}
	var out []c10endpoint
	for _, e := range c10endpoints(true) {
		switch {
		case e.Ver == "" || e.Ver == "fulu" || e.Ver == "fulu-blinded" || e.Ver == "randao", e.Kind == c10Att && e.Ver == "deneb":
			out = append(out, e)
		}
	}
	return out
}

// c10vseqAlts is the alphabet of one endpoint: the valid submissions and (size 0) the core families of targeted invalid
// submissions of the single-call enumeration, (size 1) every targeted submission, (size -1) only valid, other share,
// previous fork, zero signature.
func c10vseqAlts(e c10endpoint, own string, size int) []string {
	otherDom := c10domNames[0]
	if otherDom == own {
		otherDom = c10domNames[1]
	}
	keep := map[string]bool{"baseline": true, "baseline-v1": true, "other-share-1": true, "other-validator-same-share": true,
		"wrong-domain-" + otherDom: true, "wrong-fork-previous": true, "wrong-fork-genesis": true, "other-message": true, "zero-signature": true,
		"outsider-validator": true, "agreed-differs": true}
	if size < 0 {
		keep = map[string]bool{"baseline": true, "other-share-1": true, "wrong-fork-previous": true, "zero-signature": true}
	}
	var out []string
	for _, alt := range c10vapiTargeted(e) {
		if alt == "wrong-domain-"+own {
			continue
		}
		if size >= 1 || keep[alt] {
			out = append(out, alt)
		}
	}
	return out
}

func (s *c10vseq) ownDomain(e c10endpoint) string {
	if it, err := s.b.cl.c10build(e.Kind, strings.TrimSuffix(e.Ver, "-blinded"), s.b.cl.vals[0]); err == nil {
		sd, _ := c10info(it)
		return sd.Kind
	}
	return ""
}

func (s *c10vseq) tripleAlphabet() (units []c10endpoint, ops []string) {
	for _, name := range []string{"SubmitAttestations/fulu", "Proposal/randao", "BeaconCommitteeSelections", "SubmitSyncCommitteeMessages",
		"SubmitVoluntaryExit", "SyncCommitteeSelections"} {
		e := s.units[name]
		units = append(units, e)
		for _, alt := range []string{"baseline", "other-share-1", "zero-signature"} {
			ops = append(ops, e.unit()+"|"+alt)
		}
	}
	return units, ops
}

// ---- dimension 1: sequences ---------------------------------------------------------------------------------

func c10vapiSequences(r *enumx.Run, s *c10vseq) {
	thorough := enumx.Thorough()
	units := c10vseqUnits(false)
	var ops []string
	for _, e := range c10vseqUnits(thorough) {
		size, main := 0, false
		for _, q := range units {
			main = main || q.unit() == e.unit()
		}
		if thorough {
			size = -1 // thorough: every targeted submission of the main units, four operations for every other version
			if main {
				size = 1
			}
		}
		for _, alt := range c10vseqAlts(e, s.ownDomain(e), size) {
			ops = append(ops, e.unit()+"|"+alt)
		}
	}
	units = c10vseqUnits(thorough)
	nrep := 0
	for _, e := range units {
		if !e.NoSubs {
			nrep += len(s.replayDescs(e, units))
		}
	}
	r.Note(fmt.Sprintf("vapi sequences: alphabet of %d operations over %d endpoint units: %d ordered pairs, plus %d replay operations after the valid submission of each unit", len(ops), len(units), len(ops)*len(ops), nrep))
	for i, a := range ops {
		if !r.Mine() {
			continue
		}
		if r.Expired() {
			return
		}
		for _, b := range ops {
			s.evalSeq(r, []string{a, b})
		}
		if opA, err := s.base(a); err == nil {
			if _, ok := opA.single(); ok {
				for _, rp := range s.replayDescs(opA.E, units) {
					s.evalSeq(r, []string{a, rp})
				}
			}
		}
		if i == 0 {
			r.Sample(map[string]any{"path": "vapi-seq", "alphabet": len(ops), "units": len(units), "example": []string{a, ops[len(ops)-1]}})
		}
	}
	if !thorough {
		return
	}
	tu, tops := s.tripleAlphabet()
	for _, a := range tops {
		if !r.Mine() {
			continue
		}
		if r.Expired() {
			return
		}
		opA, err := s.base(a)
		if err != nil {
			continue
		}
		_, validA := opA.single()
		for _, b := range tops {
			for _, c := range tops {
				s.evalSeq(r, []string{a, b, c})
			}
			opB, err := s.base(b)
			if err != nil {
				continue
			}
			// replays of the most recent valid submission: of b if b is valid, else of a (with b in between)
			if _, validB := opB.single(); validB {
				for _, rp := range s.replayDescs(opB.E, tu) {
					s.evalSeq(r, []string{a, b, rp})
				}
			} else if validA {
				for _, rp := range s.replayDescs(opA.E, tu) {
					s.evalSeq(r, []string{a, b, rp})
				}
			}
		}
	}
}

// ---- dimension 2: beacon node faults ------------------------------------------------------------------------

// runFault submits op to a new instance whose beacon client is fc under script. Rule under a fault: whatever fails the
// independent verification must still be rejected with an error and without any subscriber call; a valid submission
// may be forwarded (re-verified) or refused.
func (s *c10vseq) runFault(r *enumx.Run, fc *c10fc, op *c10vop, script []c10fault) (*c10viol, *c10vapi) {
	fc.arm(script)
	inst, err := c10newVapiOn(s.ctx, fc)
	if err != nil {
		return nil, nil
	}
	fc.arm(script) // building the instance is not part of the call
	mode := op.Mode
	if mode == "baseline" && len(script) > 0 {
		mode = "auto"
	}
	return s.call(r, inst, op, mode), inst
}

func (s *c10vseq) evalFault(r *enumx.Run, fc *c10fc, op *c10vop, c c10case) {
	sig := func(v *c10viol) *c10viol {
		if v != nil {
			v.sig = c10sigX(c, "fault", v.sig)
			v.desc = fmt.Sprintf("beacon node fault script %v (invocations %v): %s", c.Faults, fc.trace, v.desc)
		}
		return v
	}
	r.Eval(c.key())
	v, inst := s.runFault(r, fc, op, c.Faults)
	if inst == nil {
		return
	}
	r.Count("vapi_fault_runs", 1)
	if fc.fired > 0 {
		r.Count("vapi_fault_runs_fault_fired", 1)
		r.Count("vapi_fault_points_fired", fc.fired)
		switch {
		case len(inst.calls) > 0:
			r.Count("vapi_fault_fired_still_delivered", 1)
		case op.Valid:
			r.Count("vapi_fault_fired_valid_refused", 1)
		default:
			r.Count("vapi_fault_fired_invalid_refused", 1)
		}
	}
	if v := sig(v); v != nil {
		c10report(r, c, v, func() *c10viol { v, _ := s.runFault(nil, fc, op, c.Faults); return sig(v) })
	}
}

func c10vapiFaults(r *enumx.Run, s *c10vseq) {
	thorough := enumx.Thorough()
	fc := &c10fc{Client: s.b.cl.bmock}
	for _, e := range c10vseqUnits(thorough) {
		if !r.Mine() {
			continue
		}
		if r.Expired() {
			return
		}
		size := 0
		if thorough {
			size = 1
		}
		for _, alt := range c10vseqAlts(e, s.ownDomain(e), size) {
			op, err := s.base(e.unit() + "|" + alt)
			if err != nil {
				continue
			}
			c := c10case{Path: "vapi-fault", Unit: e.unit(), Alt: alt}
			s.runFault(nil, fc, op, nil) // counting run
			trace := append([]string(nil), fc.trace...)
			r.Count("vapi_fault_invocations_counted", len(trace))
			for _, script := range c10faultScripts(trace, thorough) {
				cc := c
				cc.Faults = script
				s.evalFault(r, fc, op, cc)
			}
		}
	}
}

// ---- entry points -------------------------------------------------------------------------------------------

func c10vapiExtra(ctx context.Context, r *enumx.Run, h *c10vapi) {
	s := c10newVseq(ctx, h)
	c10vapiPairs(r, h) // two entries of one request that are invalid together (zz_verif_c10p_test.go)
	c10vapiSequences(r, s)
	c10vapiFaults(r, s)
}

// c10vapiReplayExtra re-runs a replay file of one of the added dimensions; it reports whether the file was one.
func c10vapiReplayExtra(ctx context.Context, r *enumx.Run, h *c10vapi, c c10case) bool {
	s := c10newVseq(ctx, h)
	switch c.Path {
	case "vapi-seq":
		s.evalSeq(r, c.Seq)
	case "vapi-fault":
		if op, err := s.base(c.Unit + "|" + c.Alt); err == nil {
			s.evalFault(r, &c10fc{Client: h.cl.bmock}, op, c)
		}
	case "vapi-pair":
		c10vapiPairReplay(r, h, c)
	default:
		return false
	}
	return true
}
