package priority

// C14 (priority protocol, systematic part): every optional / nested field of a PriorityMsg and of a PriorityResult
// absent, one at a time and in every combination of two, signed afresh by the sending peer or carrying the signature
// of the complete message, in memory and after a wire round trip.
//
//	PriorityMsg:    protonil.Check -> the real request handler registered by newInternal (peer id check, message
//	                verifier, gater, deadliner, request buffer) -> the buffered request -> calculateResult with the own
//	                message -> hashProto -> the decided-result path below
//	PriorityResult: (as a consensus value: anypb -> wire -> UnmarshalNew; no protonil check applies to the inside of an
//	                Any) -> the callback newInternal registers with consensus -> Prioritiser subscribers ->
//	                Component.Subscribe's conversion (topicResultFromProto) -> the application callback
//
// Oracle: an error or a value that everything handles; no panic.

import (
	"context"
	"fmt"
	"testing"
	"time"

	k1 "github.com/decred/dcrd/dcrec/secp256k1/v4"
	"github.com/libp2p/go-libp2p/core/host"
	"github.com/libp2p/go-libp2p/core/peer"
	"github.com/libp2p/go-libp2p/core/protocol"
	"google.golang.org/protobuf/proto"
	"google.golang.org/protobuf/types/known/anypb"
	"google.golang.org/protobuf/types/known/structpb"

	"github.com/obolnetwork/charon/app/protonil"
	"github.com/obolnetwork/charon/core"
	pbv1 "github.com/obolnetwork/charon/core/corepb/v1"
	"github.com/obolnetwork/charon/p2p"
	"github.com/obolnetwork/charon/zzverif/enumx"
)

type c14pnCase struct {
	Part   string   `json:"part"` // "nil-combo-msg" | "nil-combo-result"
	Fields []string `json:"absent_fields"`
	Sign   string   `json:"signatures,omitempty"` // fresh | stale
	Wire   bool     `json:"over_wire"`
}

type c14pnCons struct {
	fn func(context.Context, core.Duty, *pbv1.PriorityResult) error
}

func (c *c14pnCons) ProposePriority(context.Context, core.Duty, *pbv1.PriorityResult) error {
	return nil
}
func (c *c14pnCons) SubscribePriority(fn func(context.Context, core.Duty, *pbv1.PriorityResult) error) {
	c.fn = fn
}

type c14pnDeadliner struct{ ch chan core.Duty }

func (d c14pnDeadliner) Add(core.Duty) core.DeadlineStatus { return core.DeadlineScheduled }
func (d c14pnDeadliner) C() <-chan core.Duty               { return d.ch }

type c14pnMsgField struct {
	name    string
	postSig bool
	apply   func(m *pbv1.PriorityMsg)
}

type c14pnResField struct {
	name  string
	apply func(m *pbv1.PriorityResult)
}

func c14pnMsgFields() []c14pnMsgField {
	topic := func(i int, f func(t *pbv1.PriorityTopicProposal)) func(m *pbv1.PriorityMsg) {
		return func(m *pbv1.PriorityMsg) {
			if i < len(m.GetTopics()) && m.Topics[i] != nil {
				f(m.Topics[i])
			}
		}
	}
	return []c14pnMsgField{
		{"duty", false, func(m *pbv1.PriorityMsg) { m.Duty = nil }},
		{"topics", false, func(m *pbv1.PriorityMsg) { m.Topics = nil }},
		{"topics[0]", false, func(m *pbv1.PriorityMsg) {
			if len(m.Topics) > 0 {
				m.Topics[0] = nil
			}
		}},
		{"topics[1]", false, func(m *pbv1.PriorityMsg) {
			if len(m.Topics) > 1 {
				m.Topics[1] = nil
			}
		}},
		{"topics[0].topic", false, topic(0, func(t *pbv1.PriorityTopicProposal) { t.Topic = nil })},
		{"topics[0].priorities", false, topic(0, func(t *pbv1.PriorityTopicProposal) { t.Priorities = nil })},
		{"topics[0].priorities[0]", false, topic(0, func(t *pbv1.PriorityTopicProposal) {
			if len(t.Priorities) > 0 {
				t.Priorities[0] = nil
			}
		})},
		{"topics[1].priorities[1]", false, topic(1, func(t *pbv1.PriorityTopicProposal) {
			if len(t.Priorities) > 1 {
				t.Priorities[1] = nil
			}
		})},
		{"topics[0].topic.type_url", false, topic(0, func(t *pbv1.PriorityTopicProposal) {
			if t.Topic != nil {
				t.Topic.TypeUrl = ""
			}
		})},
		{"topics[0].topic.value", false, topic(0, func(t *pbv1.PriorityTopicProposal) {
			if t.Topic != nil {
				t.Topic.Value = nil
			}
		})},
		{"topics[1].priorities[0].value", false, topic(1, func(t *pbv1.PriorityTopicProposal) {
			if len(t.Priorities) > 0 && t.Priorities[0] != nil {
				t.Priorities[0].Value = nil
			}
		})},
		{"peer_id", false, func(m *pbv1.PriorityMsg) { m.PeerId = "" }},
		{"signature", true, func(m *pbv1.PriorityMsg) { m.Signature = nil }},
	}
}

func c14pnResFields() []c14pnResField {
	topic := func(i int, f func(t *pbv1.PriorityTopicResult)) func(m *pbv1.PriorityResult) {
		return func(m *pbv1.PriorityResult) {
			if i < len(m.GetTopics()) && m.Topics[i] != nil {
				f(m.Topics[i])
			}
		}
	}
	return []c14pnResField{
		{"msgs", func(m *pbv1.PriorityResult) { m.Msgs = nil }},
		{"msgs[0]", func(m *pbv1.PriorityResult) {
			if len(m.Msgs) > 0 {
				m.Msgs[0] = nil
			}
		}},
		{"msgs[0].duty", func(m *pbv1.PriorityResult) {
			if len(m.Msgs) > 0 && m.Msgs[0] != nil {
				m.Msgs[0].Duty = nil
			}
		}},
		{"msgs[1].topics[0]", func(m *pbv1.PriorityResult) {
			if len(m.Msgs) > 1 && m.Msgs[1] != nil && len(m.Msgs[1].Topics) > 0 {
				m.Msgs[1].Topics[0] = nil
			}
		}},
		{"topics", func(m *pbv1.PriorityResult) { m.Topics = nil }},
		{"topics[0]", func(m *pbv1.PriorityResult) {
			if len(m.Topics) > 0 {
				m.Topics[0] = nil
			}
		}},
		{"topics[0].topic", topic(0, func(t *pbv1.PriorityTopicResult) { t.Topic = nil })},
		{"topics[1].topic.value", topic(1, func(t *pbv1.PriorityTopicResult) {
			if t.Topic != nil {
				t.Topic.Value = nil
			}
		})},
		{"topics[0].priorities", topic(0, func(t *pbv1.PriorityTopicResult) { t.Priorities = nil })},
		{"topics[0].priorities[0]", topic(0, func(t *pbv1.PriorityTopicResult) {
			if len(t.Priorities) > 0 {
				t.Priorities[0] = nil
			}
		})},
		{"topics[0].priorities[0].priority", topic(0, func(t *pbv1.PriorityTopicResult) {
			if len(t.Priorities) > 0 && t.Priorities[0] != nil {
				t.Priorities[0].Priority = nil
			}
		})},
		{"topics[1].priorities[0].priority.type_url", topic(1, func(t *pbv1.PriorityTopicResult) {
			if len(t.Priorities) > 0 && t.Priorities[0] != nil && t.Priorities[0].Priority != nil {
				t.Priorities[0].Priority.TypeUrl = ""
			}
		})},
	}
}

func c14pnCombos(names []string) [][]string {
	combos := [][]string{nil}
	for i := range names {
		combos = append(combos, []string{names[i]})
	}
	for i := range names {
		for j := i + 1; j < len(names); j++ {
			combos = append(combos, []string{names[i], names[j]})
		}
	}
	return combos
}

func c14pNilCombos(t *testing.T, r *enumx.Run, key0, key1 *k1.PrivateKey, id0, id1 peer.ID) {
	verifier, err := newMsgVerifier([]peer.ID{id0, id1})
	if err != nil {
		t.Fatal(err)
	}
	cons := &c14pnCons{}
	var handler p2p.HandlerFunc
	reg := func(_ string, _ host.Host, _ protocol.ID, _ func() proto.Message, h p2p.HandlerFunc, _ ...p2p.SendRecvOption) {
		handler = h
	}
	p := newInternal(nil, []peer.ID{id0, id1}, 1, nil, reg, cons, verifier, time.Second,
		c14pnDeadliner{ch: make(chan core.Duty)}, func(core.Duty) bool { return true })
	comp := &Component{peerID: id0, prioritiser: p, privkey: key0}
	delivered := 0
	comp.Subscribe(func(_ context.Context, _ core.Duty, res []TopicResult) error {
		for _, tr := range res {
			_ = tr.PrioritiesOnly()
		}
		delivered++
		return nil
	})
	if handler == nil || cons.fn == nil {
		r.NotExhaustive("harness: priority handler / consensus callback not registered")
		return
	}

	str := func(s string) *anypb.Any {
		a, err := anypb.New(structpb.NewStringValue(s))
		if err != nil {
			t.Fatal(err)
		}
		return a
	}
	duty := &pbv1.Duty{Slot: 7, Type: 13}
	topics := func() []*pbv1.PriorityTopicProposal {
		return []*pbv1.PriorityTopicProposal{
			{Topic: str("versions"), Priorities: []*anypb.Any{str("v1.1"), str("v1.0")}},
			{Topic: str("protocols"), Priorities: []*anypb.Any{str("a"), str("b")}},
		}
	}
	own, err := signMsg(&pbv1.PriorityMsg{Duty: duty, Topics: topics(), PeerId: id0.String()}, key0)
	if err != nil {
		t.Fatal(err)
	}
	baseMsg := &pbv1.PriorityMsg{Duty: duty, Topics: topics(), PeerId: id1.String()}
	signedMsg, err := signMsg(baseMsg, key1)
	if err != nil {
		t.Fatal(err)
	}
	baseRes, err := calculateResult([]*pbv1.PriorityMsg{own, signedMsg}, 1)
	if err != nil || len(baseRes.GetTopics()) != 2 {
		t.Fatalf("base result: %v", err)
	}

	msgFields := map[string]c14pnMsgField{}
	var msgNames []string
	for _, f := range c14pnMsgFields() {
		msgFields[f.name] = f
		msgNames = append(msgNames, f.name)
	}
	resFields := map[string]c14pnResField{}
	var resNames []string
	for _, f := range c14pnResFields() {
		resFields[f.name] = f
		resNames = append(resNames, f.name)
	}

	// decided: what a node does with a decided priority result
	decided := func(res *pbv1.PriorityResult) {
		_, _ = hashProto(res)
		if cl, ok := proto.Clone(res).(*pbv1.PriorityResult); ok { // consensus clones the result for each subscriber
			_ = cons.fn(context.Background(), core.DutyFromProto(duty), cl)
		}
	}

	runMsg := func(c c14pnCase) (panicked, stage, verdict string) {
		m := proto.Clone(baseMsg).(*pbv1.PriorityMsg)
		if c.Sign == "stale" {
			m = proto.Clone(signedMsg).(*pbv1.PriorityMsg)
		}
		for _, n := range c.Fields {
			if f := msgFields[n]; !f.postSig {
				f.apply(m)
			}
		}
		if c.Sign == "fresh" {
			if p := c14pGuard(func() {
				if s, err := signMsg(m, key1); err == nil {
					m = s
				}
			}); p != "" {
				return "", "sign", "not-signable" // the sender's own problem
			}
		}
		for _, n := range c.Fields {
			if f := msgFields[n]; f.postSig {
				f.apply(m)
			}
		}
		stage, verdict = "wire", "rejected"
		inner := "" // a panic inside the handler goroutine
		defer func() {
			if panicked == "" {
				panicked = inner
			}
		}()
		panicked = c14pGuard(func() {
			if c.Wire {
				b, err := proto.Marshal(m)
				if err != nil {
					verdict = "not-expressible-on-wire"
					return
				}
				m = new(pbv1.PriorityMsg)
				if err := proto.Unmarshal(b, m); err != nil {
					return
				}
			}
			r.Steps(2)
			stage = "protonil"
			if err := protonil.Check(m); err != nil {
				verdict = "rejected-by-protonil"
				return
			}
			stage = "handler"
			// The handler blocks until the instance answers: run it aside, take the request it buffers (if it accepts the
			// message), then cancel it. No verdict depends on timing.
			ctx, cancel := context.WithCancel(context.Background())
			done := make(chan string, 1)
			go func() { done <- c14pGuard(func() { _, _, _ = handler(ctx, id1, m) }) }()
			var req request
			select {
			case req = <-p.getReqBuffer(core.DutyFromProto(m.GetDuty())):
				cancel()
				inner = <-done
			case inner = <-done:
				cancel()
				verdict = "rejected-by-handler"
				return
			}
			if inner != "" {
				return
			}
			verdict = "accepted"
			stage = "calculate"
			res, err := calculateResult([]*pbv1.PriorityMsg{own, req.Msg}, 1)
			if err != nil {
				verdict = "accepted-then-rejected-by-calculate"
				return
			}
			stage = "decided"
			decided(res)
			r.Steps(3)
		})
		return panicked, stage, verdict
	}

	runRes := func(c c14pnCase) (panicked, stage, verdict string) {
		m := proto.Clone(baseRes).(*pbv1.PriorityResult)
		for _, n := range c.Fields {
			resFields[n].apply(m)
		}
		stage, verdict = "wire", "handled"
		before := delivered
		panicked = c14pGuard(func() {
			if c.Wire {
				a, err := anypb.New(m)
				if err != nil {
					verdict = "not-expressible-on-wire"
					return
				}
				b, err := proto.Marshal(a)
				if err != nil {
					verdict = "not-expressible-on-wire"
					return
				}
				a2 := new(anypb.Any)
				if err := proto.Unmarshal(b, a2); err != nil {
					verdict = "rejected"
					return
				}
				inner, err := a2.UnmarshalNew()
				if err != nil {
					verdict = "rejected"
					return
				}
				var ok bool
				if m, ok = inner.(*pbv1.PriorityResult); !ok {
					verdict = "rejected"
					return
				}
			}
			r.Steps(3)
			stage = "decided"
			decided(m)
		})
		if panicked == "" && verdict == "handled" && delivered == before {
			verdict = "refused-by-subscriber"
		}
		return panicked, stage, verdict
	}

	check := func(c c14pnCase) {
		run := runMsg
		if c.Part == "nil-combo-result" {
			run = runRes
		}
		panicked, stage, verdict := run(c)
		r.Eval(fmt.Sprintf("priority-%s:%d-fields:%s", c.Part, len(c.Fields), verdict))
		r.Count("priority_"+c.Part+":"+verdict, 1)
		if panicked == "" {
			return
		}
		sig := fmt.Sprintf("kind=panic path=priority-%s stage=%s %s absent=%v", c.Part, stage, panicked, c.Fields)
		for i := 0; i < 3; i++ {
			if p2, st2, _ := run(c); p2 != panicked || st2 != stage {
				r.Unconfirmed(sig)
				return
			}
		}
		r.Violation(sig, fmt.Sprintf("a priority %s without %v (signature %s, over the wire %v) panics at stage %s: %s", c.Part, c.Fields, c.Sign, c.Wire, stage, panicked), c)
	}

	if r.ReplayPath != "" {
		var c c14pnCase
		if err := r.ReplayCase(&c); err == nil && (c.Part == "nil-combo-msg" || c.Part == "nil-combo-result") {
			check(c)
		}
		return
	}
	for _, fs := range c14pnCombos(msgNames) {
		if !r.Mine() {
			continue
		}
		for _, sign := range []string{"fresh", "stale"} {
			for _, wire := range []bool{false, true} {
				check(c14pnCase{Part: "nil-combo-msg", Fields: fs, Sign: sign, Wire: wire})
			}
		}
	}
	for _, fs := range c14pnCombos(resNames) {
		if !r.Mine() {
			continue
		}
		for _, wire := range []bool{false, true} {
			check(c14pnCase{Part: "nil-combo-result", Fields: fs, Wire: wire})
		}
	}
}
