package priority

// C14 (priority protocol): the only peer data this protocol decodes are PriorityMsg protos carrying
// google.protobuf.Any topics and priorities. Every structural shape of such a message (nil / empty / unknown
// / wrong-typed / corrupt Any values, nil list entries, missing duty, foreign peer id, absent, short and
// garbage signatures) goes through the calls the receive path makes: wire round trip, protonil.Check, the
// real message verifier, calculateResult and topicResultFromProto. None may panic.

import (
	"fmt"
	"runtime/debug"
	"strings"
	"testing"

	"github.com/libp2p/go-libp2p/core/peer"
	"google.golang.org/protobuf/proto"
	"google.golang.org/protobuf/types/known/anypb"
	"google.golang.org/protobuf/types/known/structpb"

	"github.com/obolnetwork/charon/app/protonil"
	pbv1 "github.com/obolnetwork/charon/core/corepb/v1"
	"github.com/obolnetwork/charon/p2p"
	"github.com/obolnetwork/charon/testutil"
	"github.com/obolnetwork/charon/zzverif/enumx"
)

type c14pCase struct {
	Topics int `json:"topics_shape"`
	Duty   int `json:"duty_shape"`
	Peer   int `json:"peer_shape"`
	Sig    int `json:"signature_shape"`
	Wire   int `json:"over_wire"`
}

func TestVerifC14Priority(t *testing.T) {
	r := enumx.New(t, "C14")
	defer r.Finish()

	key0, key1 := testutil.GenerateInsecureK1Key(t, 0), testutil.GenerateInsecureK1Key(t, 1)
	id0, err := p2p.PeerIDFromKey(key0.PubKey())
	if err != nil {
		t.Fatal(err)
	}
	id1, err := p2p.PeerIDFromKey(key1.PubKey())
	if err != nil {
		t.Fatal(err)
	}
	verifier, err := newMsgVerifier([]peer.ID{id0, id1})
	if err != nil {
		t.Fatal(err)
	}
	anyOf := func(v *structpb.Value) *anypb.Any {
		a, err := anypb.New(v)
		if err != nil {
			t.Fatal(err)
		}
		return a
	}
	str := func(s string) *anypb.Any { return anyOf(structpb.NewStringValue(s)) }
	okTopic := func() *pbv1.PriorityTopicProposal {
		return &pbv1.PriorityTopicProposal{Topic: str("versions"), Priorities: []*anypb.Any{str("v1.1"), str("v1.0")}}
	}
	corrupt := str("versions")
	corrupt.Value = corrupt.Value[:len(corrupt.Value)-1]
	list, _ := structpb.NewList([]any{"a", 1.0})
	strct, _ := structpb.NewStruct(map[string]any{"k": "v"})
	dutyAny, _ := anypb.New(&pbv1.Duty{Slot: 1, Type: 2})

	topicShapes := []struct {
		name string
		v    func() []*pbv1.PriorityTopicProposal
	}{
		{"none", func() []*pbv1.PriorityTopicProposal { return nil }},
		{"valid", func() []*pbv1.PriorityTopicProposal { return []*pbv1.PriorityTopicProposal{okTopic()} }},
		{"duplicate-topic", func() []*pbv1.PriorityTopicProposal { return []*pbv1.PriorityTopicProposal{okTopic(), okTopic()} }},
		{"nil-entry", func() []*pbv1.PriorityTopicProposal { return []*pbv1.PriorityTopicProposal{nil} }},
		{"valid+nil-entry", func() []*pbv1.PriorityTopicProposal { return []*pbv1.PriorityTopicProposal{okTopic(), nil} }},
		{"empty-entry", func() []*pbv1.PriorityTopicProposal { return []*pbv1.PriorityTopicProposal{{}} }},
		{"nil-topic", func() []*pbv1.PriorityTopicProposal {
			return []*pbv1.PriorityTopicProposal{{Priorities: []*anypb.Any{str("a")}}}
		}},
		{"empty-any-topic", func() []*pbv1.PriorityTopicProposal { return []*pbv1.PriorityTopicProposal{{Topic: &anypb.Any{}}} }},
		{"unknown-type-topic", func() []*pbv1.PriorityTopicProposal {
			return []*pbv1.PriorityTopicProposal{{Topic: &anypb.Any{TypeUrl: "type.googleapis.com/no.such.Type", Value: []byte{1, 2, 3}}}}
		}},
		{"corrupt-topic", func() []*pbv1.PriorityTopicProposal { return []*pbv1.PriorityTopicProposal{{Topic: corrupt}} }},
		{"other-message-topic", func() []*pbv1.PriorityTopicProposal { return []*pbv1.PriorityTopicProposal{{Topic: dutyAny}} }},
		{"number-topic", func() []*pbv1.PriorityTopicProposal {
			return []*pbv1.PriorityTopicProposal{{Topic: anyOf(structpb.NewNumberValue(7)), Priorities: []*anypb.Any{str("a")}}}
		}},
		{"null-topic", func() []*pbv1.PriorityTopicProposal {
			return []*pbv1.PriorityTopicProposal{{Topic: anyOf(structpb.NewNullValue()), Priorities: []*anypb.Any{str("a")}}}
		}},
		{"list-topic", func() []*pbv1.PriorityTopicProposal {
			return []*pbv1.PriorityTopicProposal{{Topic: anyOf(structpb.NewListValue(list))}}
		}},
		{"struct-topic", func() []*pbv1.PriorityTopicProposal {
			return []*pbv1.PriorityTopicProposal{{Topic: anyOf(structpb.NewStructValue(strct))}}
		}},
		{"nil-priority", func() []*pbv1.PriorityTopicProposal {
			return []*pbv1.PriorityTopicProposal{{Topic: str("t"), Priorities: []*anypb.Any{nil}}}
		}},
		{"empty-any-priority", func() []*pbv1.PriorityTopicProposal {
			return []*pbv1.PriorityTopicProposal{{Topic: str("t"), Priorities: []*anypb.Any{{}}}}
		}},
		{"number-priority", func() []*pbv1.PriorityTopicProposal {
			return []*pbv1.PriorityTopicProposal{{Topic: str("t"), Priorities: []*anypb.Any{anyOf(structpb.NewNumberValue(1)), anyOf(structpb.NewBoolValue(true))}}}
		}},
		{"corrupt-priority", func() []*pbv1.PriorityTopicProposal {
			return []*pbv1.PriorityTopicProposal{{Topic: str("t"), Priorities: []*anypb.Any{corrupt}}}
		}},
		{"duplicate-priority", func() []*pbv1.PriorityTopicProposal {
			return []*pbv1.PriorityTopicProposal{{Topic: str("t"), Priorities: []*anypb.Any{str("a"), str("a")}}}
		}},
	}
	dutyShapes := []*pbv1.Duty{{Slot: 5, Type: 13}, nil, {Slot: 5, Type: 99}, {Slot: 6, Type: 13}}
	peerShapes := []string{id1.String(), "", "not-a-peer", id0.String()}
	const nSig = 5 // signed correctly, absent, short, 65 zero bytes, 65 garbage bytes

	build := func(c c14pCase) *pbv1.PriorityMsg {
		msg := &pbv1.PriorityMsg{Duty: dutyShapes[c.Duty], Topics: topicShapes[c.Topics].v(), PeerId: peerShapes[c.Peer]}
		switch c.Sig {
		case 0: // a genuine peer signs whatever it sends
			var signed *pbv1.PriorityMsg
			if p := c14pGuard(func() { signed, _ = signMsg(msg, key1) }); p == "" && signed != nil {
				return signed
			}
			msg.Signature = make([]byte, 65)
		case 2:
			msg.Signature = []byte{1, 2, 3}
		case 3:
			msg.Signature = make([]byte, 65)
		case 4:
			msg.Signature = []byte(strings.Repeat("\xa5", 65))
		}
		return msg
	}
	own, err := signMsg(&pbv1.PriorityMsg{Duty: dutyShapes[0], Topics: []*pbv1.PriorityTopicProposal{okTopic()}, PeerId: id0.String()}, key0)
	if err != nil {
		t.Fatal(err)
	}

	run := func(c c14pCase) (panicked, stage string) {
		msg := build(c)
		stage = "wire"
		panicked = c14pGuard(func() {
			if c.Wire == 1 {
				b, err := proto.Marshal(msg)
				if err != nil {
					r.Count("not_expressible_on_wire", 1)
					return
				}
				msg = new(pbv1.PriorityMsg)
				if err := proto.Unmarshal(b, msg); err != nil {
					return
				}
			}
			r.Steps(1)
			stage = "protonil"
			if err := protonil.Check(msg); err != nil {
				r.Count("rejected_by_protonil", 1)
				return
			}
			stage = "verify"
			verr := verifier(msg)
			if verr != nil {
				r.Count("rejected_by_verifier", 1)
				// an unauthenticated message never reaches the calculation; still it must be computable
			} else {
				r.Count("verified", 1)
			}
			stage = "calculate"
			res, err := calculateResult([]*pbv1.PriorityMsg{own, msg}, 1)
			if err != nil {
				r.Count("rejected_by_calculate", 1)
				return
			}
			stage = "result"
			for _, tr := range res.GetTopics() {
				if _, err := topicResultFromProto(tr); err != nil {
					r.Count("result_topic_rejected", 1)
				} else {
					r.Count("result_topic_decoded", 1)
				}
			}
			if _, err := hashProto(res); err != nil {
				return
			}
			r.Steps(3)
		})
		return panicked, stage
	}

	if r.ReplayPath != "" {
		var nc c14pnCase
		if err := r.ReplayCase(&nc); err == nil && nc.Part != "" {
			c14pNilCombos(t, r, key0, key1, id0, id1)
			return
		}
		var c c14pCase
		if err := r.ReplayCase(&c); err == nil {
			p, st := run(c)
			fmt.Printf("replay priority case %+v: stage=%s panic=%q\n", c, st, p)
		}
		return
	}
	for ti := range topicShapes {
		if !r.Mine() {
			continue
		}
		for di := range dutyShapes {
			for pi := range peerShapes {
				for si := 0; si < nSig; si++ {
					for w := 0; w < 2; w++ {
						c := c14pCase{ti, di, pi, si, w}
						r.Eval("priority:" + topicShapes[ti].name)
						p, st := run(c)
						if p == "" {
							continue
						}
						sig := fmt.Sprintf("kind=panic path=priority stage=%s topics=%s %s", st, topicShapes[ti].name, p)
						ok := true
						for k := 0; k < 3; k++ {
							if p2, st2 := run(c); p2 != p || st2 != st {
								ok = false
							}
						}
						if !ok {
							r.Unconfirmed(sig)
							continue
						}
						r.Violation(sig, fmt.Sprintf("priority message shape %+v (topics=%s) panics at stage %s: %s", c, topicShapes[ti].name, st, p), c)
					}
				}
			}
		}
	}

	// every optional / nested field absent, up to two at a time (zz_verif_c14nil_test.go)
	c14pNilCombos(t, r, key0, key1, id0, id1)
}

// c14pGuard returns "" or "op=<top charon frame> err=<class>".
func c14pGuard(f func()) (out string) {
	defer func() {
		r := recover()
		if r == nil {
			return
		}
		top := "(none)"
		lines := strings.Split(string(debug.Stack()), "\n")
		seenPanic := false
		for i := 1; i+1 < len(lines); i++ {
			if strings.HasPrefix(lines[i], "\t") || !strings.HasPrefix(lines[i+1], "\t") {
				continue
			}
			fn := lines[i]
			if strings.HasPrefix(fn, "panic(") {
				seenPanic = true
				continue
			}
			if !seenPanic || strings.Contains(lines[i+1], "zz_verif_") {
				continue
			}
			if strings.HasPrefix(fn, "github.com/obolnetwork/charon/") {
				if k := strings.Index(fn, "("); k > 0 && !strings.HasPrefix(fn[k:], "(*") {
					fn = fn[:k]
				}
				top = strings.TrimPrefix(fn, "github.com/obolnetwork/charon/")
				break
			}
		}
		cls := "other"
		if strings.Contains(fmt.Sprint(r), "nil pointer") {
			cls = "nil-deref"
		}
		out = fmt.Sprintf("op=%s err=%s", top, cls)
	}()
	f()
	return ""
}
