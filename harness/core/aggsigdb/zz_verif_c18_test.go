package aggsigdb

// C18 (aggregate signature store, both implementations): Store then Await by a reader that was waiting before the
// Store and by two later readers. Parties: the set handed in, the private data map, every reader's result.

import (
	"context"
	"testing"
	"time"

	"github.com/obolnetwork/charon/core"
	"github.com/obolnetwork/charon/zzverif/alias"
	"github.com/obolnetwork/charon/zzverif/enumx"
)

const c18pk = core.PubKey("0x8a1d7b8dd64e0aafe7ea7b6c95065c9364cf99d38470db679bdf5c9bd8b0e6cd5c7a3b0a6d4c2e3c7a5e1e9e2b1a7c3d")

type c18db interface {
	Store(context.Context, core.Duty, core.SignedDataSet) error
	Await(context.Context, core.Duty, core.PubKey, core.SubcommitteeIndex) (core.SignedData, error)
}

func c18spec(u alias.Unit, master core.SignedData, v2 bool) alias.Spec {
	path := "aggsigdb/MemDB.Await"
	if v2 {
		path = "aggsigdb/MemDBV2.Await"
	}
	return alias.Spec{Path: path, Type: u.Name, Modes: []string{alias.Input, alias.Result}, Run: func(w *alias.World) {
		ctx, cancel := context.WithTimeout(context.Background(), 20*time.Second)
		defer cancel()
		var (
			db         c18db
			data       func() map[memDBKey]core.SignedData
			registered = make(chan struct{}, 1)
		)
		if v2 {
			d := NewMemDBV2(alias.NewNopDeadliner())
			db = d
			data = func() map[memDBKey]core.SignedData {
				d.RLock()
				defer d.RUnlock()
				return d.data
			}
			go func() { time.Sleep(3 * time.Millisecond); registered <- struct{}{} }()
		} else {
			d := NewMemDB(alias.NewNopDeadliner())
			d.queryCallback = func(q []readQuery) {
				if len(q) >= c18nBlocked {
					select {
					case registered <- struct{}{}:
					default:
					}
				}
			}
			runCtx, stop := context.WithCancel(context.Background())
			go d.Run(runCtx)
			db = d
			data = func() map[memDBKey]core.SignedData { // only read after the Run goroutine has stopped
				stop()
				<-d.quit
				return d.data
			}
			defer stop()
		}
		duty := core.Duty{Slot: 123, Type: u.Duty}
		val := alias.DeepCopy(master)
		sub, err := core.SyncSubcommitteeIndex(duty.Type, val)
		if err != nil {
			w.Fail("subcommittee index: %v", err)
			return
		}
		set := core.SignedDataSet{c18pk: val}

		type res struct {
			v   core.SignedData
			err error
		}
		// several readers wait for the same key before it is stored: one Store resolves them all
		blocked := make(chan res, c18nBlocked)
		for k := 0; k < c18nBlocked; k++ {
			go func() {
				v, err := db.Await(ctx, duty, c18pk, sub)
				blocked <- res{v, err}
			}()
		}
		select {
		case <-registered:
		case <-time.After(10 * time.Second):
			w.Fail("blocked reader did not register")
			return
		}

		w.Input("stored-input", set)
		err = db.Store(ctx, duty, set)
		w.Outcome("Store", err)
		if err != nil {
			w.Fail("store: %v", err)
			return
		}
		w.MutateInputs()
		for k := 0; k < c18nBlocked; k++ {
			b := <-blocked
			w.Outcome("Await(blocked)", b.err)
			if b.err == nil {
				n := "blocked-reader"
				if k > 0 {
					n += string(rune('1' + k))
				}
				w.Result(n, b.v)
			}
		}
		for _, n := range []string{"reader1", "reader2"} {
			v, err := db.Await(ctx, duty, c18pk, sub)
			w.Outcome("Await", err)
			if err == nil {
				w.Result(n, v)
			}
		}
		set2 := core.SignedDataSet{c18pk: alias.DeepCopy(master)} // the same aggregate arrives once more
		w.Input("re-stored-input", set2)
		w.Outcome("Store(again)", db.Store(ctx, duty, set2))
		w.MutateInputs()
		if v, err := db.Await(ctx, duty, c18pk, sub); err == nil {
			w.Result("reader3", v)
		} else {
			w.Outcome("Await(after re-store)", err)
		}
		w.Held("db.data", data())
	}}
}

const c18nBlocked = 3

// c18gate is a deadliner whose first Add parks the calling goroutine (the store's own goroutine, inside the write)
// until released.
type c18gate struct {
	entered, release chan struct{}
	used             bool
}

func (g *c18gate) Add(core.Duty) core.DeadlineStatus {
	if !g.used {
		g.used = true
		close(g.entered)
		<-g.release
	}
	return core.DeadlineScheduled
}
func (*c18gate) C() <-chan core.Duty { return nil }

// c18specCancelled: the caller's context ends while its write is in flight inside the store's goroutine (MemDB hands
// writes to that goroutine and waits for the answer OR its context); Store returns the context's error, the caller -
// for whom the call has failed - goes on to modify its object; what a later reader gets (the write may or may not have
// taken effect) must not depend on that modification.
func c18specCancelled(u alias.Unit, master core.SignedData) alias.Spec {
	return alias.Spec{Path: "aggsigdb/MemDB.Store(cancelled-in-flight)", Type: u.Name, Modes: []string{alias.Input}, Run: func(w *alias.World) {
		ctx, cancel := context.WithTimeout(context.Background(), 20*time.Second)
		defer cancel()
		g := &c18gate{entered: make(chan struct{}), release: make(chan struct{})}
		d := NewMemDB(g)
		runCtx, stop := context.WithCancel(context.Background())
		defer stop()
		go d.Run(runCtx)
		duty := core.Duty{Slot: 123, Type: u.Duty}
		val := alias.DeepCopy(master)
		sub, err := core.SyncSubcommitteeIndex(duty.Type, val)
		if err != nil {
			w.Fail("subcommittee index: %v", err)
			return
		}
		set := core.SignedDataSet{c18pk: val}
		w.Input("stored-input", set)
		sctx, scancel := context.WithCancel(ctx)
		done := make(chan error, 1)
		go func() { done <- d.Store(sctx, duty, set) }()
		select {
		case <-g.entered:
		case err := <-done:
			// the write never reached the store's goroutine: nothing to judge
			close(g.release)
			w.Outcome("Store(not in flight)", err)
			scancel()
			return
		case <-time.After(10 * time.Second):
			close(g.release)
			scancel()
			w.Fail("write did not reach the store's goroutine")
			return
		}
		scancel()
		w.Outcome("Store(cancelled)", <-done)
		w.MutateInputs()
		close(g.release)
		if v, err := d.Await(ctx, duty, c18pk, sub); err == nil {
			w.Result("reader-after-cancelled-store", v)
		} else {
			w.Outcome("Await(after cancelled store)", err)
		}
		stop()
		<-d.quit
		w.Held("db.data", d.data)
	}}
}

func TestVerifC18AggSigDB(t *testing.T) {
	r := enumx.New(t, "C18")
	defer r.Finish()
	for _, u := range alias.SignedUnits(t) {
		if u.Duty == core.DutyUnknown {
			continue
		}
		master := u.Gen().(core.SignedData)
		if s := c18specCancelled(u, master); r.Mine() && alias.Wanted(r, s.Path, s.Type) {
			alias.Run(r, s)
		}
		for _, v2 := range []bool{false, true} {
			s := c18spec(u, master, v2)
			if !r.Mine() {
				continue
			}
			if r.Expired() {
				return
			}
			if !alias.Wanted(r, s.Path, s.Type) {
				continue
			}
			alias.Run(r, s)
		}
	}
}
