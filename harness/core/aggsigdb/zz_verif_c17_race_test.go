package aggsigdb

// Free-running pass of the C17 operation mix under the race detector (DESIGN.md §4.5): real goroutines,
// the real sync package, real time. It only discharges the schedx assumption that code between two
// scheduling points touches shared state under the component's lock or through channels; readers also
// write into what they were handed, so that shared result memory shows up as a race.

import (
	"context"
	"sync"
	"testing"
	"time"

	"github.com/obolnetwork/charon/core"
)

func TestVerifRaceC17(t *testing.T) {
	for _, impl := range []string{"v1", "v2"} {
		for rep := 0; rep < 150; rep++ {
			ctx, cancel := context.WithTimeout(context.Background(), 300*time.Millisecond)
			start := time.Now()
			dl := core.NewDeadliner(ctx, "race", func(d core.Duty) (time.Time, bool) {
				if d.Slot == 99 {
					return start.Add(20 * time.Millisecond), true
				}
				return start.Add(time.Hour), true
			})
			var db c17db
			if impl == "v1" {
				db = NewMemDB(dl)
			} else {
				db = NewMemDBV2(dl)
			}
			go db.Run(ctx)
			var wg sync.WaitGroup
			exp := core.Duty{Slot: 99, Type: core.DutyAttester}
			read := func(k c17key) {
				defer wg.Done()
				rctx, rc := context.WithTimeout(ctx, 100*time.Millisecond)
				defer rc()
				v, err := db.Await(rctx, k.duty, k.pk, 0)
				if err == nil {
					if s, ok := v.(core.Signature); ok && len(s) > 0 {
						s[0]++ // a reader owns what it was handed
					}
				}
			}
			write := func(k c17key, b byte) {
				defer wg.Done()
				_ = db.Store(ctx, k.duty, core.SignedDataSet{k.pk: c17sig(b)})
			}
			wg.Add(9)
			go read(c17K1)
			go read(c17K1)
			go read(c17K2)
			go read(c17key{exp, "A"})
			go write(c17K1, 1)
			go write(c17K1, 2)
			go write(c17K2, 3)
			go write(c17key{exp, "A"}, 4)
			go func() {
				defer wg.Done()
				_ = db.Store(ctx, c17D1, core.SignedDataSet{"A": c17sig(1), "B": c17sig(5)})
			}()
			wg.Wait()
			cancel()
		}
	}
}
