package aggsigdb

// C17 – aggregate-signature store: reads return the stored value, no lost wake-ups.
// Engine schedx (DESIGN.md §3.1, §5 C17). Both implementations behind one harness.

import (
	"bytes"
	"context"
	"fmt"
	"sort"
	"strings"
	"testing"
	"time"

	"github.com/obolnetwork/charon/core"
	"github.com/obolnetwork/charon/zzverif/schedx"
)

type c17key struct {
	duty core.Duty
	pk   core.PubKey
}

type c17db interface {
	core.AggSigDB
	Run(ctx context.Context)
}

type c17read struct {
	name             string
	key              c17key
	started, done    bool
	cancelled        bool
	tStart, tDone    time.Duration
	val              core.SignedData
	err              error
	cancelBeforeDone bool
}

type c17write struct {
	name     string
	key      c17key
	val      core.Signature
	done     bool
	tStart   time.Duration
	tDone    time.Duration
	err      error
	seq      int // order of completion among writes
	multi    bool
	expireAt time.Duration
}

type c17data struct {
	impl    string
	db      c17db
	reads   []*c17read
	writes  []*c17write
	wseq    int
	expiry  map[core.Duty]time.Duration
	cancels map[string]context.CancelFunc
}

func c17sig(b byte) core.Signature { return core.Signature(bytes.Repeat([]byte{b}, 96)) }

// c17v is the stored value: content (ID) plus signature, so that two values can agree in one and differ in the other.
// Value number b has content b; its signature is that of value b&^0x10, i.e. values b and b|0x10 carry the SAME
// signature over DIFFERENT content (a store compares complete values, not signatures).
type c17v struct {
	ID  byte           `json:"id"`
	Sig core.Signature `json:"sig"`
}

func c17mk(b byte) c17v { return c17v{ID: b, Sig: c17sig(b &^ 0x10)} }

func (v c17v) Signature() core.Signature { return v.Sig }
func (v c17v) SetSignature(s core.Signature) (core.SignedData, error) {
	v.Sig = append(core.Signature(nil), s...)
	return v, nil
}
func (v c17v) MessageRoot() ([32]byte, error) { return [32]byte{v.ID}, nil }
func (v c17v) Clone() (core.SignedData, error) {
	return c17v{ID: v.ID, Sig: append(core.Signature(nil), v.Sig...)}, nil
}
func (v c17v) MarshalJSON() ([]byte, error) {
	return []byte(fmt.Sprintf(`{"id":%d,"sig":"%x"}`, v.ID, []byte(v.Sig))), nil
}

// c17id is the identity of a value seen by the oracle: its content number.
func c17id(v core.SignedData) byte {
	if x, ok := v.(c17v); ok {
		return x.ID
	}
	return v.Signature()[0]
}

var (
	c17D1 = core.Duty{Slot: 10, Type: core.DutyProposer}
	c17D2 = core.Duty{Slot: 11, Type: core.DutyAttester}
	c17K1 = c17key{c17D1, "A"}
	c17K2 = c17key{c17D2, "B"}
	c17K3 = c17key{c17D1, "B"} // same duty as K1, other validator
)

type c17op struct {
	kind   string // "R" read, "W" write, "C" cancel reader, "R2" two reads in sequence
	name   string
	key    c17key
	val    byte
	target string
	key2   *c17key // second entry of a two-validator store
	val2   byte
}

// c17scenario builds one scenario from a thread list.
func c17scenario(impl, name string, ops []c17op, clock []time.Duration, expire map[core.Duty]time.Duration) *schedx.Scenario {
	sc := &schedx.Scenario{Name: impl + "/" + name, Params: map[string]any{"impl": impl, "ops": fmt.Sprint(ops)}, Horizon: time.Hour}
	sc.Setup = func(x *schedx.Exec) {
		d := &c17data{impl: impl, expiry: expire, cancels: map[string]context.CancelFunc{}}
		x.Data = d
		start := time.Now()
		deadliner := core.NewDeadliner(x.Ctx, "c17", func(duty core.Duty) (time.Time, bool) {
			if e, ok := expire[duty]; ok {
				return start.Add(e), true
			}
			if duty.Type == core.DutyExit || duty.Type == core.DutyBuilderRegistration {
				return time.Time{}, false // never expires, as in core.NewDutyDeadlineFunc: the deadliner answers DeadlineExempt
			}
			return start.Add(1000 * time.Hour), true
		})
		if impl == "v1" {
			d.db = NewMemDB(deadliner)
		} else {
			d.db = NewMemDBV2(deadliner)
		}
		go d.db.Run(x.Ctx)
		for _, op := range ops {
			op := op
			switch op.kind {
			case "R":
				r := &c17read{name: op.name, key: op.key}
				d.reads = append(d.reads, r)
				ctx, cancel := context.WithCancel(x.Ctx)
				d.cancels[op.name] = cancel
				x.Go(op.name, func(t *schedx.T) {
					r.started, r.tStart = true, x.Now()
					x.Obs("%s start@%s", op.name, x.Now())
					v, err := d.db.Await(ctx, op.key.duty, op.key.pk, 0)
					t.Point("ret") // woken readers park before touching the shared harness records
					r.val, r.err, r.done, r.tDone = v, err, true, x.Now()
					x.Obs("%s=%s@%s", op.name, c17show(v, err), x.Now())
				})
			case "W":
				w := &c17write{name: op.name, key: op.key, val: c17sig(op.val)}
				d.writes = append(d.writes, w)
				set := core.SignedDataSet{op.key.pk: c17mk(op.val)}
				var w2 *c17write
				if op.key2 != nil {
					w2 = &c17write{name: op.name + "b", key: *op.key2, val: c17sig(op.val2)}
					d.writes = append(d.writes, w2)
					set[op.key2.pk] = c17mk(op.val2)
				}
				x.Go(op.name, func(t *schedx.T) {
					w.tStart = x.Now()
					x.Obs("%s start@%s", op.name, x.Now())
					err := d.db.Store(x.Ctx, op.key.duty, set)
					w.err, w.done, w.tDone = err, true, x.Now()
					d.wseq++
					w.seq = d.wseq
					if w2 != nil {
						w2.tStart, w2.err, w2.done, w2.tDone, w2.seq = w.tStart, err, true, w.tDone, w.seq
						w.multi, w2.multi = true, true
					}
					x.Obs("%s=%v@%s#%d", op.name, err != nil, x.Now(), w.seq)
				})
			case "C":
				x.Go(op.name, func(t *schedx.T) {
					for _, r := range d.reads {
						if r.name == op.target {
							r.cancelled = true
							r.cancelBeforeDone = !r.done
						}
					}
					d.cancels[op.target]()
					x.Obs("%s", op.name)
				})
			}
		}
		x.Clock(clock...)
	}
	sc.StateKey = func(x *schedx.Exec) string { return c17dump(x.Data.(*c17data)) }
	sc.Outcome = func(x *schedx.Exec) string {
		d := x.Data.(*c17data)
		var parts []string
		for _, r := range d.reads {
			parts = append(parts, fmt.Sprintf("%s:%v:%s", r.name, r.done, c17show(r.val, r.err)))
		}
		for _, w := range d.writes {
			parts = append(parts, fmt.Sprintf("%s:%v:%v", w.name, w.done, w.err != nil))
		}
		return strings.Join(parts, ",")
	}
	sc.Check = func(x *schedx.Exec) []schedx.Violation { return c17check(x, impl) }
	return sc
}

func c17show(v core.SignedData, err error) string {
	if err != nil {
		if strings.Contains(err.Error(), "context canceled") {
			return "ctxerr"
		}
		return "err"
	}
	if v == nil {
		return "nil"
	}
	return fmt.Sprintf("v%x", c17id(v))
}

// c17dump is the canonical dump of the implementation's private state (state key for pruning).
func c17dump(d *c17data) string {
	var keys []string
	add := func(data map[memDBKey]core.SignedData) {
		for k, v := range data {
			keys = append(keys, fmt.Sprintf("%v/%s=%x", k.duty, k.pubKey, c17id(v)))
		}
	}
	extra := ""
	switch db := d.db.(type) {
	case *MemDB:
		add(db.data)
		var bq []string
		for _, q := range db.blockedQueries {
			bq = append(bq, fmt.Sprintf("%v/%s/%v", q.duty, q.pubKey, cancelled(q.cancel)))
		}
		extra = strings.Join(bq, ";") + schedx.ExtraState(db, "data", "keysByDuty", "commands", "queries", "blockedQueries", "queryCallback", "quit", "deadliner")
	case *MemDBV2:
		add(db.data)
		extra = fmt.Sprintf("n%d", len(db.notify)) + schedx.ExtraState(db, "RWMutex", "data", "keysByDuty", "deadliner", "closed", "notify")
	}
	sort.Strings(keys)
	return strings.Join(keys, ";") + "|" + extra
}

func c17present(d *c17data) map[c17key]byte {
	out := map[c17key]byte{}
	var data map[memDBKey]core.SignedData
	switch db := d.db.(type) {
	case *MemDB:
		data = db.data
	case *MemDBV2:
		data = db.data
	}
	for k, v := range data {
		out[c17key{k.duty, k.pubKey}] = c17id(v)
	}
	return out
}

func c17check(x *schedx.Exec, impl string) []schedx.Violation {
	d := x.Data.(*c17data)
	var out []schedx.Violation
	// first successfully stored value per key, in completion order
	sort.Slice(d.writes, func(i, j int) bool { return d.writes[i].seq < d.writes[j].seq })
	// An expiry deletes the duty's keys, so stores before and after it are separate generations of a key.
	gen := func(k c17key, at time.Duration) c17key {
		if e, ok := d.expiry[k.duty]; ok && at >= e {
			return c17key{k.duty, k.pk + "#expired"}
		}
		return k
	}
	// A store that was in progress while the duty expired may have taken effect before or after the deletion:
	// for such keys only the "nothing invented" clause is checked.
	ambiguous := map[c17key]bool{}
	for _, w := range d.writes {
		if e, ok := d.expiry[w.key.duty]; ok && (!w.done || (w.tStart < e && w.tDone >= e)) {
			ambiguous[w.key] = true
		}
	}
	for _, w := range d.writes {
		// a failed multi-entry store may or may not have stored each of its entries
		if w.multi && w.done && w.err != nil {
			ambiguous[w.key] = true
		}
	}
	for _, r := range d.reads {
		if e, ok := d.expiry[r.key.duty]; ok && r.started && (!r.done || (r.tStart < e && r.tDone >= e)) {
			ambiguous[r.key] = true
		}
	}
	first := map[c17key]*c17write{}
	for _, w := range d.writes {
		if ambiguous[w.key] {
			continue
		}
		if !w.done {
			// A store that never returns although nothing else is enabled is a liveness failure of the store itself.
			out = append(out, schedx.Violation{Signature: fmt.Sprintf("impl=%s kind=store-blocked", impl),
				Description: fmt.Sprintf("%s never returned", w.name)})
			continue
		}
		if w.err == nil {
			if f, ok := first[gen(w.key, w.tDone)]; ok {
				if !bytes.Equal(f.val, w.val) {
					out = append(out, schedx.Violation{Signature: fmt.Sprintf("impl=%s kind=conflicting-store-accepted", impl),
						Description: fmt.Sprintf("%s stored different data under a key already stored by %s without error", w.name, f.name)})
				}
			} else {
				first[gen(w.key, w.tDone)] = w
			}
		}
	}
	// A store of a value equal to the first one, or the first one itself, must not fail
	// (expired duties are stored regardless in both implementations; contexts are never cancelled for writers).
	for _, w := range d.writes {
		if w.done && w.err != nil && !ambiguous[w.key] {
			f, ok := first[gen(w.key, w.tDone)]
			if !ok {
				// it failed and nobody else stored: allowed only if a *different* write was applied first by the implementation
				// and itself failed - impossible; report.
				conflict := false
				for _, o := range d.writes {
					if o != w && o.key == w.key && !bytes.Equal(o.val, w.val) {
						conflict = true
					}
				}
				if !conflict {
					out = append(out, schedx.Violation{Signature: fmt.Sprintf("impl=%s kind=store-failed-without-conflict", impl),
						Description: fmt.Sprintf("%s failed: %v", w.name, w.err)})
				}
			} else if bytes.Equal(f.val, w.val) {
				out = append(out, schedx.Violation{Signature: fmt.Sprintf("impl=%s kind=equal-store-rejected", impl),
					Description: fmt.Sprintf("%s failed: %v", w.name, w.err)})
			}
		}
	}
	// State-based liveness: a reader that is still blocked in the terminal state although its key is present
	// in the store (real private state) has lost its wake-up, whoever stored it.
	present := c17present(d)
	for _, r := range d.reads {
		if r.started && !r.done && !r.cancelled {
			if v, ok := present[r.key]; ok {
				out = append(out, schedx.Violation{
					Signature:   fmt.Sprintf("impl=%s kind=lost-wakeup waiters=%s", impl, map[bool]string{true: ">=2", false: "1"}[len(d.reads) >= 2]),
					Description: fmt.Sprintf("%s is still blocked although the store holds v%x under its key", r.name, v)})
			}
		}
	}
	// All values ever returned for one key (within one generation) are the same.
	if len(d.expiry) == 0 {
		got := map[c17key]byte{}
		for _, r := range d.reads {
			if r.done && r.err == nil {
				b := c17id(r.val)
				if o, ok := got[r.key]; ok && o != b {
					out = append(out, schedx.Violation{Signature: fmt.Sprintf("impl=%s kind=readers-disagree", impl),
						Description: fmt.Sprintf("two reads of one key returned v%x and v%x", o, b)})
				}
				got[r.key] = b
			}
		}
	}
	for _, r := range d.reads {
		at := x.Now()
		if r.done {
			at = r.tDone
		}
		f := first[gen(r.key, at)]
		exp, hasExp := d.expiry[r.key.duty]
		if ambiguous[r.key] && r.done && r.err == nil {
			f = nil // falls through to the "value comes from some store call" clause
		}
		if r.done && r.err == nil {
			if r.cancelled && r.cancelBeforeDone {
				// returning a value in a race with cancellation is fine as long as it is the stored one.
			}
			if f == nil {
				// maybe only a failed (conflicting) write exists: the value must still come from some store call
				ok := false
				for _, w := range d.writes {
					if w.key == r.key && bytes.Equal(w.val, c17sig(c17id(r.val))) {
						ok = true
					}
				}
				if !ok {
					out = append(out, schedx.Violation{Signature: fmt.Sprintf("impl=%s kind=read-invented-value", impl),
						Description: fmt.Sprintf("%s returned %s which nobody stored", r.name, c17show(r.val, nil))})
				}
				continue
			}
			if !bytes.Equal(f.val, c17sig(c17id(r.val))) {
				out = append(out, schedx.Violation{Signature: fmt.Sprintf("impl=%s kind=read-wrong-value", impl),
					Description: fmt.Sprintf("%s returned %s but the value stored first under its key is v%x (by %s)", r.name, c17show(r.val, nil), f.val[0], f.name)})
			}
			// promptness: in virtual time a read returns at the instant max(its start, the store's return)
			lim := f.tDone
			if r.tStart > lim {
				lim = r.tStart
			}
			if r.tDone > lim && !(hasExp && exp <= r.tDone) {
				out = append(out, schedx.Violation{Signature: fmt.Sprintf("impl=%s kind=late-wakeup", impl),
					Description: fmt.Sprintf("%s returned at %s although its key was stored at %s", r.name, r.tDone, f.tDone)})
			}
			continue
		}
		if r.done && r.err != nil {
			if !r.cancelled {
				out = append(out, schedx.Violation{Signature: fmt.Sprintf("impl=%s kind=read-error", impl),
					Description: fmt.Sprintf("%s failed without being cancelled: %v", r.name, r.err)})
			}
			continue
		}
		// still blocked in the terminal state (nothing enabled, clock advanced to the horizon)
		if !r.started || r.cancelled {
			if r.cancelled {
				out = append(out, schedx.Violation{Signature: fmt.Sprintf("impl=%s kind=cancelled-read-blocked", impl),
					Description: fmt.Sprintf("%s was cancelled but never returned", r.name)})
			}
			continue
		}
		if f != nil && !(hasExp && exp <= x.Now()) {
			out = append(out, schedx.Violation{
				Signature:   fmt.Sprintf("impl=%s kind=lost-wakeup waiters=%s", impl, map[bool]string{true: ">=2", false: "1"}[len(d.reads) >= 2]),
				Description: fmt.Sprintf("%s is still blocked although %s stored its key at %s and the duty has not expired", r.name, f.name, f.tDone)})
		}
	}
	return out
}

func c17scenarios() []*schedx.Scenario {
	var scs []*schedx.Scenario
	R := func(n string, k c17key) c17op { return c17op{kind: "R", name: n, key: k} }
	W := func(n string, k c17key, v byte) c17op { return c17op{kind: "W", name: n, key: k, val: v} }
	C := func(n, target string) c17op { return c17op{kind: "C", name: n, target: target} }
	for _, impl := range []string{"v1", "v2"} {
		add := func(name string, ops []c17op, clock []time.Duration, exp map[core.Duty]time.Duration) {
			scs = append(scs, c17scenario(impl, name, ops, clock, exp))
		}
		add("1r1w", []c17op{R("R1", c17K1), W("W1", c17K1, 1)}, nil, nil)
		add("2r-same-key-1w", []c17op{R("R1", c17K1), R("R2", c17K1), W("W1", c17K1, 1)}, nil, nil)
		add("2r-2keys-2w", []c17op{R("R1", c17K1), R("R2", c17K2), W("W1", c17K1, 1), W("W2", c17K2, 2)}, nil, nil)
		// duty types that never expire (voluntary exit, builder registration): the deadliner answers "exempt", not "scheduled"
		kx := c17key{core.Duty{Slot: 12, Type: core.DutyExit}, "A"}
		kb := c17key{core.Duty{Slot: 0, Type: core.DutyBuilderRegistration}, "A"}
		add("exempt-2r-2keys-2w", []c17op{R("R1", kx), R("R2", kb), W("W1", kx, 1), W("W2", kb, 2)}, nil, nil)
		add("exempt-r-conflicting-writes", []c17op{R("R1", kx), W("W1", kx, 1), W("W2", kx, 2)}, nil, nil)
		add("exempt-w-w-r", []c17op{W("W1", kb, 1), W("W2", kb, 2), R("R1", kb)}, nil, nil)
		add("2r-sameduty-2w", []c17op{R("R1", c17K1), R("R2", c17K3), W("W1", c17K1, 1), W("W2", c17K3, 2)}, nil, nil)
		add("r-conflicting-writes", []c17op{R("R1", c17K1), W("W1", c17K1, 1), W("W2", c17K1, 2)}, nil, nil)
		// different content under the same signature bytes is different data all the same
		add("r-conflicting-writes-same-signature", []c17op{R("R1", c17K1), W("W1", c17K1, 1), W("W2", c17K1, 0x11)}, nil, nil)
		add("w-w-same-signature-r", []c17op{W("W1", c17K1, 0x11), W("W2", c17K1, 1), R("R1", c17K1)}, nil, nil)
		add("r-equal-writes", []c17op{R("R1", c17K1), W("W1", c17K1, 1), W("W2", c17K1, 1)}, nil, nil)
		add("r-cancel-w", []c17op{R("R1", c17K1), C("C1", "R1"), W("W1", c17K1, 1)}, nil, nil)
		add("2r-cancel-one-w", []c17op{R("R1", c17K1), R("R2", c17K1), C("C1", "R1"), W("W1", c17K1, 1)}, nil, nil)
		add("r-w-expiry", []c17op{R("R1", c17K1), W("W1", c17K1, 1), R("R2", c17K1)}, []time.Duration{11 * time.Second},
			map[core.Duty]time.Duration{c17D1: 10 * time.Second})
		// a pending read of a duty that another validator's store registered with the deadliner survives the expiry and
		// is served by a late store (which both implementations accept)
		add("w-otherkey-r-expiry-latew", []c17op{W("W0", c17K3, 7), R("R1", c17K1), W("W1", c17K1, 1)}, []time.Duration{11 * time.Second},
			map[core.Duty]time.Duration{c17D1: 10 * time.Second})
		add("w-expiry-w2-r", []c17op{W("W1", c17K1, 1), W("W2", c17K1, 2), R("R1", c17K1)}, []time.Duration{11 * time.Second},
			map[core.Duty]time.Duration{c17D1: 10 * time.Second})
		W2 := func(n string, k c17key, v byte, k2 c17key, v2 byte) c17op {
			return c17op{kind: "W", name: n, key: k, val: v, key2: &k2, val2: v2}
		}
		addRot := func(name string, ops []c17op) {
			sc := c17scenario(impl, name, ops, nil, nil)
			sc.EnvDims = map[string]int{"maprot": 2}
			scs = append(scs, sc)
		}
		addRot("2r-1multiw", []c17op{R("R1", c17K1), R("R2", c17K3), W2("W1", c17K1, 1, c17K3, 2)})
		addRot("2r-multiw-partial-failure", []c17op{W("W0", c17K3, 9), R("R1", c17K1), R("R2", c17K3), W2("W1", c17K1, 1, c17K3, 2)})
		add("3r-2w", []c17op{R("R1", c17K1), R("R2", c17K1), R("R3", c17K2), W("W1", c17K1, 1), W("W2", c17K2, 2)}, nil, nil)
		add("2r-cancel-2w", []c17op{R("R1", c17K1), R("R2", c17K2), C("C1", "R1"), W("W1", c17K1, 1), W("W2", c17K2, 2)}, nil, nil)
		if schedx.Tier() == "thorough" {
			add("3r-conflict", []c17op{R("R1", c17K1), R("R2", c17K1), W("W1", c17K1, 1), W("W2", c17K1, 2), W("W3", c17K2, 3), R("R3", c17K2)}, nil, nil)
			add("3r-same-key-cancel-w", []c17op{R("R1", c17K1), R("R2", c17K1), R("R3", c17K1), C("C1", "R2"), W("W1", c17K1, 1)}, nil, nil)
		}
	}
	return scs
}

func TestVerifC17(t *testing.T) {
	e := schedx.NewExplorer(t, "C17")
	// both tiers iterate the preemption bound up to unbounded (state-key pruning makes the <=4-thread scenarios finish in
	// seconds); the thorough tier adds the 5-6 thread scenarios
	e.Bounds = []int{0, 1, 2, 3, -1}
	e.Explore(c17scenarios())
	e.Finish()
}
