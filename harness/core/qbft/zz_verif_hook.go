package qbft

import "context"

// VerifState is the complete mutable state of one Run (its closure locals), handed to the model checker
// at the top of every iteration of the event loop (spliced in by the overlay; see /verif/DESIGN.md C02).
type VerifState struct {
	Process, Round        int64
	InputValue            any
	PpjCache              any // []Msg or nil
	PreparedRound         int64
	PreparedValue         any
	CompareFailureRound   int64
	PreparedJustification any
	QCommit               any
	QCommitValue          any
	Buffer                any // map[int64][]Msg
	DedupRules            []VerifDedup
	DecidedResends        []VerifResend
	TimerActive           bool
	InputOpen             bool
}

type VerifDedup struct {
	Rule  UponRule
	Round int64
}

type VerifResend struct {
	Source, Round int64
	Count         int
}

// VerifSnapshot is set by the harness.
var VerifSnapshot func(ctx context.Context, s VerifState)

func verifSnapshot(ctx context.Context, process, round int64, inputValue, ppjCache any, preparedRound int64, preparedValue any,
	compareFailureRound int64, preparedJustification, qCommit, qCommitValue, buffer any, dedupRules map[dedupKey]bool,
	decidedResends map[int64]decidedResend, timerActive, inputOpen bool,
) {
	if VerifSnapshot == nil {
		return
	}
	s := VerifState{Process: process, Round: round, InputValue: inputValue, PpjCache: ppjCache, PreparedRound: preparedRound,
		PreparedValue: preparedValue, CompareFailureRound: compareFailureRound, PreparedJustification: preparedJustification,
		QCommit: qCommit, QCommitValue: qCommitValue, Buffer: buffer, TimerActive: timerActive, InputOpen: inputOpen}
	for k, v := range dedupRules {
		if v {
			s.DedupRules = append(s.DedupRules, VerifDedup{k.UponRule, k.Round})
		}
	}
	for k, v := range decidedResends {
		s.DecidedResends = append(s.DecidedResends, VerifResend{k, v.Round, v.Count})
	}
	VerifSnapshot(ctx, s)
}
