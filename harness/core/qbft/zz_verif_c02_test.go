package qbft

// C02 (agreement), C03 (validity/integrity) and C04's "no honest message is rejected as unjustified":
// explicit-state search over real qbft.Run instances (engine statex, DESIGN.md §3.2, §5 C02).
//
// A *local* state is the canonical dump of one Run's private state (snapshot splice). A local transition
// (state, event) -> (state', outputs) is computed by replaying a representative history of the state on
// a fresh real Run inside a synctest bubble and applying the event; it is memoised, and cross-checked by
// replaying a second representative history when one is known. A *global* state is the tuple of local
// states of the honest members plus the pool of messages sent so far; BFS over global states.

import (
	"context"
	"crypto/sha256"
	"encoding/json"
	"fmt"
	"os"
	"runtime"
	"sort"
	"strings"
	"testing"
	"testing/synctest"
	"time"

	"github.com/obolnetwork/charon/zzverif/enumx"
)

// ---- messages -------------------------------------------------------------------------------------------

type vmsg struct {
	typ                     MsgType
	src, round, val, pr, pv int64
	just                    []*vmsg
	key                     string
	id                      int32
	ifc                     []Msg[int64, int64, int64]
}

func (m *vmsg) Type() MsgType               { return m.typ }
func (m *vmsg) Instance() int64             { return 0 }
func (m *vmsg) Source() int64               { return m.src }
func (m *vmsg) Round() int64                { return m.round }
func (m *vmsg) Value() int64                { return m.val }
func (m *vmsg) ValueSource() (int64, error) { return m.val, nil }
func (m *vmsg) PreparedRound() int64        { return m.pr }
func (m *vmsg) PreparedValue() int64        { return m.pv }
func (m *vmsg) Justification() []Msg[int64, int64, int64] {
	return m.ifc
}

var tnames = map[MsgType]string{MsgPrePrepare: "PP", MsgPrepare: "P", MsgCommit: "C", MsgRoundChange: "RC", MsgDecided: "D"}

func baseKey(typ MsgType, src, round, val, pr, pv int64) string {
	return fmt.Sprintf("%s.s%d.r%d.v%d.%d.%d", tnames[typ], src, round, val, pr, pv)
}

type msgTable struct {
	byKey map[string]*vmsg
	all   []*vmsg
}

func (t *msgTable) mk(typ MsgType, src, round, val, pr, pv int64, just []*vmsg) *vmsg {
	return t.mkOrd(typ, src, round, val, pr, pv, just, false)
}

// mkOrd: with ordered set the justification keeps the order the (Byzantine) sender chose; honest messages are
// normalised to a canonical order (the order an honest sender produces depends on its map iteration order).
func (t *msgTable) mkOrd(typ MsgType, src, round, val, pr, pv int64, just []*vmsg, ordered bool) *vmsg {
	// justification elements are flat (the wire format strips nested justifications, as createMsg does)
	var flat []*vmsg
	for _, j := range just {
		if len(j.just) > 0 {
			j = t.mk(j.typ, j.src, j.round, j.val, j.pr, j.pv, nil)
		}
		flat = append(flat, j)
	}
	if !ordered {
		sort.Slice(flat, func(i, k int) bool { return flat[i].key < flat[k].key })
	}
	key := baseKey(typ, src, round, val, pr, pv)
	if ordered {
		key = "ord:" + key
	}
	if len(flat) > 0 {
		var ks []string
		for _, j := range flat {
			ks = append(ks, j.key)
		}
		key += "[" + strings.Join(ks, ",") + "]"
	}
	if m, ok := t.byKey[key]; ok {
		return m
	}
	m := &vmsg{typ: typ, src: src, round: round, val: val, pr: pr, pv: pv, just: flat, key: key, id: int32(len(t.all))}
	for _, j := range flat {
		m.ifc = append(m.ifc, j)
	}
	t.byKey[key] = m
	t.all = append(t.all, m)
	return m
}

// ---- local runs --------------------------------------------------------------------------------------------

type levent struct {
	kind byte // 'r' recv, 't' timeout, 'i' input
	arg  int32
}

func (e levent) String() string { return fmt.Sprintf("%c%d", e.kind, e.arg) }

type decision struct {
	val, round int64
	qc         []*vmsg
}

type lrun struct {
	last        VerifState
	haveSnap    bool
	outputs     []*vmsg
	decides     []decision
	unjust      []*vmsg
	timer       chan time.Time
	timerActive bool
	tbl         *msgTable
	bcastErr    bool
}

type lrunKey struct{}

func init() {
	VerifSnapshot = func(ctx context.Context, s VerifState) {
		if lr, ok := ctx.Value(lrunKey{}).(*lrun); ok {
			lr.last, lr.haveSnap = s, true
		}
	}
}

type scenario struct {
	name    string
	n       int
	byz     map[int64]bool
	inputs  map[int64]int64 // honest member -> input value (absent = never obtains a proposal)
	values  []int64         // adversary's value alphabet
	R       int64           // rounds are not expanded beyond R
	noise   int
	capSt   int
	allSub  bool           // all quorum subsets (n<=4) vs canonical subsets
	groups  [][]int        // partition of the honest members (indices into honest) into lockstep groups
	late    map[int64]bool // members whose input is not available at start (delivered as an explicit event)
	base    string
	maprot  int
	noForge bool    // the coalition only sends validly justified messages (equivocation, selective inclusion, votes)
	prefix  []pstep // scripted real execution that leads to the (non-initial) state the search starts from
	reject  map[int64]map[int64]bool // member -> values its Compare callback refuses (the attestation-compare feature): a pure function of (member, proposed value)
}

// msel selects a message of the pool (or of the coalition's repertoire) by its header; pr < 0 = any.
type msel struct {
	typ             MsgType
	src, round, val int64
}

// pstep is one step of a scripted prefix: member m times out, or receives the selected messages in order.
type pstep struct {
	m       int64
	timeout bool
	msgs    []msel
}

func (sc *scenario) leader(round int64) int64 { return (round - 1) % int64(sc.n) }
func (sc *scenario) q() int                   { return (2*sc.n + 2) / 3 } // specification: ceil(2n/3)
func (sc *scenario) f() int                   { return (sc.n - 1) / 3 }   // specification: floor((n-1)/3)

// implQ/implF are the thresholds the implementation under test uses; the delivery menu is built from them so
// that a changed threshold is exercised (the oracles use the specification's values).
func (sc *scenario) implQ() int { return Definition[int64, int64, int64]{Nodes: sc.n}.Quorum() }
func (sc *scenario) implF() int { return Definition[int64, int64, int64]{Nodes: sc.n}.Faulty() }

type lresult struct {
	proc      int64
	snap      VerifState
	haveSnap  bool
	outputs   []*vmsg // outputs of the last event only
	decides   []decision
	nDecides  int // total Decide calls over the whole history
	unjust    []*vmsg
	exited    string
	timerLive bool
}

// runLocal replays hist on a fresh real qbft.Run of member proc.
func runLocal(tb *testing.T, sc *scenario, tbl *msgTable, proc int64, hist []levent) (res lresult) {
	res.proc = proc
	synctest.Test(tb, func(t *testing.T) {
		lr := &lrun{tbl: tbl}
		ctx, cancel := context.WithCancel(context.WithValue(context.Background(), lrunKey{}, lr))
		recv := make(chan Msg[int64, int64, int64])
		inputCh := make(chan int64, 1)
		srcCh := make(chan int64, 1)
		def := Definition[int64, int64, int64]{
			IsLeader: func(_ int64, round, process int64) bool { return sc.leader(round) == process },
			NewTimer: func(round int64) (<-chan time.Time, func()) {
				ch := make(chan time.Time, 1)
				lr.timer, lr.timerActive = ch, true
				return ch, func() { lr.timerActive = false }
			},
			Compare: func(_ context.Context, m Msg[int64, int64, int64], _ <-chan int64, _ int64, returnErr chan error, _ chan int64) {
				if sc.reject[proc][m.Value()] {
					returnErr <- fmt.Errorf("local data differ from the leader's proposal")
					return
				}
				returnErr <- nil
			},
			Decide: func(_ context.Context, _ int64, value int64, round int64, qcommit []Msg[int64, int64, int64]) {
				d := decision{val: value, round: round}
				for _, m := range qcommit {
					d.qc = append(d.qc, m.(*vmsg))
				}
				lr.decides = append(lr.decides, d)
			},
			LogUponRule:    func(context.Context, int64, int64, int64, Msg[int64, int64, int64], UponRule) {},
			LogRoundChange: func(context.Context, int64, int64, int64, int64, UponRule, []Msg[int64, int64, int64]) {},
			LogUnjust: func(_ context.Context, _ int64, _ int64, msg Msg[int64, int64, int64]) {
				lr.unjust = append(lr.unjust, msg.(*vmsg))
			},
			Nodes:     sc.n,
			FIFOLimit: 1000,
		}
		tr := Transport[int64, int64, int64]{
			Broadcast: func(_ context.Context, typ MsgType, _ int64, source, round, value, pr, pv int64, just []Msg[int64, int64, int64]) error {
				var js []*vmsg
				for _, j := range just {
					js = append(js, j.(*vmsg))
				}
				lr.outputs = append(lr.outputs, tbl.mk(typ, source, round, value, pr, pv, js))
				return nil
			},
			Receive: recv,
		}
		done := make(chan string, 1)
		go func() {
			defer func() {
				if r := recover(); r != nil {
					done <- fmt.Sprintf("panic: %v", r)
				}
			}()
			err := Run(ctx, def, tr, 0, proc, inputCh, srcCh)
			done <- fmt.Sprintf("exit: %v", err)
		}()
		synctest.Wait()
		mark, markD, markU := 0, 0, 0
		for i, ev := range hist {
			if i == len(hist)-1 {
				mark, markD, markU = len(lr.outputs), len(lr.decides), len(lr.unjust)
			}
			if res.exited != "" {
				break
			}
			switch ev.kind {
			case 'r':
				select {
				case recv <- tbl.all[ev.arg]:
				case e := <-done:
					res.exited = e
				}
			case 't':
				if lr.timerActive {
					lr.timer <- time.Now()
				}
			case 'i':
				select {
				case inputCh <- int64(ev.arg):
				default:
				}
			}
			synctest.Wait()
			select {
			case e := <-done:
				res.exited = e
			default:
			}
		}
		res.snap, res.haveSnap = lr.last, lr.haveSnap
		res.outputs = append(res.outputs, lr.outputs[mark:]...)
		res.decides = append(res.decides, lr.decides[markD:]...)
		res.nDecides = len(lr.decides)
		res.unjust = append(res.unjust, lr.unjust[markU:]...)
		res.timerLive = lr.timerActive
		cancel()
		if res.exited == "" {
			<-done
		}
		synctest.Wait()
	})
	return res
}

// ---- local states ---------------------------------------------------------------------------------------------

type lstate struct {
	id           int32
	key          string
	hist, hist2  []levent
	round        int64
	decided      bool
	dval, dround int64
	timer        bool
	inputOpen    bool
	exited       string
	dedup        map[VerifDedup]bool
	resends      map[int64]VerifResend
	buf          map[int64][]*vmsg
	flat         []*vmsg // buffer flattened with justifications
	top          map[int32]bool
	pr, pv       int64
}

func keysOf(l []Msg[int64, int64, int64]) string {
	var ks []string
	for _, m := range l {
		ks = append(ks, m.(*vmsg).key)
	}
	sort.Strings(ks)
	return strings.Join(ks, ",")
}

func asMsgs(a any) []Msg[int64, int64, int64] {
	if a == nil {
		return nil
	}
	l, _ := a.([]Msg[int64, int64, int64])
	return l
}

// canonState builds the canonical local state from a snapshot.
func canonState(r lresult) *lstate {
	s := &lstate{dedup: map[VerifDedup]bool{}, resends: map[int64]VerifResend{}, buf: map[int64][]*vmsg{}, top: map[int32]bool{}}
	if r.exited != "" {
		s.exited = r.exited
		s.key = fmt.Sprintf("m%d|EXITED:%s", r.proc, r.exited)
		return s
	}
	sn := r.snap
	s.round, s.pr = sn.Round, sn.PreparedRound
	s.pv, _ = sn.PreparedValue.(int64)
	s.timer, s.inputOpen = sn.TimerActive, sn.InputOpen
	qc := asMsgs(sn.QCommit)
	if len(qc) > 0 {
		s.decided = true
		s.dval, _ = sn.QCommitValue.(int64)
		s.dround = qc[0].Round()
	}
	var sb strings.Builder
	ppj := "nil"
	if l := asMsgs(sn.PpjCache); l != nil {
		ppj = "[" + keysOf(l) + "]"
	}
	fmt.Fprintf(&sb, "m%d|r%d|in%v/%v|ppj%s|p%d/%d|cf%d|pj[%s]|qc%d[%s]|t%v|", sn.Process, sn.Round, sn.InputValue, sn.InputOpen, ppj, sn.PreparedRound, s.pv,
		sn.CompareFailureRound, keysOf(asMsgs(sn.PreparedJustification)), s.dval, keysOf(qc), sn.TimerActive)
	buf, _ := sn.Buffer.(map[int64][]Msg[int64, int64, int64])
	var srcs []int64
	for k := range buf {
		srcs = append(srcs, k)
	}
	sort.Slice(srcs, func(i, j int) bool { return srcs[i] < srcs[j] })
	for _, src := range srcs {
		fmt.Fprintf(&sb, "b%d:", src)
		for _, m := range buf[src] {
			vm := m.(*vmsg)
			s.buf[src] = append(s.buf[src], vm)
			s.top[vm.id] = true
			s.flat = append(s.flat, vm)
			s.flat = append(s.flat, vm.just...)
			sb.WriteString(vm.key)
			sb.WriteByte(';')
		}
		sb.WriteByte('|')
	}
	var dd []string
	for _, d := range sn.DedupRules {
		s.dedup[d] = true
		dd = append(dd, fmt.Sprintf("%d@%d", d.Rule, d.Round))
	}
	sort.Strings(dd)
	var rs []string
	for _, d := range sn.DecidedResends {
		s.resends[d.Source] = d
		rs = append(rs, fmt.Sprintf("%d:%d/%d", d.Source, d.Round, d.Count))
	}
	sort.Strings(rs)
	fmt.Fprintf(&sb, "dd%s|rs%s", strings.Join(dd, ","), strings.Join(rs, ","))
	s.key = sb.String()
	return s
}

type ltrans struct {
	to      int32
	outputs []int32
	decides []decision
	nDec    int
	unjust  []int32
}

type lkey struct {
	proc  int8
	state int32
	ev    levent
}

// ---- the model checker ------------------------------------------------------------------------------------------

type gnode struct {
	parent int32
	proc   int8
	evs    int32 // index into evSeqs
	noise  int8
	depth  int16
}

type checker struct {
	tb      *testing.T
	r       *enumx.Run
	sc      *scenario
	tbl     *msgTable
	lstates []*lstate
	lindex  map[string]int32
	memo    map[lkey]*ltrans
	honest  []int64
	nodes   []gnode
	seen    map[[16]byte]struct{}
	evSeqs  [][]levent
	evIndex map[string]int32
	// statistics
	localExec, localXcheck, transitions int
	decidedStates                       int
	unjustHonest                        int
	maxDepth                            int
	outcomes                            map[string]bool
	props                               map[string]bool // which oracles to apply ("C02","C03","C04u")
	exits                               map[string]int
	dbg                                 map[string]int
	prefixState                         *gstate
}

func (c *checker) intern(s *lstate, hist []levent) *lstate {
	if id, ok := c.lindex[s.key]; ok {
		old := c.lstates[id]
		if old.hist2 == nil && len(hist) > 0 && fmt.Sprint(hist) != fmt.Sprint(old.hist) {
			old.hist2 = append([]levent(nil), hist...)
		}
		return old
	}
	s.id = int32(len(c.lstates))
	s.hist = append([]levent(nil), hist...)
	c.lstates = append(c.lstates, s)
	c.lindex[s.key] = s.id
	return s
}

func outsKey(l []*vmsg) string {
	var ks []string
	for _, m := range l {
		ks = append(ks, m.key)
	}
	return strings.Join(ks, ",")
}

// step computes (memoised) the local transition of member proc in local state st on event ev.
func (c *checker) step(proc int64, st int32, ev levent) *ltrans {
	k := lkey{int8(proc), st, ev}
	if t, ok := c.memo[k]; ok {
		return t
	}
	s := c.lstates[st]
	h := append(append([]levent(nil), s.hist...), ev)
	res := runLocal(c.tb, c.sc, c.tbl, proc, h)
	c.localExec++
	ns := c.intern(canonState(res), h)
	t := &ltrans{to: ns.id, decides: res.decides, nDec: res.nDecides}
	for _, m := range res.outputs {
		t.outputs = append(t.outputs, m.id)
	}
	for _, m := range res.unjust {
		t.unjust = append(t.unjust, m.id)
	}
	if res.exited != "" {
		c.exits[res.exited]++
	}
	// state-key completeness cross-check: the same event from a second history of the same local state
	if s.hist2 != nil {
		h2 := append(append([]levent(nil), s.hist2...), ev)
		res2 := runLocal(c.tb, c.sc, c.tbl, proc, h2)
		c.localXcheck++
		if canonState(res2).key != ns.key || outsKey(res2.outputs) != outsKey(res.outputs) {
			rd := func(h []levent) string {
				var o []string
				for _, e := range h {
					if e.kind == 'r' {
						o = append(o, c.tbl.all[e.arg].key)
					} else {
						o = append(o, e.String())
					}
				}
				return strings.Join(o, " ")
			}
			if os.Getenv("DBG_SC") != "" {
				fmt.Printf("INCOMPLETE member %d\n h1=%s\n h2=%s\n ev=%s\n key1=%s\n key2=%s\n out1=%s\n out2=%s\n", proc, rd(s.hist), rd(s.hist2), rd([]levent{ev}), ns.key, canonState(res2).key, outsKey(res.outputs), outsKey(res2.outputs))
			}
			c.r.Note(fmt.Sprintf("HARNESS: state key incomplete: member %d histories %v / %v diverge on %v", proc, s.hist, s.hist2, ev))
			c.r.Count("state_key_incomplete", 1)
		}
	}
	c.memo[k] = t
	return t
}

type gstate struct {
	local []int32 // per honest member (index into honest)
	pool  map[int32]bool
	noise int
}

func (c *checker) gkey(g *gstate) [16]byte {
	ids := make([]int, 0, len(g.pool))
	for id := range g.pool {
		ids = append(ids, int(id))
	}
	sort.Ints(ids)
	h := sha256.New()
	fmt.Fprint(h, g.local, ids, g.noise)
	var k [16]byte
	copy(k[:], h.Sum(nil))
	return k
}

func (c *checker) evSeq(evs []levent) int32 {
	k := fmt.Sprint(evs)
	if id, ok := c.evIndex[k]; ok {
		return id
	}
	id := int32(len(c.evSeqs))
	c.evSeqs = append(c.evSeqs, append([]levent(nil), evs...))
	c.evIndex[k] = id
	return id
}

// rebuild reconstructs the global state of node i by replaying the (memoised) path from the root.
func (c *checker) rebuild(i int32) *gstate {
	var path []int32
	for j := i; j > 0; j = c.nodes[j].parent {
		path = append(path, j)
	}
	g := c.cloneState(c.prefixState)
	for k := len(path) - 1; k >= 0; k-- {
		nd := c.nodes[path[k]]
		c.apply(g, int(nd.proc), c.evSeqs[nd.evs], nil)
		g.noise = int(nd.noise)
	}
	return g
}

func (c *checker) cloneState(g *gstate) *gstate {
	n := &gstate{local: append([]int32(nil), g.local...), pool: make(map[int32]bool, len(g.pool)), noise: g.noise}
	for id := range g.pool {
		n.pool[id] = true
	}
	return n
}

func (c *checker) initial() *gstate {
	g := &gstate{pool: map[int32]bool{}}
	for _, p := range c.honest {
		res := runLocal(c.tb, c.sc, c.tbl, p, nil)
		s := c.intern(canonState(res), nil)
		g.local = append(g.local, s.id)
	}
	// proposals are available from the start except for the members marked late
	for hi, p := range c.honest {
		if v, ok := c.sc.inputs[p]; ok && !c.sc.late[p] {
			c.applyOne(g, hi, []levent{{'i', int32(v)}}, nil)
		}
	}
	return g
}

type stepInfo struct {
	decides []decision
	nDec    int
	unjust  []int32
	proc    int64
}

// apply executes an event sequence at honest member index hi, updating g. Returns info about the steps.
func (c *checker) apply(g *gstate, gi int, evs []levent, info *[]stepInfo) {
	for _, hi := range c.sc.groups[gi] {
		c.applyOne(g, hi, evs, info)
	}
}

func (c *checker) applyOne(g *gstate, hi int, evs []levent, info *[]stepInfo) {
	p := c.honest[hi]
	if s := c.lstates[g.local[hi]]; s.exited != "" {
		return
	}
	for _, ev := range evs {
		cur := c.lstates[g.local[hi]]
		if cur.exited != "" {
			return
		}
		if ev.kind == 't' && (!cur.timer || cur.round >= c.sc.R) {
			continue
		}
		if ev.kind == 'i' {
			if v, ok := c.sc.inputs[p]; !ok || !cur.inputOpen || int32(v) != ev.arg {
				continue
			}
		}
		t := c.step(p, g.local[hi], ev)
		g.local[hi] = t.to
		for _, id := range t.outputs {
			g.pool[id] = true
		}
		if info != nil {
			*info = append(*info, stepInfo{t.decides, t.nDec, t.unjust, p})
		}
	}
}

// ---- adversary: messages a Byzantine coalition can construct from the pool ----------------------------------------------

func (c *checker) byzMessages(g *gstate) []*vmsg {
	sc := c.sc
	if len(sc.byz) == 0 {
		return nil
	}
	var out []*vmsg
	add := func(m *vmsg) { out = append(out, m) }
	q := sc.q()
	var pool []*vmsg
	for id := range g.pool {
		pool = append(pool, c.tbl.all[id])
	}
	sort.Slice(pool, func(i, j int) bool { return pool[i].key < pool[j].key })
	var bs []int64
	for b := range sc.byz {
		bs = append(bs, b)
	}
	sort.Slice(bs, func(i, j int) bool { return bs[i] < bs[j] })
	// one vote per source for (typ, round, val) available to the coalition: honest ones seen in the pool + its own
	votes := func(typ MsgType, round, val int64) []*vmsg {
		seen := map[int64]bool{}
		var l []*vmsg
		for _, b := range bs {
			l = append(l, c.tbl.mk(typ, b, round, val, 0, 0, nil))
			seen[b] = true
		}
		for _, m := range pool {
			if m.typ == typ && m.round == round && m.val == val && !seen[m.src] {
				seen[m.src] = true
				l = append(l, c.tbl.mk(typ, m.src, round, val, 0, 0, nil))
			}
		}
		return l
	}
	for _, b := range bs {
		for r := int64(1); r <= sc.R; r++ {
			for _, v := range sc.values {
				add(c.tbl.mk(MsgPrepare, b, r, v, 0, 0, nil))
				add(c.tbl.mk(MsgCommit, b, r, v, 0, 0, nil))
				if sc.leader(r) == b && r == 1 {
					add(c.tbl.mk(MsgPrePrepare, b, r, v, 0, 0, nil))
				}
				if sc.leader(r) == b && r == 1 && v == sc.values[0] && !sc.noForge {
					// the empty value, proposed and voted for by the coalition
					add(c.tbl.mk(MsgPrePrepare, b, r, 0, 0, 0, nil))
					add(c.tbl.mk(MsgPrepare, b, r, 0, 0, 0, nil))
					add(c.tbl.mk(MsgCommit, b, r, 0, 0, 0, nil))
				}
				if sc.leader(r) != b && r == 1 && v == sc.values[len(sc.values)-1] && !sc.noForge {
					add(c.tbl.mk(MsgPrePrepare, b, r, v, 0, 0, nil)) // proposal from a non-leader
				}
				// DECIDED from available commits: genuine quorum, and forgeries
				cv := votes(MsgCommit, r, v)
				if len(cv) >= q {
					add(c.tbl.mk(MsgDecided, b, r, v, 0, 0, cv[:q]))
				}
				if !sc.noForge {
					// commits of honest members only, for v, completed with the coalition's commit for another value
					var hon []*vmsg
					for _, m := range cv {
						if !sc.byz[m.src] {
							hon = append(hon, m)
						}
					}
					if len(hon) >= q-1 {
						for _, v2 := range sc.values {
							if v2 != v {
								add(c.tbl.mk(MsgDecided, b, r, v2, 0, 0, append(append([]*vmsg{}, hon[:q-1]...), c.tbl.mk(MsgCommit, b, r, v2, 0, 0, nil))))
							}
						}
					}
				}
				if len(cv) >= q-1 && q >= 2 && !sc.noForge {
					short := cv[:q-1]
					add(c.tbl.mk(MsgDecided, b, r, v, 0, 0, short))                                         // too few
					add(c.tbl.mk(MsgDecided, b, r, v, 0, 0, append(append([]*vmsg{}, short...), short[0]))) // padded with a duplicate
					for _, v2 := range sc.values {
						if v2 != v {
							add(c.tbl.mk(MsgDecided, b, r, v, 0, 0, append(append([]*vmsg{}, short...), c.tbl.mk(MsgCommit, b, r, v2, 0, 0, nil))))  // mixed values
							add(c.tbl.mk(MsgDecided, b, r, v2, 0, 0, append(append([]*vmsg{}, short...), c.tbl.mk(MsgCommit, b, r, v2, 0, 0, nil)))) // other value, commits mostly for v
							add(c.tbl.mk(MsgDecided, b, r, v, 0, 0, append(append([]*vmsg{}, short...), c.tbl.mk(MsgCommit, b, r+1, v, 0, 0, nil)))) // wrong round
							add(c.tbl.mk(MsgDecided, b, r, v, 0, 0, append(append([]*vmsg{}, short...), c.tbl.mk(MsgPrepare, b, r, v, 0, 0, nil))))  // wrong type
							break
						}
					}
				}
			}
		}
		// ROUND-CHANGE variants of b for rounds 2..R
		rcs := map[int64][]*vmsg{}
		for r := int64(2); r <= sc.R; r++ {
			rcs[r] = append(rcs[r], c.tbl.mk(MsgRoundChange, b, r, 0, 0, 0, nil))
			for pr := int64(1); pr < r; pr++ {
				for _, pv := range sc.values {
					pvs := votes(MsgPrepare, pr, pv)
					if len(pvs) >= q {
						rcs[r] = append(rcs[r], c.tbl.mk(MsgRoundChange, b, r, 0, pr, pv, pvs[:q]))
					}
					if len(pvs) >= q-1 && q >= 2 && !sc.noForge {
						short := pvs[:q-1]
						// forged prepared claims: too few, duplicate source, one prepare of another value, claim without certificate
						add(c.tbl.mk(MsgRoundChange, b, r, 0, pr, pv, short))
						add(c.tbl.mk(MsgRoundChange, b, r, 0, pr, pv, append(append([]*vmsg{}, short...), short[0])))
						for _, v2 := range sc.values {
							if v2 != pv {
								add(c.tbl.mk(MsgRoundChange, b, r, 0, pr, pv, append(append([]*vmsg{}, short...), c.tbl.mk(MsgPrepare, b, pr, v2, 0, 0, nil))))
								break
							}
						}
					}
					if pr == 1 && pv == sc.values[0] && !sc.noForge {
						add(c.tbl.mk(MsgRoundChange, b, r, 0, pr, pv, nil))
					}
				}
			}
			for _, m := range rcs[r] {
				add(m)
			}
		}
		// PRE-PREPARE of b as leader of round r>=2: from quorums of available ROUND-CHANGEs
		ppClass := map[string]bool{}
		for r := int64(2); r <= sc.R; r++ {
			if sc.leader(r) != b {
				continue
			}
			bySrc := map[int64][]*vmsg{}
			var srcs []int64
			for _, m := range pool {
				if m.typ == MsgRoundChange && m.round == r && !sc.byz[m.src] {
					if len(bySrc[m.src]) == 0 {
						srcs = append(srcs, m.src)
					}
					bySrc[m.src] = append(bySrc[m.src], m)
				}
			}
			for _, ob := range bs {
				bySrc[ob] = rcs[r]
				if ob != b {
					bySrc[ob] = []*vmsg{c.tbl.mk(MsgRoundChange, ob, r, 0, 0, 0, nil)}
				}
				srcs = append(srcs, ob)
			}
			sort.Slice(srcs, func(i, j int) bool { return srcs[i] < srcs[j] })
			for _, size := range []int{q, q - 1} {
				if size < 1 || (size < q && sc.noForge) {
					continue
				}
				for _, subset := range subsets(len(srcs), size) {
					// one RC variant per chosen source: all combinations, capped
					combos := [][]*vmsg{{}}
					for _, si := range subset {
						var nx [][]*vmsg
						for _, cb := range combos {
							for _, m := range bySrc[srcs[si]] {
								if len(nx) < 24 {
									nx = append(nx, append(append([]*vmsg{}, cb...), m))
								}
							}
						}
						combos = nx
					}
					for _, qrc := range combos {
						// highest prepared among the chosen round changes
						var hp *vmsg
						for _, m := range qrc {
							if m.pr > 0 && (hp == nil || m.pr > hp.pr) {
								hp = m
							}
						}
						just := append([]*vmsg{}, qrc...)
						if hp != nil {
							just = append(just, hp.just...)
						}
						// One representative per class (size of the ROUND-CHANGE set, highest prepared round/value it
						// exhibits, whether that claim carries a certificate): which honest ROUND-CHANGEs the leader
						// includes only matters through the prepared value it thereby exhibits or hides.
						cls := fmt.Sprintf("r%d/n%d", r, len(qrc))
						if hp != nil {
							cls += fmt.Sprintf("/hp%d.%d/j%d", hp.pr, hp.pv, len(hp.just))
						}
						if ppClass[cls] {
							continue
						}
						ppClass[cls] = true
						for _, v := range sc.values {
							// includes proposals that ignore the highest prepared value: they must be rejected
							add(c.tbl.mk(MsgPrePrepare, b, r, v, 0, 0, just))
						}
						if !sc.noForge {
							// the empty value proposed in a later round on a genuine justification, with the coalition's votes for it
							add(c.tbl.mk(MsgPrePrepare, b, r, 0, 0, 0, just))
							add(c.tbl.mk(MsgPrepare, b, r, 0, 0, 0, nil))
							add(c.tbl.mk(MsgCommit, b, r, 0, 0, 0, nil))
						}
						if !sc.noForge && hp != nil {
							// stale prepared claim: the certificate of a ROUND-CHANGE that is NOT the highest prepared one of the
							// set, with that ROUND-CHANGE placed first and last (the sender chooses the order of a justification)
							for _, m := range qrc {
								if m.pr == 0 || m.pr >= hp.pr || len(m.just) == 0 {
									continue
								}
								cl2 := fmt.Sprintf("stale/r%d/n%d/%d.%d<%d", r, len(qrc), m.pr, m.pv, hp.pr)
								if ppClass[cl2] {
									continue
								}
								ppClass[cl2] = true
								var rest []*vmsg
								for _, o := range qrc {
									if o != m {
										rest = append(rest, o)
									}
								}
								first := append(append([]*vmsg{m}, rest...), m.just...)
								last := append(append(append([]*vmsg{}, rest...), m), m.just...)
								add(c.tbl.mkOrd(MsgPrePrepare, b, r, m.pv, 0, 0, first, true))
								add(c.tbl.mkOrd(MsgPrePrepare, b, r, m.pv, 0, 0, last, true))
							}
						}
					}
				}
			}
		}
	}
	// dedupe
	seen := map[int32]bool{}
	var res []*vmsg
	for _, m := range out {
		if !seen[m.id] {
			seen[m.id] = true
			res = append(res, m)
		}
	}
	return res
}

// partitions returns all partitions of {0..n-1} into at most maxG non-empty groups (as lists of index lists).
func partitions(n, maxG int) [][][]int {
	var out [][][]int
	var rec func(i int, cur [][]int)
	rec = func(i int, cur [][]int) {
		if i == n {
			cp := make([][]int, len(cur))
			for k := range cur {
				cp[k] = append([]int(nil), cur[k]...)
			}
			out = append(out, cp)
			return
		}
		for k := range cur {
			cur[k] = append(cur[k], i)
			rec(i+1, cur)
			cur[k] = cur[k][:len(cur[k])-1]
		}
		if len(cur) < maxG {
			rec(i+1, append(cur, []int{i}))
		}
	}
	rec(0, nil)
	return out
}

func subsets(n, k int) [][]int {
	var out [][]int
	var rec func(start int, cur []int)
	rec = func(start int, cur []int) {
		if len(cur) == k {
			out = append(out, append([]int(nil), cur...))
			return
		}
		for i := start; i < n; i++ {
			rec(i+1, append(cur, i))
		}
	}
	if k >= 0 && k <= n {
		rec(0, nil)
	}
	return out
}

// ---- menu ----------------------------------------------------------------------------------------------------------

type gevent struct {
	hi    int
	evs   []levent
	noise bool
}

func srcsOf(l []*vmsg, pred func(*vmsg) bool) map[int64]bool {
	s := map[int64]bool{}
	for _, m := range l {
		if pred(m) {
			s[m.src] = true
		}
	}
	return s
}

// enablingSets: choose need sources out of the candidate messages grouped by source (one message per source,
// every variant), all subsets when all is set, else the canonical (lowest sources) subset.
func enablingSets(cands map[int64][]*vmsg, need int, all bool, capN int) [][]*vmsg {
	var srcs []int64
	for s := range cands {
		srcs = append(srcs, s)
	}
	sort.Slice(srcs, func(i, j int) bool { return srcs[i] < srcs[j] })
	if need <= 0 || need > len(srcs) {
		return nil
	}
	subs := subsets(len(srcs), need)
	if !all && len(subs) > 2 {
		subs = [][]int{subs[0], subs[len(subs)-1]}
	}
	var out [][]*vmsg
	for _, sub := range subs {
		combos := [][]*vmsg{{}}
		for _, si := range sub {
			var nx [][]*vmsg
			for _, cb := range combos {
				for _, m := range cands[srcs[si]] {
					nx = append(nx, append(append([]*vmsg{}, cb...), m))
				}
			}
			combos = nx
		}
		for _, cb := range combos {
			if len(out) < capN {
				out = append(out, cb)
			}
		}
	}
	return out
}

func recvEvents(ms []*vmsg) []levent {
	var evs []levent
	for _, m := range ms {
		evs = append(evs, levent{'r', m.id})
	}
	return evs
}

func (c *checker) menu(g *gstate) []gevent {
	raw := c.memberMenu(g)
	groupOf := map[int]int{}
	for gi, ms := range c.sc.groups {
		for _, hi := range ms {
			groupOf[hi] = gi
		}
	}
	seen := map[string]bool{}
	var out []gevent
	for _, ev := range raw {
		ev.hi = groupOf[ev.hi]
		k := fmt.Sprint(ev.hi, ev.evs, ev.noise)
		if !seen[k] {
			seen[k] = true
			out = append(out, ev)
		}
	}
	return out
}

// memberMenu lists, per honest member, the events that can make that member fire a rule (plus noise).
func (c *checker) memberMenu(g *gstate) []gevent {
	sc := c.sc
	var out []gevent
	avail := c.byzMessages(g)
	for id := range g.pool {
		avail = append(avail, c.tbl.all[id])
	}
	sort.Slice(avail, func(i, j int) bool { return avail[i].id < avail[j].id })
	allDecided := true
	for hi := range c.honest {
		if s := c.lstates[g.local[hi]]; !s.decided && s.exited == "" {
			allDecided = false
		}
	}
	q, f := sc.implQ(), sc.implF()
	if sq := sc.q(); sq < q {
		q = sq // never withhold what the specification's quorum would enable
	}
	for hi, p := range c.honest {
		s := c.lstates[g.local[hi]]
		if s.exited != "" {
			continue
		}
		if s.decided {
			if allDecided {
				continue
			}
			// decided members answer ROUND-CHANGEs of others with DECIDED; the answer is the same message whatever
			// ROUND-CHANGE triggers it, so one trigger is offered while the answer is not yet in the pool.
			have := false
			for id := range g.pool {
				if m := c.tbl.all[id]; m.typ == MsgDecided && m.src == p {
					have = true
				}
			}
			for _, m := range avail {
				if m.typ == MsgDecided && m.src != p {
					out = append(out, gevent{hi: hi, evs: []levent{{'r', m.id}}})
				}
			}
			if !have {
				for _, m := range avail {
					if m.typ == MsgRoundChange && m.src != p && m.round > s.resends[m.src].Round && s.resends[m.src].Count < maxDecidedResends {
						out = append(out, gevent{hi: hi, evs: []levent{{'r', m.id}}})
						break
					}
				}
			}
			continue
		}
		if s.inputOpen && sc.late[p] {
			if v, ok := sc.inputs[p]; ok {
				out = append(out, gevent{hi: hi, evs: []levent{{'i', int32(v)}}})
			}
		}
		if s.timer && s.round < sc.R {
			out = append(out, gevent{hi: hi, evs: []levent{{'t', 0}}})
		}
		fired := func(rule UponRule, round int64) bool { return s.dedup[VerifDedup{rule, round}] }
		for _, m := range avail {
			switch m.typ {
			case MsgPrePrepare:
				if m.round >= s.round && !s.top[m.id] {
					out = append(out, gevent{hi: hi, evs: []levent{{'r', m.id}}})
				}
			case MsgDecided:
				out = append(out, gevent{hi: hi, evs: []levent{{'r', m.id}}})
			}
		}
		// quorum PREPARE / COMMIT of the current round
		for _, tr := range []struct {
			typ  MsgType
			rule UponRule
		}{{MsgPrepare, UponQuorumPrepares}, {MsgCommit, UponQuorumCommits}} {
			if fired(tr.rule, s.round) {
				continue
			}
			vals := map[int64]bool{}
			for _, m := range avail {
				if m.typ == tr.typ && m.round == s.round {
					vals[m.val] = true
				}
			}
			var vl []int64
			for v := range vals {
				vl = append(vl, v)
			}
			sort.Slice(vl, func(i, j int) bool { return vl[i] < vl[j] })
			for _, v := range vl {
				have := srcsOf(s.flat, func(m *vmsg) bool { return m.typ == tr.typ && m.round == s.round && m.val == v })
				cands := map[int64][]*vmsg{}
				var anyOne *vmsg
				for _, m := range avail {
					if m.typ == tr.typ && m.round == s.round && m.val == v {
						anyOne = m
						if !have[m.src] {
							cands[m.src] = []*vmsg{m}
						}
					}
				}
				need := q - len(have)
				if need <= 0 && anyOne != nil {
					out = append(out, gevent{hi: hi, evs: []levent{{'r', anyOne.id}}})
					continue
				}
				for _, set := range enablingSets(cands, need, sc.allSub, 64) {
					out = append(out, gevent{hi: hi, evs: recvEvents(set)})
				}
			}
		}
		// f+1 ROUND-CHANGEs of higher rounds: jump
		{
			have := srcsOf(s.flat, func(m *vmsg) bool { return m.typ == MsgRoundChange && m.round > s.round })
			cands := map[int64][]*vmsg{}
			for _, m := range avail {
				if m.typ == MsgRoundChange && m.round > s.round && m.round <= sc.R && !have[m.src] && !s.top[m.id] {
					cands[m.src] = append(cands[m.src], m)
				}
			}
			for _, set := range enablingSets(cands, f+1-len(have), sc.allSub, 64) {
				out = append(out, gevent{hi: hi, evs: recvEvents(set)})
			}
		}
		// quorum ROUND-CHANGEs of the current round at its leader
		if s.round > 1 && sc.leader(s.round) == p && !fired(UponQuorumRoundChanges, s.round) {
			have := srcsOf(s.flat, func(m *vmsg) bool { return m.typ == MsgRoundChange && m.round == s.round })
			cands := map[int64][]*vmsg{}
			var anyOne *vmsg
			for _, m := range avail {
				if m.typ == MsgRoundChange && m.round == s.round {
					anyOne = m
					if !have[m.src] && !s.top[m.id] {
						cands[m.src] = append(cands[m.src], m)
					}
				}
			}
			need := q - len(have)
			if need <= 0 && anyOne != nil {
				out = append(out, gevent{hi: hi, evs: []levent{{'r', anyOne.id}}})
			}
			for _, set := range enablingSets(cands, need, sc.allSub, 64) {
				out = append(out, gevent{hi: hi, evs: recvEvents(set)})
			}
		}
		// noise: any single available message (duplicates, stale rounds, votes beyond a fired quorum, forgeries)
		if g.noise < sc.noise {
			for _, m := range avail {
				out = append(out, gevent{hi: hi, evs: []levent{{'r', m.id}}, noise: true})
			}
		}
	}
	return out
}

// ---- search ----------------------------------------------------------------------------------------------------------

type c02replay struct {
	Scenario string   `json:"scenario"`
	Trace    []string `json:"trace"`
}

func (c *checker) trace(i int32, extra string) []string {
	var path []int32
	for j := i; j > 0; j = c.nodes[j].parent {
		path = append(path, j)
	}
	var tr []string
	for k := len(path) - 1; k >= 0; k-- {
		nd := c.nodes[path[k]]
		tr = append(tr, c.evString(int(nd.proc), c.evSeqs[nd.evs]))
	}
	if extra != "" {
		tr = append(tr, extra)
	}
	return tr
}

func (c *checker) evString(hi int, evs []levent) string {
	var parts []string
	for _, e := range evs {
		switch e.kind {
		case 'r':
			parts = append(parts, "recv "+c.tbl.all[e.arg].key)
		case 't':
			parts = append(parts, "timeout")
		case 'i':
			parts = append(parts, fmt.Sprintf("input %d", e.arg))
		}
	}
	var ms []string
	for _, m := range c.sc.groups[hi] {
		ms = append(ms, fmt.Sprint(c.honest[m]))
	}
	return fmt.Sprintf("members{%s}: %s", strings.Join(ms, ","), strings.Join(parts, " ; "))
}

func (c *checker) violation(prop, sig, desc string, parent int32, hi int, evs []levent) {
	tr := c.trace(parent, c.evString(hi, evs))
	if !c.props[prop] {
		return
	}
	c.r.Violation(fmt.Sprintf("%s scenario=%s", sig, c.sc.name), fmt.Sprintf("%s [scenario %s, %d steps] trace: %s", desc, c.sc.name, len(tr), strings.Join(tr, " | ")),
		c02replay{Scenario: c.sc.name, Trace: tr})
}

// check evaluates the oracles after a transition.
func (c *checker) check(g *gstate, info []stepInfo, parent int32, hi int, evs []levent) {
	sc := c.sc
	q := sc.q()
	// C03: per transition
	for _, si := range info {
		if si.nDec > 1 && len(si.decides) > 0 {
			c.violation("C03", "kind=decided-twice", fmt.Sprintf("member %d called Decide %d times", si.proc, si.nDec), parent, hi, evs)
		}
		for _, d := range si.decides {
			if d.val == 0 {
				c.violation("C03", "kind=decided-empty-value", fmt.Sprintf("member %d decided the zero value", si.proc), parent, hi, evs)
			}
			srcs := map[int64]bool{}
			okQC := true
			for _, m := range d.qc {
				if m.typ != MsgCommit || m.round != d.round || m.val != d.val || srcs[m.src] {
					okQC = false
				}
				srcs[m.src] = true
			}
			if !okQC || len(srcs) < q {
				c.violation("C03", "kind=decision-without-commit-quorum", fmt.Sprintf("member %d decided v=%d r=%d backed by %s (quorum %d)", si.proc, d.val, d.round, outsKey(d.qc), q), parent, hi, evs)
			}
			// proposed by the leader of some round
			found := false
			all := c.byzMessages(g)
			for id := range g.pool {
				all = append(all, c.tbl.all[id])
			}
			for _, m := range all {
				if m.typ == MsgPrePrepare && m.val == d.val && m.src == sc.leader(m.round) {
					found = true
				}
			}
			if !found {
				c.violation("C03", "kind=decided-value-never-proposed-by-a-leader", fmt.Sprintf("member %d decided v=%d which no round leader proposed", si.proc, d.val), parent, hi, evs)
			}
			if len(sc.byz) == 0 {
				own := false
				for _, v := range sc.inputs {
					if v == d.val {
						own = true
					}
				}
				if !own {
					c.violation("C03", "kind=decided-value-not-an-input", fmt.Sprintf("member %d decided v=%d which is nobody's input", si.proc, d.val), parent, hi, evs)
				}
			}
		}
		if len(sc.byz) == 0 {
			for _, id := range si.unjust {
				c.unjustHonest++
				m := c.tbl.all[id]
				sig := "kind=honest-message-rejected-as-unjustified"
				if m.typ == MsgPrePrepare && m.round > 1 {
					// the leader's own Compare callback refused the value its justification exhibits as prepared: it proposes
					// its own input instead (qbft.Run, UponQuorumRoundChanges: compareFailureRound == pr)
					var hpr, hpv int64
					for _, j := range m.just {
						if j.typ == MsgRoundChange && j.round == m.round && j.pr > hpr {
							hpr, hpv = j.pr, j.pv
						}
					}
					if hpr > 0 && m.val != hpv && sc.reject[m.src][hpv] {
						sig += " cause=leader-refused-the-prepared-value-in-compare-and-proposed-its-own"
					}
				}
				c.violation("C04u", sig, fmt.Sprintf("member %d rejected %s, sent by an honest member, as unjustified", si.proc, m.key), parent, hi, evs)
			}
		}
	}
	// C02: agreement in the global state
	var dv int64
	var who int64 = -1
	nd := 0
	for i, p := range c.honest {
		s := c.lstates[g.local[i]]
		if !s.decided {
			continue
		}
		nd++
		if who >= 0 && s.dval != dv {
			c.violation("C02", "kind=disagreement", fmt.Sprintf("member %d decided %d but member %d decided %d", who, dv, p, s.dval), parent, hi, evs)
		}
		dv, who = s.dval, p
	}
	if nd > 0 {
		c.decidedStates++
		c.outcomes[fmt.Sprintf("%s:decided=%d:v=%d", sc.name, nd, dv)] = true
	}
}

func (c *checker) explore(deadline time.Time) (exhaustive bool) {
	g0 := c.initial()
	for si, st := range c.sc.prefix {
		hi := -1
		for i, p := range c.honest {
			if p == st.m {
				hi = i
			}
		}
		var evs []levent
		if st.timeout {
			evs = []levent{{'t', 0}}
		} else {
			avail := c.byzMessages(g0)
			for id := range g0.pool {
				avail = append(avail, c.tbl.all[id])
			}
			sort.Slice(avail, func(i, j int) bool { return avail[i].id < avail[j].id })
			for _, sel := range st.msgs {
				var found *vmsg
				for _, m := range avail {
					if m.typ == sel.typ && m.src == sel.src && m.round == sel.round && m.val == sel.val && !strings.HasPrefix(m.key, "ord:") {
						found = m
						break
					}
				}
				if found == nil {
					c.r.Note(fmt.Sprintf("scenario %s: scripted prefix not applicable at step %d (the tree behaves differently there); scenario skipped", c.sc.name, si))
					return true
				}
				evs = append(evs, levent{'r', found.id})
			}
		}
		if hi < 0 {
			return true
		}
		c.applyOne(g0, hi, evs, nil)
	}
	c.prefixState = g0
	c.nodes = append(c.nodes, gnode{parent: -1})
	c.seen[c.gkey(g0)] = struct{}{}
	frontier := []int32{0}
	for len(frontier) > 0 {
		var next []int32
		for _, ni := range frontier {
			if time.Now().After(deadline) {
				c.r.Note(fmt.Sprintf("scenario %s: stopped by budget at depth %d with %d states; all shallower levels are complete", c.sc.name, c.nodes[ni].depth, len(c.nodes)))
				return false
			}
			if len(c.nodes) >= c.sc.capSt {
				c.r.Note(fmt.Sprintf("scenario %s: state cap %d reached at depth %d; all shallower levels are complete", c.sc.name, c.sc.capSt, c.nodes[ni].depth))
				return false
			}
			g := c.rebuild(ni)
			for _, ev := range c.menu(g) {
				g2 := &gstate{local: append([]int32(nil), g.local...), pool: make(map[int32]bool, len(g.pool)+4), noise: g.noise}
				for id := range g.pool {
					g2.pool[id] = true
				}
				if ev.noise {
					g2.noise++
				}
				var info []stepInfo
				c.apply(g2, ev.hi, ev.evs, &info)
				c.transitions++
				c.check(g2, info, ni, ev.hi, ev.evs)
				k := c.gkey(g2)
				if _, ok := c.seen[k]; ok {
					continue
				}
				c.seen[k] = struct{}{}
				if os.Getenv("DBG_SC") != "" {
					kind := "?"
					e0 := ev.evs[0]
					switch e0.kind {
					case 'r':
						m := c.tbl.all[e0.arg]
						kind = fmt.Sprintf("%s.r%d.x%d.byz%v.noise%v", tnames[m.typ], m.round, len(ev.evs), c.sc.byz[m.src], ev.noise)
					default:
						kind = string(e0.kind)
					}
					c.dbg[kind]++
				}
				d := c.nodes[ni].depth + 1
				if int(d) > c.maxDepth {
					c.maxDepth = int(d)
				}
				c.nodes = append(c.nodes, gnode{parent: ni, proc: int8(ev.hi), evs: c.evSeq(ev.evs), noise: int8(g2.noise), depth: d})
				next = append(next, int32(len(c.nodes)-1))
			}
		}
		frontier = next
	}
	return true
}

func c02scenarios() []*scenario {
	th := enumx.Thorough()
	capSt := 400000
	if th {
		capSt = 6000000
	}
	var scs []*scenario
	type opt struct {
		noForge bool
		noise   int
		parts   [][][]int // nil = all partitions into <= maxGroups groups
		rot     int
		reject  map[int64]map[int64]bool
	}
	add := func(name string, n int, byz []int64, inputs map[int64]int64, values []int64, R int64, o opt) {
		b := map[int64]bool{}
		for _, x := range byz {
			b[x] = true
			delete(inputs, x)
		}
		nh := n - len(b)
		parts := o.parts
		if parts == nil {
			parts = partitions(nh, 2)
		}
		for _, part := range parts {
			in2 := map[int64]int64{}
			for k, v := range inputs {
				in2[k] = v
			}
			nm := fmt.Sprintf("%s/groups=%v", name, part)
			if o.rot > 0 {
				nm += fmt.Sprintf("/maprot=%d", o.rot)
			}
			scs = append(scs, &scenario{name: nm, base: name, n: n, byz: b, inputs: in2, values: values, R: R, noise: o.noise, capSt: capSt,
				allSub: th && n <= 4 && len(part) == 1, groups: part, noForge: o.noForge, maprot: o.rot, reject: o.reject})
		}
	}
	in3 := func() map[int64]int64 { return map[int64]int64{0: 1, 1: 2, 2: 3} }
	in4 := func() map[int64]int64 { return map[int64]int64{0: 1, 1: 2, 2: 3, 3: 4} }
	in4b := func() map[int64]int64 { return map[int64]int64{0: 1, 1: 1, 2: 1, 3: 2} }
	v12 := []int64{1, 2}
	// Byzantine leader of round 1 / round 2 / non-leader, n=4 (members 0..3, leader(r) = (r-1) mod n)
	add("n4-byz-leader1-R1-forge", 4, []int64{0}, in4b(), v12, 1, opt{})
	add("n4-byz-nonleader-R1-forge", 4, []int64{3}, in4b(), v12, 1, opt{})
	add("n4-byz-leader2-R2-strategy", 4, []int64{1}, in4b(), v12, 2, opt{noForge: true})
	add("n4-byz-leader1-R2-strategy", 4, []int64{0}, in4b(), v12, 2, opt{noForge: true})
	add("n4-distinct-R2", 4, nil, in4(), nil, 2, opt{})
	add("n3-distinct-R2", 3, nil, in3(), nil, 2, opt{})
	add("n4-byz-nonleader-R2-strategy", 4, []int64{3}, in4b(), v12, 2, opt{noForge: true})
	add("n4-byz-leader2-R2-forge", 4, []int64{1}, in4b(), v12, 2, opt{parts: [][][]int{{{0, 1, 2}}, {{0}, {1, 2}}}})
	{
		// Staged start (reached by a scripted real execution): round 1 left exactly one member prepared on A, round 2's
		// honest leader proposed its own value B, a second member decided B, the others timed out into round 3 whose
		// leader is Byzantine. Every member behaves differently: three groups.
		A, B := int64(1), int64(2)
		pp1 := msel{MsgPrePrepare, 0, 1, A}
		pre := func(src int64) msel { return msel{MsgPrepare, src, 1, A} }
		rc2 := func(src int64) msel { return msel{MsgRoundChange, src, 2, 0} }
		pp2 := msel{MsgPrePrepare, 1, 2, B}
		p2 := func(src int64) msel { return msel{MsgPrepare, src, 2, B} }
		c2 := func(src int64) msel { return msel{MsgCommit, src, 2, B} }
		pfx := []pstep{
			{m: 0, msgs: []msel{pp1}}, {m: 1, msgs: []msel{pp1}}, {m: 3, msgs: []msel{pp1}},
			{m: 3, msgs: []msel{pre(0), pre(1), pre(3)}},
			{m: 0, timeout: true}, {m: 1, timeout: true}, {m: 3, timeout: true},
			{m: 1, msgs: []msel{rc2(0), rc2(1), rc2(2)}},
			{m: 0, msgs: []msel{pp2}}, {m: 1, msgs: []msel{pp2}},
			{m: 0, msgs: []msel{p2(0), p2(1), p2(2)}}, {m: 1, msgs: []msel{p2(0), p2(1), p2(2)}},
			{m: 1, msgs: []msel{c2(0), c2(1), c2(2)}},
			{m: 0, timeout: true}, {m: 3, timeout: true},
		}
		before := len(scs)
		add("n4-staged-one-prepared-A-one-decided-B-byz-leader3-R3-forge", 4, []int64{2}, map[int64]int64{0: 1, 1: 2, 3: 3}, v12, 3, opt{parts: [][][]int{{{0}, {1}, {2}}}})
		for _, sc := range scs[before:] {
			sc.prefix = pfx
		}
	}
	{
		// Staged: round 1 (honest leader 0, value A): everybody prepared A; in variant "decided" member 3 also decided A.
		// All others timed out into round 2, whose leader (member 1) is Byzantine.
		A := int64(1)
		pp1 := msel{MsgPrePrepare, 0, 1, A}
		pre := func(src int64) msel { return msel{MsgPrepare, src, 1, A} }
		com := func(src int64) msel { return msel{MsgCommit, src, 1, A} }
		base := []pstep{
			{m: 0, msgs: []msel{pp1}}, {m: 2, msgs: []msel{pp1}}, {m: 3, msgs: []msel{pp1}},
			{m: 0, msgs: []msel{pre(0), pre(2), pre(3)}}, {m: 2, msgs: []msel{pre(0), pre(2), pre(3)}}, {m: 3, msgs: []msel{pre(0), pre(2), pre(3)}},
		}
		decided := append(append([]pstep{}, base...), pstep{m: 3, msgs: []msel{com(0), com(2), com(3)}}, pstep{m: 0, timeout: true}, pstep{m: 2, timeout: true})
		undecided := append(append([]pstep{}, base...), pstep{m: 0, timeout: true}, pstep{m: 2, timeout: true}, pstep{m: 3, timeout: true})
		for name, pfx := range map[string][]pstep{"n4-staged-all-prepared-A-one-decided-byz-leader2-R2-forge": decided, "n4-staged-all-prepared-A-byz-leader2-R3-forge": undecided} {
			before := len(scs)
			R := int64(2)
			parts := [][][]int{{{0, 1}, {2}}, {{0}, {1}, {2}}}
			if strings.Contains(name, "R3") {
				R = 3
				parts = [][][]int{{{0, 1, 2}}, {{0}, {1, 2}}}
			}
			add(name, 4, []int64{1}, map[int64]int64{0: 1, 2: 2, 3: 2}, v12, R, opt{parts: parts})
			for _, sc := range scs[before:] {
				sc.prefix = pfx
			}
		}
	}
	{
		// Staged, no Byzantine member - behaviour AFTER a decision (round four of the independent changes, C04/a: a member that
		// had moved past the decided round, decided from a peer's DECIDED and then answered a second lagger): round 1
		// (leader 0, value A) ends with member 0 deciding A from a COMMIT quorum while the others time out into round 2
		// before they see the commits - in variant "late3" member 3 has seen nothing at all. Members decide by different
		// routes (COMMIT quorum, a peer's DECIDED, in different rounds) and then answer the remaining laggers' ROUND-CHANGEs,
		// so every member behaves on its own: four groups.
		A := int64(1)
		pp1 := msel{MsgPrePrepare, 0, 1, A}
		pre := func(src int64) msel { return msel{MsgPrepare, src, 1, A} }
		com := func(src int64) msel { return msel{MsgCommit, src, 1, A} }
		all := []pstep{
			{m: 0, msgs: []msel{pp1}}, {m: 1, msgs: []msel{pp1}}, {m: 2, msgs: []msel{pp1}}, {m: 3, msgs: []msel{pp1}},
			{m: 0, msgs: []msel{pre(0), pre(1), pre(2)}}, {m: 1, msgs: []msel{pre(0), pre(1), pre(2)}}, {m: 2, msgs: []msel{pre(0), pre(1), pre(2)}}, {m: 3, msgs: []msel{pre(0), pre(1), pre(2)}},
			{m: 0, msgs: []msel{com(0), com(1), com(2)}},
			{m: 1, timeout: true}, {m: 2, timeout: true}, {m: 3, timeout: true},
		}
		late3 := []pstep{
			{m: 0, msgs: []msel{pp1}}, {m: 1, msgs: []msel{pp1}}, {m: 2, msgs: []msel{pp1}},
			{m: 0, msgs: []msel{pre(0), pre(1), pre(2)}}, {m: 1, msgs: []msel{pre(0), pre(1), pre(2)}}, {m: 2, msgs: []msel{pre(0), pre(1), pre(2)}},
			{m: 0, msgs: []msel{com(0), com(1), com(2)}},
			{m: 1, timeout: true}, {m: 2, timeout: true}, {m: 3, timeout: true},
		}
		for name, pfx := range map[string][]pstep{"n4-staged-one-decided-three-laggers-R3": all, "n4-staged-one-decided-three-laggers-late3-R3": late3} {
			before := len(scs)
			add(name, 4, nil, in4(), nil, 3, opt{parts: [][][]int{{{0}, {1}, {2}, {3}}}})
			for _, sc := range scs[before:] {
				sc.prefix = pfx
			}
		}
	}
	{
		// The Compare callback (attestation comparison, feature ChainSplitHalt) REFUSING a leader's value: the member does not
		// prepare, remembers the round (compareFailureRound), accepts the next round's PRE-PREPARE without justification and,
		// as a leader, proposes its own value even if a prepared value is exhibited. Which values a member refuses is a pure
		// function of (member, value), fixed per scenario.
		rej := func(m int64, vals ...int64) map[int64]map[int64]bool {
			r := map[int64]map[int64]bool{m: {}}
			for _, v := range vals {
				r[m][v] = true
			}
			return r
		}
		add("n4-cmp-leader2-refuses-A-R3", 4, nil, in4(), nil, 3, opt{reject: rej(1, 1)})
		add("n4-cmp-nonleader-refuses-A-R2", 4, nil, in4(), nil, 2, opt{reject: rej(3, 1)})
		add("n4-cmp-refuses-A-byz-leader2-R2-forge", 4, []int64{1}, in4b(), v12, 2, opt{reject: rej(3, 1), parts: [][][]int{{{0, 1, 2}}, {{0}, {1, 2}}, {{0, 1}, {2}}}})
		add("n4-cmp-refuses-A-byz-leader2-R2-strategy", 4, []int64{1}, in4b(), v12, 2, opt{noForge: true, reject: rej(3, 1)})
		add("n4-cmp-refuses-A-byz-leader1-R2-strategy", 4, []int64{0}, in4b(), v12, 2, opt{noForge: true, reject: rej(2, 1)})
	}
	// n=5 and n=6: the sizes at which quorum (ceil(2n/3) = 4) and 2f+1 (= 3) DIFFER - for n=4 and n=7 they coincide, so a
	// threshold written as 2f+1 instead of the quorum is invisible there. A Byzantine leader of round 1 that equivocates
	// (A to a majority, B to a minority) and forges; three honest behaviours: one member that sees the commits, the rest of the
	// majority, the minority.
	add("n6-byz-leader1-R2-forge", 6, []int64{0}, map[int64]int64{1: 1, 2: 1, 3: 1, 4: 2, 5: 2}, v12, 2, opt{parts: [][][]int{{{0}, {1, 2}, {3, 4}}}})
	add("n5-byz-leader1-R2-forge", 5, []int64{0}, map[int64]int64{1: 1, 2: 1, 3: 2, 4: 2}, v12, 2, opt{parts: [][][]int{{{0}, {1}, {2, 3}}}})
	{
		// Staged, n=6 (quorum 4, 2f+1 = 3): the Byzantine leader of round 1 (member 0) equivocated - A to members 1-3, B to members
		// 4-5; A was prepared by 1-3, member 2 alone saw the COMMIT quorum (with the Byzantine vote) and decided A; the others
		// timed out into round 2, whose leader (member 1) is honest. Only THREE PREPAREs for B exist (4, 5 and the Byzantine
		// member's): a prepared claim for B is one short of a certificate. Every member behaves on its own: four groups.
		A, B := int64(1), int64(2)
		ppA, ppB := msel{MsgPrePrepare, 0, 1, A}, msel{MsgPrePrepare, 0, 1, B}
		preA := func(src int64) msel { return msel{MsgPrepare, src, 1, A} }
		comA := func(src int64) msel { return msel{MsgCommit, src, 1, A} }
		pfx := []pstep{
			{m: 1, msgs: []msel{ppA}}, {m: 2, msgs: []msel{ppA}}, {m: 3, msgs: []msel{ppA}}, {m: 4, msgs: []msel{ppB}}, {m: 5, msgs: []msel{ppB}},
			{m: 1, msgs: []msel{preA(0), preA(1), preA(2), preA(3)}}, {m: 2, msgs: []msel{preA(0), preA(1), preA(2), preA(3)}}, {m: 3, msgs: []msel{preA(0), preA(1), preA(2), preA(3)}},
			{m: 2, msgs: []msel{comA(0), comA(1), comA(2), comA(3)}},
			{m: 1, timeout: true}, {m: 3, timeout: true}, {m: 4, timeout: true}, {m: 5, timeout: true},
		}
		before := len(scs)
		add("n6-staged-equivocation-A-decided-by-one-B-one-short-byz-leader1-R2-forge", 6, []int64{0}, map[int64]int64{1: 1, 2: 1, 3: 1, 4: 2, 5: 2}, v12, 2,
			opt{parts: [][][]int{{{0}, {1}, {2}, {3, 4}}}})
		for _, sc := range scs[before:] {
			sc.prefix = pfx
		}
	}
	add("n4-one-without-input-R2", 4, nil, map[int64]int64{1: 2, 2: 3, 3: 4}, nil, 2, opt{})
	add("n4-byz-leader1-R1-noise1", 4, []int64{0}, in4b(), v12, 1, opt{noise: 1, parts: [][][]int{{{0, 1, 2}}, {{0}, {1, 2}}}})
	add("n3-distinct-R2-noise1", 3, nil, in3(), nil, 2, opt{noise: 1, parts: [][][]int{{{0, 1, 2}}, {{0}, {1, 2}}}})
	if th {
		add("n4-distinct-R3", 4, nil, in4(), nil, 3, opt{})
		add("n4-byz-leader1-R3-strategy", 4, []int64{0}, in4b(), v12, 3, opt{noForge: true})
		add("n4-byz-leader2-R3-strategy", 4, []int64{1}, in4b(), v12, 3, opt{noForge: true})
		add("n4-byz-leader3-R3-strategy", 4, []int64{2}, in4b(), v12, 3, opt{noForge: true})
		add("n4-byz-leader1-R2-forge", 4, []int64{0}, in4b(), v12, 2, opt{})
		add("n4-byz-nonleader-R2-forge", 4, []int64{3}, in4b(), v12, 2, opt{})
		add("n4-distinct-R2-3groups", 4, nil, in4(), nil, 2, opt{parts: partitions(4, 3)[len(partitions(4, 2)):]})
		add("n4-byz-leader2-R2-3groups", 4, []int64{1}, in4b(), v12, 2, opt{noForge: true, parts: [][][]int{{{0}, {1}, {2}}}})
		for rot := 1; rot <= 3; rot++ {
			add("n4-distinct-R2", 4, nil, in4(), nil, 2, opt{rot: rot, parts: [][][]int{{{0}, {1, 2, 3}}, {{0, 1}, {2, 3}}}})
			add("n4-byz-leader2-R2-strategy", 4, []int64{1}, in4b(), v12, 2, opt{noForge: true, rot: rot, parts: [][][]int{{{0}, {1, 2}}}})
		}
		add("n5-byz-leader1-R2-strategy", 5, []int64{0}, map[int64]int64{1: 1, 2: 1, 3: 2, 4: 2}, v12, 2, opt{noForge: true})
		add("n6-byz-leader2-R2-strategy", 6, []int64{1}, map[int64]int64{0: 1, 2: 1, 3: 2, 4: 2, 5: 1}, v12, 2, opt{noForge: true, parts: [][][]int{{{0, 1, 2, 3, 4}}, {{0, 1}, {2, 3, 4}}, {{0}, {1, 2, 3, 4}}, {{0, 1, 2}, {3, 4}}}})
		add("n7-byz2-R2-strategy", 7, []int64{0, 1}, map[int64]int64{2: 1, 3: 1, 4: 2, 5: 2, 6: 1}, v12, 2, opt{noForge: true, parts: [][][]int{{{0, 1, 2, 3, 4}}, {{0, 1}, {2, 3, 4}}, {{0, 1, 2}, {3, 4}}, {{0}, {1, 2, 3, 4}}}})
	}
	return scs
}

func runC02(t *testing.T, prop string, props map[string]bool) {
	r := enumx.New(t, prop)
	defer r.Finish()
	onlyHonest := props["C04u"]
	// own the runtime's dice: map iteration order is pinned (and enumerated as a scenario dimension in the thorough tier)
	runtime.VerifSetSelMode(1)
	defer runtime.VerifSetSelMode(0)
	defer runtime.VerifSetMapRot(false, 0)
	scs := c02scenarios()
	if onlyHonest {
		var keep []*scenario
		for _, sc := range scs {
			if len(sc.byz) == 0 {
				keep = append(keep, sc)
			}
		}
		scs = keep
	}
	if r.ReplayPath != "" {
		b, _ := os.ReadFile(r.ReplayPath)
		fmt.Printf("replay file (trace is re-derived by running the scenario's search until the recorded violation):\n%s\n", b)
		var w struct {
			Case c02replay `json:"case"`
		}
		_ = json.Unmarshal(b, &w)
		var keep []*scenario
		for _, sc := range scs {
			if sc.name == w.Case.Scenario {
				keep = append(keep, sc)
			}
		}
		scs = keep
		r.NSh = 1
	}
	total := time.Until(r.Deadline)
	mine := 0
	for i := range scs {
		if r.NSh <= 1 || i%r.NSh == r.Shard {
			mine++
		}
	}
	if mine == 0 {
		return
	}
	done := 0
	_ = total
	for i, sc := range scs {
		if r.NSh > 1 && i%r.NSh != r.Shard {
			continue
		}
		c := &checker{tb: t, r: r, sc: sc, tbl: &msgTable{byKey: map[string]*vmsg{}}, lindex: map[string]int32{}, memo: map[lkey]*ltrans{},
			seen: map[[16]byte]struct{}{}, evIndex: map[string]int32{}, outcomes: map[string]bool{}, props: props, exits: map[string]int{}, dbg: map[string]int{}}
		for p := int64(0); p < int64(sc.n); p++ {
			if !sc.byz[p] {
				c.honest = append(c.honest, p)
			}
		}
		runtime.VerifSetMapRot(true, uint64(sc.maprot))
		deadline := time.Now().Add(time.Until(r.Deadline) / time.Duration(mine-done))
		done++
		t0 := time.Now()
		ex := c.explore(deadline)
		if !ex {
			r.NotExhaustive(fmt.Sprintf("scenario %s capped", sc.name))
		}
		r.States(len(c.nodes))
		r.Steps(c.transitions)
		for i := 0; i < len(c.nodes); i++ {
			r.Eval("")
		}
		for o := range c.outcomes {
			r.Outcome(o)
		}
		r.Count("local_states:"+sc.name, len(c.lstates))
		r.Count("local_executions_on_real_code", c.localExec+c.localXcheck)
		r.Count("state_key_crosschecks", c.localXcheck)
		r.Count("states_with_a_decision", c.decidedStates)
		r.Count("messages:"+sc.name, len(c.tbl.all))
		for e, n := range c.exits {
			r.Count("run_exited:"+e, n)
		}
		r.Note(fmt.Sprintf("scenario %s: states=%d transitions=%d local_states=%d real_executions=%d max_depth=%d exhaustive=%v wall=%.1fs",
			sc.name, len(c.nodes), c.transitions, len(c.lstates), c.localExec+c.localXcheck, c.maxDepth, ex, time.Since(t0).Seconds()))
		if len(c.nodes) > 3 {
			r.Sample(map[string]any{"scenario": sc.name, "deepest_trace": c.trace(int32(len(c.nodes)-1), "")})
		}
	}
}

func TestVerifC02(t *testing.T)  { runC02(t, "C02", map[string]bool{"C02": true}) }
func TestVerifC03(t *testing.T)  { runC02(t, "C03", map[string]bool{"C03": true}) }
func TestVerifC04u(t *testing.T) { runC02(t, "C04", map[string]bool{"C04u": true}) }

func TestVerifDebugC02(t *testing.T) {
	scs := c02scenarios()
	sc := scs[0]
	for _, s := range scs {
		if strings.HasPrefix(s.name, os.Getenv("DBG_SC")) {
			sc = s
			break
		}
	}
	c := &checker{tb: t, r: enumx.New(t, "C02"), sc: sc, tbl: &msgTable{byKey: map[string]*vmsg{}}, lindex: map[string]int32{}, memo: map[lkey]*ltrans{},
		seen: map[[16]byte]struct{}{}, evIndex: map[string]int32{}, outcomes: map[string]bool{}, props: map[string]bool{}, exits: map[string]int{}, dbg: map[string]int{}}
	for p := int64(0); p < int64(sc.n); p++ {
		if !sc.byz[p] {
			c.honest = append(c.honest, p)
		}
	}
	runtime.VerifSetMapRot(true, 0)
	c.explore(time.Now().Add(20 * time.Second))
	fmt.Println("states", len(c.nodes), "local", len(c.lstates), "msgs", len(c.tbl.all))
	var ks []string
	for k, v := range c.dbg {
		ks = append(ks, fmt.Sprintf("%7d %s", v, k))
	}
	sort.Strings(ks)
	for _, k := range ks {
		fmt.Println(k)
	}
	perMember := map[byte]int{}
	for _, l := range c.lstates {
		perMember[l.key[1]]++
	}
	fmt.Println("local states per member", perMember)
}

func TestVerifDebugC02b(t *testing.T) {
	sc := c02scenarios()[1]
	tbl := &msgTable{byKey: map[string]*vmsg{}}
	mk := func(typ MsgType, src, round, val int64, just ...*vmsg) *vmsg {
		return tbl.mk(typ, src, round, val, 0, 0, just)
	}
	rc0, rc1, rc2 := mk(MsgRoundChange, 0, 2, 0), mk(MsgRoundChange, 1, 2, 0), mk(MsgRoundChange, 2, 2, 0)
	pp := mk(MsgPrePrepare, 1, 2, 1, rc0, rc1, rc2)
	var h []levent
	h = append(h, levent{'i', 1}, levent{'t', 0})
	for _, m := range []*vmsg{rc0, rc1, rc2, pp, mk(MsgPrepare, 0, 2, 1), mk(MsgPrepare, 1, 2, 1), mk(MsgPrepare, 2, 2, 1), mk(MsgCommit, 0, 2, 1), mk(MsgCommit, 1, 2, 1), mk(MsgCommit, 2, 2, 1)} {
		h = append(h, levent{'r', m.id})
	}
	for i := 0; i < 3; i++ {
		r1 := runLocal(t, sc, tbl, 0, h)
		r2 := runLocal(t, sc, tbl, 0, append(append([]levent{}, h...), levent{'r', rc2.id}))
		fmt.Printf("h1: decides=%d resends=%v outs=%s\nh2: decides=%d resends=%v outs=%s\n", r1.nDecides, r1.snap.DecidedResends, outsKey(r1.outputs), r2.nDecides, r2.snap.DecidedResends, outsKey(r2.outputs))
	}
}
