package dutydb

// C18 (duty store): what Store keeps and what the Await* / PubKeyByAttestation queries return is isolated from the
// value handed in and from what every other reader got. Units = (query, value type x version); see zzverif/alias
// for the two oracles (address-range sharing between the parties; twin-world differential with harness-side
// overwriting of the input / of every result).

import (
	"context"
	"testing"
	"time"

	eth2api "github.com/attestantio/go-eth2-client/api"
	"github.com/attestantio/go-eth2-client/spec/altair"
	eth2p0 "github.com/attestantio/go-eth2-client/spec/phase0"

	"github.com/obolnetwork/charon/core"
	"github.com/obolnetwork/charon/zzverif/alias"
	"github.com/obolnetwork/charon/zzverif/enumx"
)

const c18pk = core.PubKey("0x8a1d7b8dd64e0aafe7ea7b6c95065c9364cf99d38470db679bdf5c9bd8b0e6cd5c7a3b0a6d4c2e3c7a5e1e9e2b1a7c3d")

// c18nBlocked is the number of readers that are already waiting when the value is stored (all for the same key: they
// are resolved by one and the same Store).
const c18nBlocked = 3

// c18blocked starts c18nBlocked readers before the value is stored and returns a func that waits for their results
// and registers them with the world.
func c18blocked[T any](w *alias.World, db *MemDB, pending func() int, query func(ctx context.Context) (T, error)) func() (T, bool) {
	type res struct {
		v   T
		err error
	}
	var chans []chan res
	ctx, cancel := context.WithTimeout(context.Background(), 20*time.Second)
	for k := 0; k < c18nBlocked; k++ {
		ch := make(chan res, 1)
		chans = append(chans, ch)
		go func() {
			v, err := query(ctx)
			ch <- res{v, err}
		}()
		for i := 0; ; i++ { // wait until the query is registered
			db.mu.Lock()
			n := pending()
			db.mu.Unlock()
			if n > k {
				break
			}
			if i > 200000 {
				w.Fail("blocked reader did not register")
				break
			}
			time.Sleep(50 * time.Microsecond)
		}
	}
	return func() (T, bool) {
		defer cancel()
		var first T
		ok := true
		for k, ch := range chans {
			x := <-ch
			if x.err != nil {
				w.Fail("blocked reader: %v", x.err)
				ok = false
				continue
			}
			if k == 0 {
				first = x.v
			} else {
				w.Result("blocked-reader"+string(rune('1'+k)), x.v)
			}
		}
		return first, ok
	}
}

func c18specs(u alias.Unit, master any) []alias.Spec {
	ctx := context.Background()
	modes := []string{alias.Input, alias.Result}
	newDB := func() *MemDB { return NewMemDB(alias.NewNopDeadliner()) }
	switch u.Base() {
	case "AttestationData":
		run := func(pubkeyQuery bool) func(w *alias.World) {
			return func(w *alias.World) {
				db := newDB()
				att := alias.DeepCopy(master.(core.AttestationData))
				set := core.UnsignedDataSet{c18pk: att}
				slot, commIdx, valIdx := uint64(att.Data.Slot), uint64(att.Duty.CommitteeIndex), uint64(att.Duty.ValidatorIndex)
				var wait func() (*eth2p0.AttestationData, bool)
				if !pubkeyQuery {
					wait = c18blocked(w, db, func() int { return len(db.attQueries) }, func(ctx context.Context) (*eth2p0.AttestationData, error) {
						return db.AwaitAttestation(ctx, slot, commIdx)
					})
				}
				w.Input("stored-input", set)
				err := db.Store(ctx, core.NewAttesterDuty(slot), set)
				w.Outcome("Store", err)
				if err != nil {
					w.Fail("store: %v", err)
					return
				}
				w.MutateInputs()
				w.Held("db.attDuties", db.attDuties)
				w.Held("db.attPubKeys", db.attPubKeys)
				if pubkeyQuery {
					for i := 1; i <= 2; i++ {
						pk, err := db.PubKeyByAttestation(ctx, slot, commIdx, valIdx)
						w.Outcome("PubKeyByAttestation", err)
						w.Result("reader"+string(rune('0'+i)), &pk)
					}
					w.Observe("db.attPubKeys(after)", db.attPubKeys)
					return
				}
				if v, ok := wait(); ok {
					w.Result("blocked-reader", v)
				}
				for i := 1; i <= 2; i++ {
					v, err := db.AwaitAttestation(ctx, slot, commIdx)
					w.Outcome("AwaitAttestation", err)
					w.Result("reader"+string(rune('0'+i)), v)
				}
				v0, err := db.AwaitAttestation(ctx, slot, 0) // the committee-index-0 alias of the same data
				w.Outcome("AwaitAttestation(0)", err)
				w.Result("reader-commidx0", v0)
				// the same data is stored once more (every node does so after consensus), overwritten by its owner, read again
				set2 := core.UnsignedDataSet{c18pk: alias.DeepCopy(master.(core.AttestationData))}
				w.Input("re-stored-input", set2)
				w.Outcome("Store(again)", db.Store(ctx, core.NewAttesterDuty(slot), set2))
				w.MutateInputs()
				v3, err := db.AwaitAttestation(ctx, slot, commIdx)
				w.Outcome("AwaitAttestation(after re-store)", err)
				w.Result("reader3", v3)
				w.Observe("db.attDuties(after)", db.attDuties)
			}
		}
		return []alias.Spec{
			{Path: "dutydb/AwaitAttestation", Type: u.Name, Modes: modes, Run: run(false)},
			{Path: "dutydb/PubKeyByAttestation", Type: u.Name, Modes: modes, Run: run(true)},
		}
	case "VersionedProposal":
		return []alias.Spec{{Path: "dutydb/AwaitProposal", Type: u.Name, Modes: modes, Run: func(w *alias.World) {
			db := newDB()
			prop := alias.DeepCopy(master.(core.VersionedProposal))
			set := core.UnsignedDataSet{c18pk: prop}
			s, err := prop.Slot()
			if err != nil {
				w.Fail("slot: %v", err)
				return
			}
			slot := uint64(s)
			wait := c18blocked(w, db, func() int { return len(db.proQueries) }, func(ctx context.Context) (*eth2api.VersionedProposal, error) {
				return db.AwaitProposal(ctx, slot)
			})
			w.Input("stored-input", set)
			err = db.Store(ctx, core.NewProposerDuty(slot), set)
			w.Outcome("Store", err)
			if err != nil {
				w.Fail("store: %v", err)
				return
			}
			w.MutateInputs()
			w.Held("db.proDuties", db.proDuties)
			if v, ok := wait(); ok {
				w.Result("blocked-reader", v)
			}
			for i := 1; i <= 2; i++ {
				v, err := db.AwaitProposal(ctx, slot)
				w.Outcome("AwaitProposal", err)
				w.Result("reader"+string(rune('0'+i)), v)
			}
			set2 := core.UnsignedDataSet{c18pk: alias.DeepCopy(master.(core.VersionedProposal))}
			w.Input("re-stored-input", set2)
			w.Outcome("Store(again)", db.Store(ctx, core.NewProposerDuty(slot), set2))
			w.MutateInputs()
			v3, err := db.AwaitProposal(ctx, slot)
			w.Outcome("AwaitProposal(after re-store)", err)
			w.Result("reader3", v3)
			w.Observe("db.proDuties(after)", db.proDuties)
		}}}
	case "VersionedAggregatedAttestation":
		return []alias.Spec{{Path: "dutydb/AwaitAggAttestation", Type: u.Name, Modes: modes, Run: func(w *alias.World) {
			db := newDB()
			agg := alias.DeepCopy(master.(core.VersionedAggregatedAttestation))
			set := core.UnsignedDataSet{c18pk: agg}
			data, err := agg.Data()
			if err != nil {
				w.Fail("data: %v", err)
				return
			}
			root, err := data.HashTreeRoot()
			if err != nil {
				w.Fail("root: %v", err)
				return
			}
			commIdx, err := agg.CommitteeIndex()
			if err != nil {
				w.Fail("committee index: %v", err)
				return
			}
			slot := uint64(data.Slot)
			wait := c18blocked(w, db, func() int { return len(db.aggQueries) }, func(ctx context.Context) (any, error) {
				return db.AwaitAggAttestation(ctx, slot, root, commIdx)
			})
			w.Input("stored-input", set)
			err = db.Store(ctx, core.NewAggregatorDuty(slot), set)
			w.Outcome("Store", err)
			if err != nil {
				w.Fail("store: %v", err)
				return
			}
			w.MutateInputs()
			w.Held("db.aggDuties", db.aggDuties)
			if v, ok := wait(); ok {
				w.Result("blocked-reader", v)
			}
			for i := 1; i <= 2; i++ {
				v, err := db.AwaitAggAttestation(ctx, slot, root, commIdx)
				w.Outcome("AwaitAggAttestation", err)
				w.Result("reader"+string(rune('0'+i)), v)
			}
			set2 := core.UnsignedDataSet{c18pk: alias.DeepCopy(master.(core.VersionedAggregatedAttestation))} // replaces the stored value
			w.Input("re-stored-input", set2)
			w.Outcome("Store(again)", db.Store(ctx, core.NewAggregatorDuty(slot), set2))
			w.MutateInputs()
			w.Held("db.aggDuties(re-stored value)", db.aggDuties[aggKey{Slot: slot, Root: root, CommitteeIndex: commIdx}])
			v3, err := db.AwaitAggAttestation(ctx, slot, root, commIdx)
			w.Outcome("AwaitAggAttestation(after re-store)", err)
			w.Result("reader3", v3)
			w.Observe("db.aggDuties(after)", db.aggDuties)
		}}}
	case "SyncContribution", "SyncContributions":
		return []alias.Spec{{Path: "dutydb/AwaitSyncContribution", Type: u.Name, Modes: modes, Run: func(w *alias.World) {
			db := newDB()
			val := alias.DeepCopy(master.(core.UnsignedData))
			set := core.UnsignedDataSet{c18pk: val}
			var first core.SyncContribution
			switch x := val.(type) {
			case core.SyncContribution:
				first = x
			case core.SyncContributions:
				first = x[len(x)-1]
			}
			slot, sub, root := uint64(first.Slot), first.SubcommitteeIndex, first.BeaconBlockRoot
			wait := c18blocked(w, db, func() int { return len(db.contribQueries) }, func(ctx context.Context) (*altair.SyncCommitteeContribution, error) {
				return db.AwaitSyncContribution(ctx, slot, sub, root)
			})
			w.Input("stored-input", set)
			err := db.Store(ctx, core.NewSyncContributionDuty(slot), set)
			w.Outcome("Store", err)
			if err != nil {
				w.Fail("store: %v", err)
				return
			}
			w.MutateInputs()
			w.Held("db.contribDuties", db.contribDuties)
			if v, ok := wait(); ok {
				w.Result("blocked-reader", v)
			}
			for i := 1; i <= 2; i++ {
				v, err := db.AwaitSyncContribution(ctx, slot, sub, root)
				w.Outcome("AwaitSyncContribution", err)
				w.Result("reader"+string(rune('0'+i)), v)
			}
			set2 := core.UnsignedDataSet{c18pk: alias.DeepCopy(master.(core.UnsignedData))}
			w.Input("re-stored-input", set2)
			w.Outcome("Store(again)", db.Store(ctx, core.NewSyncContributionDuty(slot), set2))
			w.MutateInputs()
			v3, err := db.AwaitSyncContribution(ctx, slot, sub, root)
			w.Outcome("AwaitSyncContribution(after re-store)", err)
			w.Result("reader3", v3)
			w.Observe("db.contribDuties(after)", db.contribDuties)
		}}}
	}
	return nil
}

func TestVerifC18DutyDB(t *testing.T) {
	r := enumx.New(t, "C18")
	defer r.Finish()
	for _, u := range alias.UnsignedUnits(t) {
		master := u.Gen()
		for _, s := range c18specs(u, master) {
			if !r.Mine() {
				continue
			}
			if r.Expired() {
				return
			}
			if !alias.Wanted(r, s.Path, s.Type) {
				continue
			}
			alias.Run(r, s)
		}
	}
}
