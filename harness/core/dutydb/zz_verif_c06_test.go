package dutydb

// C06 – duty store serves one unique datum per key and never blocks a satisfiable query.
// Engine schedx: every interleaving of Store / Await* / PubKeyByAttestation / cancel / expiry threads
// on the real MemDB with the real deadliner in virtual time (DESIGN.md §5 C06).

import (
	"context"
	"encoding/hex"
	"fmt"
	"sort"
	"strings"
	"sync"
	"testing"
	"testing/synctest"
	"time"

	"github.com/OffchainLabs/go-bitfield"
	eth2api "github.com/attestantio/go-eth2-client/api"
	eth2v1 "github.com/attestantio/go-eth2-client/api/v1"
	eth2spec "github.com/attestantio/go-eth2-client/spec"
	"github.com/attestantio/go-eth2-client/spec/altair"
	eth2p0 "github.com/attestantio/go-eth2-client/spec/phase0"
	"github.com/jonboulle/clockwork"

	"github.com/obolnetwork/charon/core"
	"github.com/obolnetwork/charon/testutil"
	"github.com/obolnetwork/charon/zzverif/schedx"
)

// ---- data items --------------------------------------------------------------------------------------

type c06prov struct {
	key     string
	content string
	alias   bool
}

type c06item struct {
	name  string
	pk    core.PubKey
	data  core.UnsignedData
	provs []c06prov
}

func c06root(b byte) (r eth2p0.Root) {
	for i := range r {
		r[i] = b
	}
	return r
}

func c06att(name string, pk core.PubKey, slot uint64, comm, val uint64, head, src byte) c06item {
	d := core.AttestationData{
		Data: eth2p0.AttestationData{
			Slot: eth2p0.Slot(slot), Index: eth2p0.CommitteeIndex(comm), BeaconBlockRoot: c06root(head),
			Source: &eth2p0.Checkpoint{Epoch: eth2p0.Epoch(src), Root: c06root(src)},
			Target: &eth2p0.Checkpoint{Epoch: 2, Root: c06root(0x22)},
		},
		Duty: eth2v1.AttesterDuty{Slot: eth2p0.Slot(slot), CommitteeIndex: eth2p0.CommitteeIndex(comm), ValidatorIndex: eth2p0.ValidatorIndex(val),
			CommitteeLength: 8, CommitteesAtSlot: 8, ValidatorCommitteeIndex: 1},
	}
	content := d.Data.String()
	if comm == 0 {
		// a duty that really is in committee 0: its own keys ARE the committee-index-0 keys, held to the strict clauses
		return c06item{name: name, pk: pk, data: d, provs: []c06prov{
			{key: fmt.Sprintf("att/%d/0", slot), content: content},
			{key: fmt.Sprintf("pk/%d/0/%d", slot, val), content: string(pk)},
		}}
	}
	return c06item{name: name, pk: pk, data: d, provs: []c06prov{
		{key: fmt.Sprintf("att/%d/%d", slot, comm), content: content},
		{key: fmt.Sprintf("att/%d/0", slot), content: content, alias: true},
		{key: fmt.Sprintf("pk/%d/%d/%d", slot, comm, val), content: string(pk)},
		{key: fmt.Sprintf("pk/%d/0/%d", slot, val), content: string(pk), alias: true},
	}}
}

var c06baseBlock = testutil.RandomPhase0BeaconBlock()

func c06pro(name string, pk core.PubKey, slot uint64, graffiti byte) c06item {
	blk := *c06baseBlock
	body := *blk.Body
	body.Graffiti = [32]byte{graffiti}
	blk.Body = &body
	blk.Slot = eth2p0.Slot(slot)
	p, err := core.NewVersionedProposal(&eth2api.VersionedProposal{Version: eth2spec.DataVersionPhase0, Phase0: &blk})
	if err != nil {
		panic(err)
	}
	root, err := p.Root()
	if err != nil {
		panic(err)
	}
	return c06item{name: name, pk: pk, data: p, provs: []c06prov{{key: fmt.Sprintf("pro/%d", slot), content: hex.EncodeToString(root[:4])}}}
}

func c06aggData(slot uint64, head byte) *eth2p0.AttestationData {
	return &eth2p0.AttestationData{Slot: eth2p0.Slot(slot), Index: 0, BeaconBlockRoot: c06root(head),
		Source: &eth2p0.Checkpoint{Epoch: 1, Root: c06root(1)}, Target: &eth2p0.Checkpoint{Epoch: 2, Root: c06root(2)}}
}

func c06agg(name string, pk core.PubKey, slot uint64, head byte, bits byte) (c06item, eth2p0.Root) {
	data := c06aggData(slot, head)
	ab := bitfield.NewBitlist(8)
	for i := 0; i < 8; i++ {
		if bits&(1<<i) != 0 {
			ab.SetBitAt(uint64(i), true)
		}
	}
	att := &eth2p0.Attestation{AggregationBits: ab, Data: data, Signature: eth2p0.BLSSignature{bits}}
	v, err := core.NewVersionedAggregatedAttestation(&eth2spec.VersionedAttestation{Version: eth2spec.DataVersionDeneb, Deneb: att})
	if err != nil {
		panic(err)
	}
	root, err := data.HashTreeRoot()
	if err != nil {
		panic(err)
	}
	// content of the key = the attestation data the key is the root of (DESIGN §5 C06, §7.6)
	return c06item{name: name, pk: pk, data: v, provs: []c06prov{{key: fmt.Sprintf("agg/%d/%x/0", slot, root[:4]), content: hex.EncodeToString(root[:4])}}}, root
}

func c06contribRaw(slot, sub uint64, blk byte, bits byte) *altair.SyncCommitteeContribution {
	ab := bitfield.NewBitvector128()
	for i := 0; i < 8; i++ {
		if bits&(1<<i) != 0 {
			ab.SetBitAt(uint64(i), true)
		}
	}
	return &altair.SyncCommitteeContribution{Slot: eth2p0.Slot(slot), BeaconBlockRoot: c06root(blk), SubcommitteeIndex: sub, AggregationBits: ab, Signature: eth2p0.BLSSignature{bits}}
}

func c06contribProv(c *altair.SyncCommitteeContribution) c06prov {
	r, err := c.HashTreeRoot()
	if err != nil {
		panic(err)
	}
	return c06prov{key: fmt.Sprintf("con/%d/%d/%x", c.Slot, c.SubcommitteeIndex, c.BeaconBlockRoot[:2]), content: hex.EncodeToString(r[:4])}
}

func c06con(name string, pk core.PubKey, cs ...*altair.SyncCommitteeContribution) c06item {
	it := c06item{name: name, pk: pk}
	if len(cs) == 1 {
		it.data = core.NewSyncContribution(cs[0])
	} else {
		var l core.SyncContributions
		for _, c := range cs {
			l = append(l, core.NewSyncContribution(c))
		}
		it.data = l
	}
	for _, c := range cs {
		it.provs = append(it.provs, c06contribProv(c))
	}
	return it
}

// ---- operations ---------------------------------------------------------------------------------------

type c06op struct {
	kind   string // S store, RA/RP/RG/RC awaits, PK pubkey query, C cancel
	name   string
	duty   core.Duty
	items  []c06item
	key    string // key read
	slot   uint64
	a, b   uint64
	root   eth2p0.Root
	target string
}

type c06rec struct {
	op            c06op
	started, done bool
	tStart, tDone time.Duration
	err           error
	content       string // content id of the returned value
	cancelled     bool
	seq           int // logical instant of completion
	sseq          int // logical instant of start
}

type c06data struct {
	db      *MemDB
	recs    []*c06rec
	seq     int
	expiry  map[core.Duty]time.Duration
	cancels map[string]context.CancelFunc
}

func c06scenario(name string, ops [][]c06op, clock []time.Duration, expire map[core.Duty]time.Duration, rots int) *schedx.Scenario {
	sc := &schedx.Scenario{Name: name, Params: map[string]any{"threads": len(ops)}}
	if rots > 1 {
		sc.EnvDims = map[string]int{"maprot": rots}
	}
	sc.Setup = func(x *schedx.Exec) {
		start := time.Now()
		d := &c06data{expiry: expire, cancels: map[string]context.CancelFunc{}}
		x.Data = d
		dl := core.NewDeadliner(x.Ctx, "c06", func(duty core.Duty) (time.Time, bool) {
			if e, ok := expire[duty]; ok {
				return start.Add(e), true
			}
			return start.Add(1000 * time.Hour), true
		})
		d.db = NewMemDB(dl)
		for ti, thread := range ops {
			thread := thread
			tname := fmt.Sprintf("T%d", ti)
			var recs []*c06rec
			for _, op := range thread {
				r := &c06rec{op: op}
				recs = append(recs, r)
				d.recs = append(d.recs, r)
			}
			ctx, cancel := context.WithCancel(x.Ctx)
			d.cancels[tname] = cancel
			x.Go(tname, func(t *schedx.T) {
				for i, r := range recs {
					if i > 0 {
						t.Point("next")
					}
					c06exec(x, d, ctx, r)
				}
			})
		}
		x.Clock(clock...)
	}
	sc.StateKey = func(x *schedx.Exec) string { return c06dump(x.Data.(*c06data).db) }
	sc.Outcome = func(x *schedx.Exec) string {
		d := x.Data.(*c06data)
		var o []string
		for _, r := range d.recs {
			o = append(o, fmt.Sprintf("%s:%v:%v:%s", r.op.name, r.done, r.err != nil, r.content))
		}
		return strings.Join(o, ",")
	}
	sc.Check = func(x *schedx.Exec) []schedx.Violation { return c06check(x) }
	return sc
}

func c06exec(x *schedx.Exec, d *c06data, ctx context.Context, r *c06rec) {
	op := r.op
	r.started, r.tStart = true, x.Now()
	d.seq++
	r.sseq = d.seq
	x.Obs("%s start@%s#%d", op.name, r.tStart, r.sseq)
	switch op.kind {
	case "S":
		set := core.UnsignedDataSet{}
		for _, it := range op.items {
			set[it.pk] = it.data
		}
		r.err = d.db.Store(ctx, op.duty, set)
	case "RA":
		v, err := d.db.AwaitAttestation(ctx, op.slot, op.a)
		r.err = err
		if err == nil {
			r.content = v.String()
		}
	case "RP":
		v, err := d.db.AwaitProposal(ctx, op.slot)
		r.err = err
		if err == nil {
			root, e2 := v.Root()
			if e2 != nil {
				panic(e2)
			}
			r.content = hex.EncodeToString(root[:4])
		}
	case "RG":
		v, err := d.db.AwaitAggAttestation(ctx, op.slot, op.root, eth2p0.CommitteeIndex(op.a))
		r.err = err
		if err == nil {
			data, e2 := v.Data()
			if e2 != nil {
				panic(e2)
			}
			root, _ := data.HashTreeRoot()
			r.content = hex.EncodeToString(root[:4])
		}
	case "RC":
		v, err := d.db.AwaitSyncContribution(ctx, op.slot, op.a, op.root)
		r.err = err
		if err == nil {
			root, _ := v.HashTreeRoot()
			r.content = hex.EncodeToString(root[:4])
		}
	case "PK":
		v, err := d.db.PubKeyByAttestation(ctx, op.slot, op.a, op.b)
		r.err = err
		if err == nil {
			r.content = string(v)
		}
	case "C":
		for _, o := range d.recs {
			if strings.HasPrefix(o.op.name, op.target+".") && !o.done {
				o.cancelled = true
			}
		}
		d.cancels[op.target]()
	}
	if op.kind != "S" && op.kind != "C" && op.kind != "PK" {
		// A blocked reader woken by another thread's step runs concurrently with it up to here: park before
		// touching the shared harness records, so that the order of completions is the scheduler's choice.
		if t := schedx.Current(); t != nil {
			t.Point("ret")
		}
	}
	r.done, r.tDone = true, x.Now()
	d.seq++
	r.seq = d.seq
	x.Obs("%s=%v/%s@%s#%d", op.name, r.err != nil, c06short(r.content), r.tDone, r.seq)
}

func c06short(s string) string {
	if len(s) > 12 {
		h := 0
		for _, c := range s {
			h = h*31 + int(c)
		}
		return fmt.Sprintf("h%x", h&0xffffff)
	}
	return s
}

func c06dump(db *MemDB) string {
	var ks []string
	for k, v := range db.attDuties {
		ks = append(ks, fmt.Sprintf("a%d/%d=%x", k.Slot, k.CommIdx, v.BeaconBlockRoot[0]))
	}
	for k, v := range db.attPubKeys {
		ks = append(ks, fmt.Sprintf("k%d/%d/%d=%s", k.Slot, k.CommIdx, k.ValIdx, *v))
	}
	for k, v := range db.proDuties {
		r, _ := v.Root()
		ks = append(ks, fmt.Sprintf("p%d=%x", k, r[:2]))
	}
	for k, v := range db.aggDuties {
		r, _ := v.HashTreeRoot()
		ks = append(ks, fmt.Sprintf("g%d/%x=%x", k.Slot, k.Root[:2], r[:2]))
	}
	for k, v := range db.contribDuties {
		r, _ := v.HashTreeRoot()
		ks = append(ks, fmt.Sprintf("c%d/%d/%x=%x", k.Slot, k.SubcommIdx, k.Root[:1], r[:2]))
	}
	sort.Strings(ks)
	nc := func(cancel <-chan struct{}) string {
		if cancelled(cancel) {
			return "x"
		}
		return "o"
	}
	var qs []string
	for _, q := range db.attQueries {
		qs = append(qs, fmt.Sprintf("qa%d/%d%s", q.Key.Slot, q.Key.CommIdx, nc(q.Cancel)))
	}
	for _, q := range db.proQueries {
		qs = append(qs, fmt.Sprintf("qp%d%s", q.Key, nc(q.Cancel)))
	}
	for _, q := range db.aggQueries {
		qs = append(qs, fmt.Sprintf("qg%d%s", q.Key.Slot, nc(q.Cancel)))
	}
	for _, q := range db.contribQueries {
		qs = append(qs, fmt.Sprintf("qc%d/%d%s", q.Key.Slot, q.Key.SubcommIdx, nc(q.Cancel)))
	}
	sort.Strings(qs)
	// whatever else the store holds (nothing, for the code this was written against)
	extra := schedx.ExtraState(db, "mu", "attDuties", "attPubKeys", "attKeysBySlot", "attQueries", "proDuties", "proQueries", "aggDuties", "aggKeysBySlot",
		"aggQueries", "contribDuties", "contribKeysBySlot", "contribQueries", "shutdown", "deadliner")
	return strings.Join(ks, ";") + "|" + strings.Join(qs, ";") + extra
}

// ---- oracle ---------------------------------------------------------------------------------------------

func c06check(x *schedx.Exec) []schedx.Violation {
	d := x.Data.(*c06data)
	var out []schedx.Violation
	bad := func(sig, f string, a ...any) {
		out = append(out, schedx.Violation{Signature: sig, Description: fmt.Sprintf(f, a...)})
	}
	expOf := func(duty core.Duty) (time.Duration, bool) { e, ok := d.expiry[duty]; return e, ok }
	var stores, reads []*c06rec
	for _, r := range d.recs {
		switch r.op.kind {
		case "S":
			stores = append(stores, r)
		case "C":
		default:
			reads = append(reads, r)
		}
	}
	sort.Slice(stores, func(i, j int) bool { return stores[i].seq < stores[j].seq })
	hasExpiry := len(d.expiry) > 0
	// (3) expired duties are refused
	for _, s := range stores {
		if !s.done {
			bad("kind=store-blocked", "%s never returned", s.op.name)
			continue
		}
		if e, ok := expOf(s.op.duty); ok && s.tStart >= e && s.err == nil {
			bad("kind=expired-store-accepted", "%s stored data for duty %v after its deadline without error", s.op.name, s.op.duty)
		}
	}
	type offer struct {
		s *c06rec
		p c06prov
	}
	offers := map[string][]offer{}
	for _, s := range stores {
		for _, it := range s.op.items {
			for _, p := range it.provs {
				offers[p.key] = append(offers[p.key], offer{s, p})
			}
		}
	}
	// two successful stores never provide different content for one (non-alias) key before expiry
	for k, os := range offers {
		for i := 0; i < len(os); i++ {
			for j := i + 1; j < len(os); j++ {
				a, b := os[i], os[j]
				if a.p.alias || b.p.alias || !a.s.done || !b.s.done || a.s.err != nil || b.s.err != nil || a.s == b.s {
					continue
				}
				if hasExpiry {
					continue // generations are handled by the read clauses below
				}
				if a.p.content != b.p.content {
					bad("kind=conflicting-store-accepted", "%s and %s both succeeded with different content for key %s", a.s.op.name, b.s.op.name, k)
				}
			}
		}
	}
	// reads
	got := map[string]string{}
	for _, r := range reads {
		k := r.op.key
		isPK := r.op.kind == "PK"
		if r.done && r.err == nil {
			// (2) nothing invented
			ok := false
			for _, o := range offers[k] {
				if o.p.content == r.content && o.s.started && o.s.sseq < r.seq {
					ok = true
				}
			}
			if !ok {
				bad("kind=read-invented-value", "%s returned content %s for key %s that no store call provided", r.op.name, c06short(r.content), k)
			}
			// (1) unique per key
			if !hasExpiry {
				if o, seen := got[k]; seen && o != r.content {
					bad("kind=readers-disagree", "two answers for key %s differ: %s vs %s", k, c06short(o), c06short(r.content))
				}
				got[k] = r.content
			}
		}
		// the first successful store providing exactly this key (non-alias offers bind content; alias offers only liveness)
		var first *offer
		for i := range offers[k] {
			o := offers[k][i]
			if o.s.done && o.s.err == nil && (first == nil || o.s.seq < first.s.seq) {
				first = &offers[k][i]
			}
		}
		if first == nil {
			if r.done && r.err != nil && !r.cancelled && !isPK {
				bad("kind=read-error", "%s failed without being cancelled: %v", r.op.name, r.err)
			}
			continue
		}
		exp, hasExp := expOf(first.s.op.duty)
		spans := hasExp && (!r.done || r.tDone >= exp) // deletion may have happened: only safety clauses apply
		if r.done && r.err == nil {
			if !first.p.alias && !spans && r.sseq > first.s.seq && r.content != first.p.content {
				bad("kind=read-wrong-value", "%s started after %s had stored key %s but returned other content", r.op.name, first.s.op.name, k)
			}
			lim := first.s.tDone
			if r.tStart > lim {
				lim = r.tStart
			}
			if !isPK && r.tDone > lim && !spans {
				bad("kind=late-wakeup", "%s returned at %s although its key was stored at %s", r.op.name, r.tDone, first.s.tDone)
			}
			continue
		}
		if r.done && r.err != nil {
			if isPK {
				if r.sseq > first.s.seq && !spans {
					bad("kind=pubkey-not-found", "%s failed although %s had stored its key: %v", r.op.name, first.s.op.name, r.err)
				}
			} else if !r.cancelled {
				bad("kind=read-error", "%s failed without being cancelled: %v", r.op.name, r.err)
			}
			continue
		}
		// (4) still blocked in the terminal state
		if !r.started {
			continue
		}
		if r.cancelled {
			bad("kind=cancelled-read-blocked", "%s was cancelled but never returned", r.op.name)
			continue
		}
		if !spans {
			bad("kind=lost-wakeup", "%s is still blocked although %s stored its key %s successfully at %s", r.op.name, first.s.op.name, k, first.s.tDone)
		}
	}
	return out
}

// ---- scenarios ----------------------------------------------------------------------------------------------

// c06stalledExpiry: "data for expired duties is refused" when the deadliner's goroutine is stalled while the deadline
// passes (a busy or descheduled process): the duty is still in the deadliner's set, its timer has fired but has not
// been handled, and a Store for it arrives. The deadliner runs on a fake clock moved by the harness; its goroutine
// is stalled inside the deadline function while it registers a never-expiring duty. Both select orders (env selmode).
func c06stalledExpiry(attD core.Duty, X, X2 c06item) *schedx.Scenario {
	sc := &schedx.Scenario{Name: "att-expiry-while-deadliner-stalled", Params: map[string]any{}, EnvDims: map[string]int{"selmode": 2}}
	sc.Setup = func(x *schedx.Exec) {
		fc := clockwork.NewFakeClock()
		t0 := fc.Now()
		var stall bool
		stalled, release := make(chan struct{}), make(chan struct{})
		exitD := core.NewVoluntaryExit(99)
		dl := core.NewDeadlinerForT(x.Ctx, x.TB, func(duty core.Duty) (time.Time, bool) {
			if duty.Type == core.DutyExit {
				if stall {
					stall = false
					close(stalled)
					<-release
				}
				return time.Time{}, false
			}
			return t0.Add(10 * time.Second), true
		}, fc)
		d := &c06data{expiry: map[core.Duty]time.Duration{attD: 10 * time.Second}, cancels: map[string]context.CancelFunc{}}
		x.Data = d
		d.db = NewMemDB(dl)
		rec := func(name string, it c06item, at time.Duration, err error) {
			d.seq++
			r := &c06rec{op: c06op{kind: "S", name: name, duty: attD, items: []c06item{it}}, started: true, done: true, tStart: at, tDone: at, err: err, sseq: d.seq}
			d.seq++
			r.seq = d.seq
			d.recs = append(d.recs, r)
			x.Obs("%s=%v@%s", name, err != nil, at)
		}
		rec("pre.sX", X, 0, d.db.Store(x.Ctx, attD, core.UnsignedDataSet{X.pk: X.data}))
		stall = true
		go dl.Add(exitD)
		<-stalled
		fc.Advance(11 * time.Second) // the attester duty's timer fires, nobody handles it yet
		var lateErr error
		done := make(chan struct{})
		go func() {
			lateErr = d.db.Store(x.Ctx, attD, core.UnsignedDataSet{X2.pk: X2.data})
			close(done)
		}()
		synctest.Wait()
		close(release)
		<-done
		rec("pre.sLate", X2, 11*time.Second, lateErr)
	}
	sc.StateKey = func(x *schedx.Exec) string { return c06dump(x.Data.(*c06data).db) }
	sc.Outcome = func(x *schedx.Exec) string {
		d := x.Data.(*c06data)
		return fmt.Sprint(d.recs[len(d.recs)-1].err != nil)
	}
	sc.Check = func(x *schedx.Exec) []schedx.Violation { return c06check(x) }
	return sc
}

// c06massExpiry: the liveness clause with the REAL deadliner behind the store, at the capacity boundary of the deadliner's
// output channel: k duties stored through the store expire together while nobody calls the store (the store only
// drains the deadliner's channel inside Store); afterwards a Store of an unexpired duty and a query for it must
// return. The deadliner runs on a fake clock moved by the harness; quiescence is decided by synctest.Wait.
func c06massExpiry(k int) *schedx.Scenario {
	sc := &schedx.Scenario{Name: fmt.Sprintf("mass-expiry-%d-then-store-and-query", k), Params: map[string]any{"expired": k}, EnvDims: map[string]int{"selmode": 2}}
	type res struct {
		preErr              error
		storeDone, readDone bool // at quiescence, before anything is released
		storeErr, readErr   error
	}
	sc.Setup = func(x *schedx.Exec) {
		fc := clockwork.NewFakeClock()
		t0 := fc.Now()
		dctx, dcancel := context.WithCancel(x.Ctx)
		defer dcancel()
		dl := core.NewDeadlinerForT(dctx, x.TB, func(duty core.Duty) (time.Time, bool) {
			if duty.Slot >= 500 {
				return t0.Add(1000 * time.Second), true
			}
			return t0.Add(10 * time.Second), true
		}, fc)
		db := NewMemDB(dl)
		r := &res{}
		x.Data = r
		for i := 0; i < k; i++ {
			it := c06pro(fmt.Sprintf("P%d", i), "0xaaaa", uint64(100+i), 1)
			if err := db.Store(x.Ctx, core.NewProposerDuty(uint64(100+i)), core.UnsignedDataSet{it.pk: it.data}); err != nil {
				r.preErr = err
				return
			}
		}
		synctest.Wait()
		fc.Advance(11 * time.Second) // all k duties are due
		synctest.Wait()
		live := c06pro("L", "0xaaaa", 500, 1)
		done := make(chan struct{})
		stored, read := make(chan error, 1), make(chan error, 1)
		go func() {
			defer close(done)
			err := db.Store(x.Ctx, core.NewProposerDuty(500), core.UnsignedDataSet{live.pk: live.data})
			stored <- err
			qctx, qcancel := context.WithTimeout(x.Ctx, time.Second) // bubble time: only passes when everything is blocked
			defer qcancel()
			_, err = db.AwaitProposal(qctx, 500)
			read <- err
		}()
		synctest.Wait()
		select {
		case r.storeErr = <-stored:
			r.storeDone = true
		default:
		}
		select {
		case r.readErr = <-read:
			r.readDone = true
		default:
		}
		x.Obs("k=%d store=%v read=%v", k, r.storeDone, r.readDone)
		dcancel() // releases whatever still waits for the deadliner so that the execution can end
		synctest.Wait()
		<-done
	}
	sc.StateKey = func(x *schedx.Exec) string { return "" }
	sc.Outcome = func(x *schedx.Exec) string {
		r := x.Data.(*res)
		return fmt.Sprintf("store=%v read=%v", r.storeDone, r.readDone)
	}
	sc.Check = func(x *schedx.Exec) []schedx.Violation {
		r := x.Data.(*res)
		var out []schedx.Violation
		switch {
		case r.preErr != nil:
			out = append(out, schedx.Violation{Signature: "kind=store-failed-without-conflict where=mass-expiry-setup", Description: fmt.Sprintf("store of an unexpired duty failed: %v", r.preErr)})
		case !r.storeDone:
			out = append(out, schedx.Violation{Signature: "kind=store-blocked after=mass-expiry", Description: fmt.Sprintf("after %d duties of the store's deadliner expired together, a Store of an unexpired duty never returned", k)})
		case r.storeErr != nil:
			out = append(out, schedx.Violation{Signature: "kind=store-failed-without-conflict after=mass-expiry", Description: fmt.Sprintf("after %d duties expired together, the Store of an unexpired duty failed: %v", k, r.storeErr)})
		case !r.readDone || r.readErr != nil:
			out = append(out, schedx.Violation{Signature: "kind=query-not-answered after=mass-expiry", Description: fmt.Sprintf("after %d duties expired together, the query for a stored unexpired proposal did not return (done=%v err=%v)", k, r.readDone, r.readErr)})
		}
		return out
	}
	return sc
}

// c06expiryBetweenCheckAndWrite: the deadline of a duty passes - and another Store consumes the deadliner's report of it - while a
// Store for that duty is under way. "Data for expired duties is refused" then means: whatever that Store does, once the deadline
// has passed, every Store of the duty has returned and one more Store (of anything) has run from start to end, the duty store holds
// nothing of the duty any more (the report is delivered once; data written after it was consumed would stay for ever). The
// deadliner runs on a fake clock that a harness thread moves, so that "the deadline passes" is an operation that can be scheduled
// between any two steps of the other threads (bubble time only moves when nothing is enabled).
func c06expiryBetweenCheckAndWrite() *schedx.Scenario {
	sc := &schedx.Scenario{Name: "att-expiry-between-check-and-write", Params: map[string]any{}}
	type res struct {
		mu                                               sync.Mutex
		seq                                              int
		xStart, xDone, adv, settleStart, settleDone      int
		xErr, otherErr, settleErr                        error
		probeDone, probeFound, awaitServed, awaitChecked bool
		db                                               *MemDB
	}
	attD := core.NewAttesterDuty(10)
	X := c06att("X", core.PubKey("0xaaaa"), 10, 3, 1, 0x11, 1)
	L := c06att("L", core.PubKey("0xaaaa"), 20, 3, 1, 0x11, 1)
	L2 := c06att("L2", core.PubKey("0xaaaa"), 30, 3, 1, 0x11, 1)
	sc.Setup = func(x *schedx.Exec) {
		fc := clockwork.NewFakeClock()
		t0 := fc.Now()
		dl := core.NewDeadlinerForT(x.Ctx, x.TB, func(duty core.Duty) (time.Time, bool) {
			if duty == attD {
				return t0.Add(10 * time.Second), true
			}
			return t0.Add(1000 * time.Hour), true
		}, fc)
		r := &res{db: NewMemDB(dl)}
		x.Data = r
		tick := func() int {
			r.mu.Lock()
			defer r.mu.Unlock()
			r.seq++
			return r.seq
		}
		x.Go("store", func(t *schedx.T) {
			r.xStart = tick()
			err := r.db.Store(x.Ctx, attD, core.UnsignedDataSet{X.pk: X.data})
			t.Point("ret")
			r.xErr, r.xDone = err, tick()
			x.Obs("store=%v", err != nil)
		})
		x.Go("clock", func(t *schedx.T) {
			fc.Advance(11 * time.Second)
			t.Point("advanced") // the deadliner's goroutine has handled its timer when the next step starts
			r.adv = tick()
			x.Obs("deadline-passed")
		})
		x.Go("other", func(t *schedx.T) {
			err := r.db.Store(x.Ctx, core.NewAttesterDuty(20), core.UnsignedDataSet{L.pk: L.data})
			t.Point("ret")
			r.otherErr = err
			x.Obs("other=%v", err != nil)
		})
		x.Go("settle", func(t *schedx.T) {
			r.settleStart = tick()
			err := r.db.Store(x.Ctx, core.NewAttesterDuty(30), core.UnsignedDataSet{L2.pk: L2.data})
			t.Point("ret")
			r.settleErr, r.settleDone = err, tick()
			t.Point("probe")
			_, perr := r.db.PubKeyByAttestation(x.Ctx, 10, 3, 1)
			r.probeFound, r.probeDone = perr == nil, true
			x.Obs("settle=%v probe=%v", err != nil, r.probeFound)
		})
	}
	sc.StateKey = func(x *schedx.Exec) string { return c06dump(x.Data.(*res).db) }
	sc.Outcome = func(x *schedx.Exec) string {
		r := x.Data.(*res)
		return fmt.Sprintf("store=%v probe=%v order=%v", r.xErr != nil, r.probeFound, r.settleStart > r.adv && r.settleStart > r.xDone)
	}
	sc.Check = func(x *schedx.Exec) []schedx.Violation {
		r := x.Data.(*res)
		var out []schedx.Violation
		if r.adv == 0 || r.xDone == 0 || !r.probeDone {
			return out // an operation did not finish: judged by the other scenarios
		}
		if r.otherErr != nil || r.settleErr != nil {
			out = append(out, schedx.Violation{Signature: "kind=store-failed-without-conflict where=expiry-between-check-and-write",
				Description: fmt.Sprintf("a Store of an unexpired duty failed: %v %v", r.otherErr, r.settleErr)})
		}
		if r.xStart > r.adv && r.xErr == nil {
			out = append(out, schedx.Violation{Signature: "kind=expired-store-accepted", Description: "a Store that started after the duty's deadline returned nil"})
		}
		if r.settleStart > r.adv && r.settleStart > r.xDone && r.probeFound {
			out = append(out, schedx.Violation{Signature: "kind=expired-duty-still-served after=deadline-and-a-complete-later-store",
				Description: fmt.Sprintf("the deadline of %v passed (logical instant %d), its Store returned (instant %d, error %v), a Store of another duty then ran from start (instant %d) to end - and PubKeyByAttestation still answers for the expired duty: data was written after the deadliner's report of the duty had been consumed, it is never trimmed",
					attD, r.adv, r.xDone, r.xErr, r.settleStart)})
		}
		return out
	}
	return sc
}

func c06scenarios() []*schedx.Scenario {
	thorough := schedx.Tier() == "thorough"
	attD := core.NewAttesterDuty(10)
	proD := core.NewProposerDuty(10)
	aggD := core.NewAggregatorDuty(10)
	conD := core.NewSyncContributionDuty(10)
	PA, PB := core.PubKey("0xaaaa"), core.PubKey("0xbbbb")

	X := c06att("X", PA, 10, 3, 1, 0x11, 1)
	X2 := c06att("X'", PA, 10, 3, 1, 0x11, 1)
	Y := c06att("Y", PA, 10, 3, 1, 0x99, 1)   // same key, other head: clash
	Z := c06att("Z", PB, 10, 4, 2, 0x99, 1)   // other committee, other head, same source/target: alias accepted, first stays
	W := c06att("W", PB, 10, 4, 2, 0x11, 7)   // other committee, other source: alias clash after storing its own key
	Kc := c06att("Kc", PB, 10, 3, 1, 0x11, 1) // same (slot,comm,val) but another pubkey: clashing public key
	P := c06pro("P", PA, 10, 1)
	P2 := c06pro("P'", PA, 10, 1)
	Q := c06pro("Q", PA, 10, 2)
	G1, groot := c06agg("G1", PA, 10, 0x11, 0x03)
	G2, _ := c06agg("G2", PB, 10, 0x11, 0x0f) // same data root, more bits: replaces (informational)
	H1, hroot := c06agg("H1", PB, 10, 0x77, 0x03)
	c1 := c06contribRaw(10, 1, 0x44, 0x03)
	c1d := c06contribRaw(10, 1, 0x44, 0x0f) // same key, other bits: clash
	c2 := c06contribRaw(10, 2, 0x44, 0x03)
	C1 := c06con("C1", PA, c1)
	C1b := c06con("C1'", PA, c06contribRaw(10, 1, 0x44, 0x03))
	D1 := c06con("D1", PA, c1d)
	CP := c06con("CP", PA, c1, c2)
	DP := c06con("DP", PB, c2, c1d) // second entry clashes after the first was stored
	C2b := c06con("C2b", PB, c06contribRaw(10, 2, 0x44, 0x03))

	S := func(n string, duty core.Duty, items ...c06item) c06op {
		return c06op{kind: "S", name: n, duty: duty, items: items}
	}
	RA := func(n string, slot, comm uint64) c06op {
		return c06op{kind: "RA", name: n, slot: slot, a: comm, key: fmt.Sprintf("att/%d/%d", slot, comm)}
	}
	RP := func(n string, slot uint64) c06op {
		return c06op{kind: "RP", name: n, slot: slot, key: fmt.Sprintf("pro/%d", slot)}
	}
	RG := func(n string, slot uint64, root eth2p0.Root) c06op {
		return c06op{kind: "RG", name: n, slot: slot, root: root, key: fmt.Sprintf("agg/%d/%x/0", slot, root[:4])}
	}
	RC := func(n string, slot, sub uint64, blk byte) c06op {
		r := c06root(blk)
		return c06op{kind: "RC", name: n, slot: slot, a: sub, root: r, key: fmt.Sprintf("con/%d/%d/%x", slot, sub, r[:2])}
	}
	PK := func(n string, slot, comm, val uint64) c06op {
		return c06op{kind: "PK", name: n, slot: slot, a: comm, b: val, key: fmt.Sprintf("pk/%d/%d/%d", slot, comm, val)}
	}
	C := func(n, target string) c06op { return c06op{kind: "C", name: n, target: target} }
	T := func(ops ...c06op) []c06op {
		return ops
	}
	name := func(ths [][]c06op) [][]c06op {
		for ti := range ths {
			for oi := range ths[ti] {
				ths[ti][oi].name = fmt.Sprintf("T%d.%s", ti, ths[ti][oi].name)
			}
		}
		return ths
	}
	var scs []*schedx.Scenario
	add := func(n string, rots int, ths ...[]c06op) { scs = append(scs, c06scenario(n, name(ths), nil, nil, rots)) }
	// attestations
	add("att-2readers-1writer", 1, T(RA("ra", 10, 3)), T(RA("ra", 10, 3)), T(S("sX", attD, X)))
	add("att-readers-2keys-writer-both", 2, T(RA("ra3", 10, 3)), T(RA("ra4", 10, 4)), T(S("sXZ", attD, X, Z)), T(PK("pk", 10, 4, 2)))
	add("att-conflicting-writers-reader", 1, T(S("sX", attD, X)), T(S("sY", attD, Y)), T(RA("ra", 10, 3), RA("ra2", 10, 3)))
	add("att-equal-writers-reader", 1, T(S("sX", attD, X)), T(S("sX2", attD, X2)), T(RA("ra", 10, 3)), T(PK("pk", 10, 3, 1)))
	add("att-alias-readers", 2, T(RA("ra0", 10, 0)), T(S("sX", attD, X)), T(S("sZ", attD, Z)), T(RA("ra0b", 10, 0), RA("ra4", 10, 4)))
	add("att-alias-clash-partial", 2, T(RA("ra0", 10, 0), RA("ra4", 10, 4)), T(S("sX", attD, X)), T(S("sW", attD, W)))
	add("att-pubkey-clash", 2, T(S("sX", attD, X)), T(S("sKc", attD, Kc)), T(PK("pk", 10, 3, 1), PK("pk0", 10, 0, 1)))
	add("att-reader-cancel-writer", 1, T(RA("ra", 10, 3)), T(C("c", "T0")), T(S("sX", attD, X)), T(RA("ra", 10, 3)))
	add("att-multi-entry-second-clashes", 2, T(S("sY", attD, Y)), T(RA("ra4", 10, 4)), T(S("sXZ", attD, X, Z)), T(RA("ra3", 10, 3)))
	// a store that failed half-way (its first entry was stored, the second clashed) followed by a successful store of
	// the same first entry: the reader of that entry must be served by the successful store although it adds nothing new
	add("att-failed-multi-then-successful-restore", 2, T(S("sY", attD, Y), RA("ra4", 10, 4)), T(S("sXZ", attD, X, Z), S("sZ", attD, Z)))
	add("att-failed-multi-then-successful-restore-3t", 2, T(S("sY", attD, Y)), T(RA("ra4", 10, 4)), T(S("sXZ", attD, X, Z), S("sZ", attD, Z)))
	// duties that really are in committee 0 (the boundary at which a duty's own key coincides with the committee-index-0 alias
	// key that every other committee also writes): two validators of committee 0 with data differing only in the head clash
	// like in any other committee; a committee-0 duty and a duty of another committee with another head coexist through the alias
	X0 := c06att("X0", PA, 10, 0, 1, 0x11, 1)
	X0b := c06att("X0'", PA, 10, 0, 1, 0x11, 1)
	Y0 := c06att("Y0", PB, 10, 0, 2, 0x99, 1) // same committee 0, other validator, other head: clash
	V0 := c06att("V0", PB, 10, 0, 2, 0x11, 1) // same committee 0, other validator, equal data
	K0 := c06att("K0", PB, 10, 0, 1, 0x11, 1) // same (slot, 0, validator), other pubkey
	add("att-comm0-conflicting-writers-reader", 1, T(S("sX0", attD, X0)), T(S("sY0", attD, Y0)), T(RA("ra0", 10, 0), RA("ra0b", 10, 0)), T(PK("pk1", 10, 0, 1), PK("pk2", 10, 0, 2)))
	add("att-comm0-one-store-two-validators-clash", 2, T(RA("ra0", 10, 0)), T(S("sX0Y0", attD, X0, Y0)), T(PK("pk1", 10, 0, 1), PK("pk2", 10, 0, 2), RA("ra0b", 10, 0)))
	add("att-comm0-equal-writers", 2, T(RA("ra0", 10, 0)), T(S("sX0V0", attD, X0, V0)), T(S("sX0b", attD, X0b)), T(PK("pk2", 10, 0, 2)))
	add("att-comm0-pubkey-clash", 1, T(S("sX0", attD, X0)), T(S("sK0", attD, K0)), T(PK("pk1", 10, 0, 1)))
	add("att-comm0-with-other-committee", 2, T(RA("ra0", 10, 0), RA("ra4", 10, 4)), T(S("sX0", attD, X0)), T(S("sZ", attD, Z)), T(S("sY0", attD, Y0)))
	// proposals
	add("pro-2readers-conflicting-writers", 1, T(RP("rp", 10)), T(RP("rp", 10)), T(S("sP", proD, P)), T(S("sQ", proD, Q)))
	add("pro-equal-writers-cancel", 1, T(RP("rp", 10)), T(C("c", "T0")), T(S("sP", proD, P)), T(S("sP2", proD, P2), RP("rp", 10)))
	// aggregates
	add("agg-readers-2roots", 2, T(RG("rg", 10, groot)), T(RG("rh", 10, hroot)), T(S("sGH", aggD, G1, H1)), T(S("sG2", aggD, G2)))
	add("agg-replace-same-root", 1, T(RG("rg", 10, groot)), T(S("sG1", aggD, G1)), T(S("sG2", aggD, G2)), T(RG("rg2", 10, groot)))
	// sync contributions
	add("con-clash", 1, T(RC("rc", 10, 1, 0x44)), T(S("sC1", conD, C1)), T(S("sD1", conD, D1)), T(RC("rc2", 10, 1, 0x44)))
	add("con-equal-plural", 2, T(RC("rc1", 10, 1, 0x44)), T(RC("rc2", 10, 2, 0x44)), T(S("sCP", conD, CP)), T(S("sC1b", conD, C1b)))
	add("con-failed-plural-then-successful-restore", 1, T(S("sC1", conD, C1), RC("rc2", 10, 2, 0x44)), T(S("sDP", conD, DP), S("sC2b", conD, C2b)))
	add("con-plural-second-clashes", 2, T(RC("rc2", 10, 2, 0x44)), T(S("sC1", conD, C1)), T(S("sDP", conD, DP)), T(RC("rc1", 10, 1, 0x44)))
	add("con-two-validators", 2, T(RC("rc1", 10, 1, 0x44)), T(RC("rc2", 10, 2, 0x44)), T(S("sC12", conD, C1, C2b)))
	// mixed duty types: a store of one type must not be needed to wake readers of another
	add("mixed-types", 1, T(RA("ra", 10, 3)), T(RP("rp", 10)), T(S("sX", attD, X)), T(S("sP", proD, P)))
	// expiry: deadline of the attester duty at 10s; a later store of another slot performs the deletion
	late := c06att("L", PA, 20, 3, 1, 0x11, 1)
	exp := map[core.Duty]time.Duration{attD: 10 * time.Second}
	scs = append(scs, c06scenario("att-expiry", name([][]c06op{
		T(S("sX", attD, X)), T(RA("ra", 10, 3)), T(S("sY", attD, Y)), T(S("sL", core.NewAttesterDuty(20), late), RA("ra2", 10, 3)),
	}), []time.Duration{11 * time.Second}, exp, 1))
	scs = append(scs, c06stalledExpiry(attD, X, X2))
	scs = append(scs, c06expiryBetweenCheckAndWrite())
	for _, k := range []int{1, 9, 10, 11, 12, 25} {
		scs = append(scs, c06massExpiry(k))
	}
	if thorough {
		add("att-3readers-2writers", 2, T(RA("ra3", 10, 3)), T(RA("ra0", 10, 0)), T(RA("ra4", 10, 4)), T(S("sX", attD, X)), T(S("sZY", attD, Z, Y)))
		add("pro-att-cancel-mix", 1, T(RP("rp", 10)), T(RA("ra", 10, 3)), T(C("c", "T0")), T(S("sX", attD, X), S("sP", proD, P)), T(S("sQ", proD, Q)))
		scs = append(scs, c06scenario("att-expiry-2", name([][]c06op{
			T(S("sX", attD, X)), T(RA("ra", 10, 3)), T(RA("ra0", 10, 0)), T(S("sZ", attD, Z)), T(S("sL", core.NewAttesterDuty(20), late)),
		}), []time.Duration{11 * time.Second}, exp, 1))
	}
	return scs
}

func TestVerifC06(t *testing.T) {
	e := schedx.NewExplorer(t, "C06")
	if schedx.Tier() == "thorough" {
		e.Bounds = []int{0, 1, 2, 3, -1}
	} else {
		e.Bounds = []int{0, 1, 2}
	}
	e.Explore(c06scenarios())
	e.Finish()
}
