package dutydb

// Free-running pass of the C06 operation mix under the race detector (DESIGN.md §4.5).

import (
	"context"
	"sync"
	"testing"
	"time"

	eth2p0 "github.com/attestantio/go-eth2-client/spec/phase0"

	"github.com/obolnetwork/charon/core"
)

func TestVerifRaceC06(t *testing.T) {
	attD := core.NewAttesterDuty(10)
	proD := core.NewProposerDuty(10)
	aggD := core.NewAggregatorDuty(10)
	conD := core.NewSyncContributionDuty(10)
	X := c06att("X", "0xaaaa", 10, 3, 1, 0x11, 1)
	Y := c06att("Y", "0xaaaa", 10, 3, 1, 0x99, 1)
	Z := c06att("Z", "0xbbbb", 10, 4, 2, 0x99, 1)
	P := c06pro("P", "0xaaaa", 10, 1)
	Q := c06pro("Q", "0xaaaa", 10, 2)
	G1, groot := c06agg("G1", "0xaaaa", 10, 0x11, 0x03)
	G2, _ := c06agg("G2", "0xbbbb", 10, 0x11, 0x0f)
	C1 := c06con("C1", "0xaaaa", c06contribRaw(10, 1, 0x44, 0x03))
	for rep := 0; rep < 150; rep++ {
		ctx, cancel := context.WithTimeout(context.Background(), 300*time.Millisecond)
		start := time.Now()
		db := NewMemDB(core.NewDeadliner(ctx, "race", func(core.Duty) (time.Time, bool) { return start.Add(time.Hour), true }))
		var wg sync.WaitGroup
		store := func(d core.Duty, items ...c06item) {
			defer wg.Done()
			set := core.UnsignedDataSet{}
			for _, it := range items {
				set[it.pk] = it.data
			}
			_ = db.Store(ctx, d, set)
		}
		rctx, rc := context.WithTimeout(ctx, 100*time.Millisecond)
		wg.Add(14)
		go store(attD, X, Z)
		go store(attD, Y)
		go store(proD, P)
		go store(proD, Q)
		go store(aggD, G1)
		go store(aggD, G2)
		go store(conD, C1)
		for i := 0; i < 2; i++ {
			go func() {
				defer wg.Done()
				if v, err := db.AwaitAttestation(rctx, 10, 3); err == nil {
					_ = v.Slot + eth2p0.Slot(v.Index) // readers only read here: sharing of stored pointers is C18's subject
				}
			}()
		}
		go func() { defer wg.Done(); _, _ = db.AwaitAttestation(rctx, 10, 0) }()
		go func() { defer wg.Done(); _, _ = db.AwaitProposal(rctx, 10) }()
		go func() { defer wg.Done(); _, _ = db.AwaitAggAttestation(rctx, 10, groot, 0) }()
		go func() { defer wg.Done(); _, _ = db.AwaitSyncContribution(rctx, 10, 1, c06root(0x44)) }()
		go func() { defer wg.Done(); _, _ = db.PubKeyByAttestation(rctx, 10, 3, 1) }()
		wg.Wait()
		rc()
		cancel()
	}
}
