package cluster

// C12 part (b) – cluster definition/lock files are tamper-evident in every supported format version.
//
// For every supported version a valid definition+lock is built (cluster.NewForT + everything the version can
// carry: deposit data, builder registrations, node signatures, deposit amounts, consensus protocol, ...),
// serialised, and the JSON tree is walked generically: every object member, array element and scalar leaf is
// altered one at a time (changed value of the same type, emptied, removed, array element duplicated /
// swapped, version relabelled). The altered file is fed to the real loading path (json.Unmarshal into
// cluster.Lock / cluster.Definition, VerifyHashes, VerifySignatures). Oracle = the property statement: the
// altered file must fail to decode or fail verification, unless the alteration decodes to the very same
// content (not a change) or the field is in the table of fields the format does not hash or sign
// (c12bNotCovered – trusted base, every entry cites the code that shows it).
// Also: decode->encode->decode keeps config_hash/definition_hash/lock_hash, and a lock whose public shares or
// group key were replaced and which was then *consistently re-hashed and re-signed* by the key holders is
// still rejected (share reconstruction check).
// The part (a) harness (package cmd) covers the artifacts written by `charon create cluster`.

import (
	"bytes"
	"encoding/base64"
	"encoding/hex"
	"encoding/json"
	"fmt"
	"math/rand"
	"os"
	"path/filepath"
	"reflect"
	"regexp"
	"sort"
	"strconv"
	"strings"
	"testing"
	"time"

	eth2p0 "github.com/attestantio/go-eth2-client/spec/phase0"
	k1 "github.com/decred/dcrd/dcrec/secp256k1/v4"

	"github.com/obolnetwork/charon/app/eth1wrap"
	"github.com/obolnetwork/charon/app/k1util"
	"github.com/obolnetwork/charon/eth2util"
	"github.com/obolnetwork/charon/eth2util/deposit"
	"github.com/obolnetwork/charon/tbls"
	"github.com/obolnetwork/charon/zzverif/enumx"
)

// ---- trusted base: what the formats do NOT protect ---------------------------------------------------------

// c12bNotCovered lists (version, document, field, alteration) combinations that the format does not detect
// by design. Everything else that appears in a definition or lock JSON file is claimed to be covered:
//   - cluster/ssz.go hashDefinitionLegacy / hashDefinitionV1x3or4 / hashDefinitionV1x5to9 (+V1x8to10 extras) /
//     hashDefinitionV1x11 put uuid, name, version, timestamp, num_validators, threshold, fee-recipient and
//     withdrawal addresses, dkg_algorithm, fork_version, operator address (config hash) and ENR + both operator
//     signatures (definition hash), creator (>= v1.4), deposit_amounts (>= v1.8), consensus_protocol (>= v1.9),
//     target_gas_limit and compounding (>= v1.10) and config_hash itself (definition hash) into the hashes;
//     v1.0 leaves the timestamp out of the definition hash but hashes a non-empty timestamp into the config hash;
//   - hashLockLegacy / hashLockV1x3orLater hash the whole definition plus, per validator, the group key and
//     every public share, deposit data (hashDepositDataV1x6 / V1x7OrLater, >= v1.6; all partial deposits
//     >= v1.8 via hashValidatorV1x8OrLater) and the builder registration (hashBuilderRegistration, >= v1.7);
//   - config_hash, definition_hash and lock_hash are compared with the recomputation (VerifyHashes);
//   - signature_aggregate and node_signatures (>= v1.7) are not hashed (lock_hash:"-") but verified by
//     Lock.VerifySignatures / verifyNodeSignatures; operators[].nonce (v1.0/v1.1) must be 0 to decode.
//
// The only exception found in the code:
var c12bNotCovered = []struct {
	versions []string
	doc      string
	path     *regexp.Regexp // generic path (array indices replaced by *)
	kinds    []string
	why      string
}{
	{
		versions: []string{v1_0, v1_1},
		doc:      "lock",
		path:     regexp.MustCompile(`^signature_aggregate$`),
		kinds:    []string{"empty", "remove"},
		why: "cluster/ssz.go hashLockLegacy hashes only Definition and Validators (Lock.SignatureAggregate is tagged lock_hash:\"-\"), " +
			"and cluster/lock.go Lock.VerifySignatures returns nil for an EMPTY aggregate signature in v1.0/v1.1 " +
			"(\"Earlier versions of `charon create cluster` didn't populate SignatureAggregate\"). A present but altered " +
			"aggregate signature is still verified, so only emptying/removing it is exempt",
	},
}

func c12bExempt(version, doc, gpath, kind string) (bool, string) {
	for _, e := range c12bNotCovered {
		if e.doc != doc || !isAnyVersion(version, e.versions...) || !e.path.MatchString(gpath) {
			continue
		}
		for _, k := range e.kinds {
			if k == kind {
				return true, e.why
			}
		}
	}
	return false, ""
}

// ---- fixtures -------------------------------------------------------------------------------------------

var c12bAllVersions = []string{v1_0, v1_1, v1_2, v1_3, v1_4, v1_5, v1_6, v1_7, v1_8, v1_9, v1_10, v1_11}

type c12bFixID struct {
	Version string `json:"version"`
	Variant string `json:"variant"` // signed: operators+creator EIP-712 signed; unsigned: create-cluster style (no operator addresses/signatures, no creator)
	Shape   [3]int `json:"shape"`   // validators, threshold, nodes
	Network string `json:"network"`
	Example string `json:"example,omitempty"` // variant "example": a file of /repo/cluster/examples (written by older charon releases)
	Sizes   string `json:"sizes,omitempty"`   // name of a sizes spec (zz_verif_c12sizes_test.go): boundary lengths / element counts, Safe signature lists
}

func (f c12bFixID) tag() string {
	s := strings.TrimSuffix(f.Version, ".0")
	if f.Variant == "example" {
		return s + "+" + strings.TrimSuffix(f.Example, ".json")
	}
	if f.Variant != "signed" {
		s += "+" + f.Variant
	}
	if f.Sizes != "" {
		s += "+sz:" + f.Sizes
	}
	if f.Shape != [3]int{2, 3, 4} {
		s += fmt.Sprintf("+%dof%dx%d", f.Shape[1], f.Shape[2], f.Shape[0])
	}
	if f.Network != eth2util.Goerli.Name {
		s += "+" + f.Network
	}
	return s
}

type c12bFix struct {
	id       c12bFixID
	lock     Lock
	p2p      []*k1.PrivateKey
	shares   [][]tbls.PrivateKey
	roots    []tbls.PrivateKey
	lockJSON []byte // nil if the fixture has no lock document
	defJSON  []byte // nil if the fixture has no definition document
	hasMem   bool   // lock/p2p/shares hold the object the files were encoded from
}

func c12bRootSecret(shares []tbls.PrivateKey, k, n int) (tbls.PrivateKey, error) {
	m := map[int]tbls.PrivateKey{}
	for i := 0; i < k; i++ {
		m[i+1] = shares[i]
	}
	return tbls.RecoverSecret(m, uint(n), uint(k))
}

func c12bDepositData(secret tbls.PrivateKey, withdrawalAddr, network string, amount eth2p0.Gwei) (DepositData, error) {
	pk, err := tbls.SecretToPublicKey(secret)
	if err != nil {
		return DepositData{}, err
	}
	msg, err := deposit.NewMessage(eth2p0.BLSPubKey(pk), withdrawalAddr, amount, false)
	if err != nil {
		return DepositData{}, err
	}
	root, err := deposit.GetMessageSigningRoot(msg, network)
	if err != nil {
		return DepositData{}, err
	}
	sig, err := tbls.Sign(secret, root[:])
	if err != nil {
		return DepositData{}, err
	}
	return DepositData{PubKey: pk[:], WithdrawalCredentials: msg.WithdrawalCredentials, Amount: int(amount), Signature: sig[:]}, nil
}

// c12bSeal recomputes lock hash, aggregate signature and node signatures (what the key holders could do).
func c12bSeal(lock Lock, p2p []*k1.PrivateKey, shares [][]tbls.PrivateKey) (Lock, error) {
	lock.NodeSignatures = nil
	lock, err := lock.SetLockHash()
	if err != nil {
		return Lock{}, err
	}
	lock.SignatureAggregate, err = aggSign(shares, lock.LockHash)
	if err != nil {
		return Lock{}, err
	}
	if SupportNodeSignatures(lock.Version) {
		for _, key := range p2p {
			sig, err := k1util.Sign(key, lock.LockHash)
			if err != nil {
				return Lock{}, err
			}
			lock.NodeSignatures = append(lock.NodeSignatures, sig)
		}
	}
	return lock, nil
}

func c12bBuild(t *testing.T, id c12bFixID) (*c12bFix, error) {
	if id.Variant == "example" {
		b, err := c12norm(func() ([]byte, error) { return os.ReadFile(filepath.Join("examples", id.Example)) })
		if err != nil {
			return nil, err
		}
		f := &c12bFix{id: id}
		if strings.Contains(id.Example, "lock") {
			f.lockJSON = b
		} else {
			f.defJSON = b
		}
		return f, nil
	}
	if id.Sizes != "" {
		return c12szBuild(t, id)
	}
	version := id.Version
	dv, k, n := id.Shape[0], id.Shape[1], id.Shape[2]
	const seed = 12
	random := rand.New(rand.NewSource(seed))
	forkVersion, err := eth2util.NetworkToForkVersionBytes(id.Network)
	if err != nil {
		return nil, err
	}
	opts := []func(*Definition){
		WithVersion(version),
		WithForkVersion(forkVersion),
		func(d *Definition) {
			d.Name = "c12 cluster"
			d.Timestamp = "2024-05-06T07:08:09Z"
			if !supportTargetGasLimit(version) {
				d.TargetGasLimit = 0
			}
			if SupportPartialDeposits(version) {
				d.DepositAmounts = deposit.EthsToGweis([]int{8, 24})
			}
			if !isAnyVersion(version, v1_0, v1_1, v1_2, v1_3, v1_4, v1_5, v1_6, v1_7, v1_8) {
				d.ConsensusProtocol = "qbft"
			}
		},
	}
	if isAnyVersion(version, v1_0, v1_1, v1_2, v1_3, v1_4) {
		// Single fee-recipient/withdrawal address before v1.5.
		opts = append(opts, WithLegacyVAddrs("0x00fdfc072182654f163f5f0f9a621d729566c700", "0x00037c4d7bbb0407d1e2c64981855ad8681d0d00"))
	}
	lock, p2p, shares := NewForT(t, dv, k, n, seed, random, opts...)

	def := lock.Definition
	if id.Variant == "unsigned" {
		ops := make([]Operator, len(def.Operators))
		for i, o := range def.Operators {
			ops[i] = Operator{ENR: o.ENR, ConfigSignature: []byte{}, ENRSignature: []byte{}}
		}
		def.Operators = ops
		def.Creator = Creator{}
		// addresses with a zero byte at either end (nothing signs the unsigned variant's config, so they can be set here; the
		// builder registrations are re-signed for them below). Versions before v1.5 carry ONE address pair for all validators,
		// which WithLegacyVAddrs above already set to zero-edged values.
		if !isAnyVersion(version, v1_0, v1_1, v1_2, v1_3, v1_4) {
			va := make([]ValidatorAddresses, len(def.ValidatorAddresses))
			for i := range va {
				va[i] = ValidatorAddresses{
					FeeRecipientAddress: fmt.Sprintf("0x00fdfc072182654f163f5f0f9a621d729566%02x00", i+1),
					WithdrawalAddress:   fmt.Sprintf("0x00037c4d7bbb0407d1e2c64981855ad8681d%02x00", i+1),
				}
			}
			def.ValidatorAddresses = va
		}
	}
	if isAnyVersion(version, v1_0, v1_1, v1_2, v1_3) {
		def.Creator = Creator{} // no creator before v1.4
	}
	def, err = def.SetDefinitionHashes()
	if err != nil {
		return nil, err
	}
	lock.Definition = def

	f := &c12bFix{id: id, p2p: p2p, shares: shares, hasMem: true}
	vals := make([]DistValidator, len(lock.Validators))
	copy(vals, lock.Validators)
	for v := range vals {
		root, err := c12bRootSecret(shares[v], k, n)
		if err != nil {
			return nil, err
		}
		f.roots = append(f.roots, root)
		vals[v].PartialDepositData = nil
		var amounts []eth2p0.Gwei
		switch {
		case isAnyVersion(version, v1_0, v1_1, v1_2, v1_3, v1_4, v1_5):
		case isAnyVersion(version, v1_6, v1_7):
			amounts = []eth2p0.Gwei{deposit.DefaultDepositAmount}
		default:
			amounts = deposit.DedupAmounts(def.DepositAmounts)
		}
		for _, a := range amounts {
			dd, err := c12bDepositData(root, def.ValidatorAddresses[v].WithdrawalAddress, id.Network, a)
			if err != nil {
				return nil, err
			}
			vals[v].PartialDepositData = append(vals[v].PartialDepositData, dd)
		}
		if !SupportPregenRegistrations(version) {
			vals[v].BuilderRegistration = BuilderRegistration{}
		} else if id.Variant == "unsigned" {
			// the registration signs the fee recipient, which the unsigned variant replaced
			vals[v].BuilderRegistration = getSignedRegistration(t, root, def.ValidatorAddresses[v].FeeRecipientAddress, id.Network)
		}
	}
	lock.Validators = vals
	lock, err = c12bSeal(lock, p2p, shares)
	if err != nil {
		return nil, err
	}
	f.lock = lock
	if f.lockJSON, err = c12norm(func() ([]byte, error) { return json.Marshal(lock) }); err != nil {
		return nil, err
	}
	if f.defJSON, err = c12norm(func() ([]byte, error) { return json.Marshal(lock.Definition) }); err != nil {
		return nil, err
	}
	return f, nil
}

// c12norm re-serialises through the generic tree so that byte comparison with mutated documents is meaningful.
func c12norm(mk func() ([]byte, error)) ([]byte, error) {
	b, err := mk()
	if err != nil {
		return nil, err
	}
	tree, err := c12parse(b)
	if err != nil {
		return nil, err
	}
	return json.Marshal(tree)
}

// ---- generic JSON tree mutation ------------------------------------------------------------------------------

func c12parse(b []byte) (any, error) {
	dec := json.NewDecoder(bytes.NewReader(b))
	dec.UseNumber()
	var v any
	err := dec.Decode(&v)
	return v, err
}

type c12mutID struct {
	Path []string
	Kind string
}

func (m c12mutID) path() string { return strings.Join(m.Path, "/") }

var c12idx = regexp.MustCompile(`^[0-9]+$`)

// gpath replaces array indices by '*'.
func (m c12mutID) gpath() string {
	p := make([]string, len(m.Path))
	for i, e := range m.Path {
		if c12idx.MatchString(e) {
			p[i] = "*"
		} else {
			p[i] = e
		}
	}
	return strings.Join(p, "/")
}

func c12enum(node any, path []string, out *[]c12mutID) {
	add := func(kinds ...string) {
		for _, k := range kinds {
			*out = append(*out, c12mutID{Path: append([]string(nil), path...), Kind: k})
		}
	}
	switch x := node.(type) {
	case map[string]any:
		if len(path) > 0 {
			add("remove", "empty")
		}
		keys := make([]string, 0, len(x))
		for k := range x {
			keys = append(keys, k)
		}
		sort.Strings(keys)
		for _, k := range keys {
			c12enum(x[k], append(path, k), out)
		}
	case []any:
		add("remove", "empty")
		for i, e := range x {
			p := append(path, strconv.Itoa(i))
			c12enum(e, p, out)
			*out = append(*out, c12mutID{Path: append([]string(nil), p...), Kind: "dup"})
			if i+1 < len(x) {
				*out = append(*out, c12mutID{Path: append([]string(nil), p...), Kind: "swap"})
			}
		}
	case string:
		if x == "" {
			add("remove", "set0x", "setb64")
		} else {
			add("remove", "empty", "flip0", "flipM", "flipL", "other")
			if _, _, ok := c12bytesOf(x); ok {
				// length changes of byte strings: the hashing pads some fields, so a byte string that lost or gained a zero byte
				// at either end is a different file that may hash the same
				add("dropB0", "dropBL", "padB0", "padBL")
			}
		}
		if len(path) > 0 && path[len(path)-1] == "version" {
			for _, v := range c12bAllVersions {
				if v != x {
					add("ver=" + v)
				}
			}
		}
	case json.Number:
		add("remove", "zero", "inc")
	case bool:
		add("remove", "not", "false")
	case nil:
		add("remove", "setb64")
	}
}

func c12isHex(s string) bool {
	if len(s) == 0 {
		return false
	}
	for i := 0; i < len(s); i++ {
		c := s[i]
		if !(c >= '0' && c <= '9' || c >= 'a' && c <= 'f' || c >= 'A' && c <= 'F') {
			return false
		}
	}
	return true
}

// c12flipChar returns a different character of the same class (never a mere change of case).
func c12flipChar(c byte, hexMode bool) (byte, bool) {
	const lo, up = "0123456789abcdef", "0123456789ABCDEF"
	if hexMode {
		if i := strings.IndexByte(lo, c); i >= 0 {
			return lo[(i+1)%16], true
		}
		if i := strings.IndexByte(up, c); i >= 0 {
			return up[(i+1)%16], true
		}
		return c, false
	}
	switch {
	case c >= '0' && c <= '9':
		return '0' + (c-'0'+1)%10, true
	case c >= 'a' && c <= 'z':
		return 'a' + (c-'a'+1)%26, true
	case c >= 'A' && c <= 'Z':
		return 'A' + (c-'A'+1)%26, true
	}
	return c, false
}

// c12flip changes one character near the requested position (0 first, 1 middle, 2 last).
func c12flip(s string, where int) (string, bool) {
	start, hexMode := 0, false
	if strings.HasPrefix(s, "0x") && c12isHex(s[2:]) {
		start, hexMode = 2, true
	}
	if len(s) <= start {
		return s, false
	}
	pos := start
	switch where {
	case 1:
		pos = start + (len(s)-start)/2
	case 2:
		pos = len(s) - 1
	}
	try := func(i int) (string, bool) {
		if c, ok := c12flipChar(s[i], hexMode); ok {
			return s[:i] + string(c) + s[i+1:], true
		}
		return s, false
	}
	for i := pos; i < len(s); i++ {
		if r, ok := try(i); ok {
			return r, true
		}
	}
	for i := pos - 1; i >= start; i-- {
		if r, ok := try(i); ok {
			return r, true
		}
	}
	return s, false
}

// c12bytesOf reads s as a byte string of at least two bytes: 0x-hex, or standard base64 of a length no text field has.
func c12bytesOf(s string) ([]byte, func([]byte) string, bool) {
	if strings.HasPrefix(s, "0x") && c12isHex(s[2:]) && len(s)%2 == 0 && len(s) >= 6 {
		b, err := hex.DecodeString(s[2:])
		if err != nil {
			return nil, nil, false
		}
		return b, func(b []byte) string { return "0x" + hex.EncodeToString(b) }, true
	}
	if len(s) >= 24 && len(s)%4 == 0 && !strings.ContainsAny(s, " :-._") {
		b, err := base64.StdEncoding.DecodeString(s)
		if err != nil || len(b) < 2 {
			return nil, nil, false
		}
		return b, func(b []byte) string { return base64.StdEncoding.EncodeToString(b) }, true
	}
	return nil, nil, false
}

func c12other(s string) string {
	var o string
	switch {
	case strings.HasPrefix(s, "0x") && c12isHex(s[2:]) && len(s) >= 6:
		o = "0x" + s[4:] + s[2:4] // rotate by one byte
	case len(s) >= 2:
		o = s[len(s)/2:] + s[:len(s)/2]
	}
	if o == "" || o == s {
		o = s + "1"
	}
	return o
}

// c12mutLeaf applies kind to the addressed node itself.
func c12mutLeaf(node any, kind string) (nn any, remove, ok bool) {
	if kind == "remove" {
		return nil, true, true
	}
	switch x := node.(type) {
	case map[string]any:
		if kind == "empty" {
			return map[string]any{}, false, true
		}
	case []any:
		if kind == "empty" {
			return []any{}, false, true
		}
	case string:
		switch {
		case kind == "empty":
			return "", false, true
		case kind == "flip0" || kind == "flipM" || kind == "flipL":
			s, ok := c12flip(x, map[string]int{"flip0": 0, "flipM": 1, "flipL": 2}[kind])
			return s, false, ok
		case kind == "other":
			return c12other(x), false, true
		case kind == "dropB0" || kind == "dropBL" || kind == "padB0" || kind == "padBL":
			b, enc, ok := c12bytesOf(x)
			if !ok {
				return nil, false, false
			}
			switch kind {
			case "dropB0":
				b = b[1:]
			case "dropBL":
				b = b[:len(b)-1]
			case "padB0":
				b = append([]byte{0}, b...)
			case "padBL":
				b = append(append([]byte(nil), b...), 0)
			}
			return enc(b), false, true
		case strings.Contains(kind, "@"):
			s, ok := c12szAlter(x, kind) // byte@i, chr@i, el-drop@j, el-dup@j, el-swap@j (zz_verif_c12sizes_test.go)
			return s, false, ok
		case kind == "set0x":
			return "0x01", false, true
		case kind == "setb64":
			return "AQ==", false, true
		case strings.HasPrefix(kind, "ver="):
			return strings.TrimPrefix(kind, "ver="), false, true
		}
	case json.Number:
		switch kind {
		case "zero":
			return json.Number("0"), false, true
		case "inc":
			i, err := strconv.ParseInt(string(x), 10, 64)
			if err != nil {
				return nil, false, false
			}
			return json.Number(strconv.FormatInt(i+1, 10)), false, true
		}
	case bool:
		switch kind {
		case "not":
			return !x, false, true
		case "false":
			return false, false, true
		}
	case nil:
		if kind == "setb64" {
			return "AQ==", false, true
		}
	}
	return nil, false, false
}

func c12mutate(node any, path []string, kind string) (nn any, remove, ok bool) {
	if len(path) == 0 {
		return c12mutLeaf(node, kind)
	}
	switch x := node.(type) {
	case map[string]any:
		child, has := x[path[0]]
		if !has {
			return nil, false, false
		}
		c, rm, ok := c12mutate(child, path[1:], kind)
		if !ok {
			return nil, false, false
		}
		if rm {
			delete(x, path[0])
		} else {
			x[path[0]] = c
		}
		return x, false, true
	case []any:
		i, err := strconv.Atoi(path[0])
		if err != nil || i < 0 || i >= len(x) {
			return nil, false, false
		}
		if len(path) == 1 && kind == "dup" {
			o := append([]any(nil), x[:i+1]...)
			o = append(o, x[i])
			o = append(o, x[i+1:]...)
			return o, false, true
		}
		if len(path) == 1 && kind == "swap" {
			if i+1 >= len(x) {
				return nil, false, false
			}
			x[i], x[i+1] = x[i+1], x[i]
			return x, false, true
		}
		c, rm, ok := c12mutate(x[i], path[1:], kind)
		if !ok {
			return nil, false, false
		}
		if rm {
			return append(x[:i:i], x[i+1:]...), false, true
		}
		x[i] = c
		return x, false, true
	}
	return nil, false, false
}

// c12apply returns the mutated document (nil,false when the mutation is not applicable).
func c12apply(orig []byte, m c12mutID) ([]byte, bool) {
	tree, err := c12parse(orig)
	if err != nil {
		return nil, false
	}
	nt, rm, ok := c12mutate(tree, m.Path, m.Kind)
	if !ok || rm {
		return nil, false
	}
	b, err := json.Marshal(nt)
	if err != nil {
		return nil, false
	}
	return b, true
}

// ---- canonical content of a decoded document (nil == empty; the JSON-only hash fields are included) ----------

var c12timeType = reflect.TypeOf(time.Time{})

func c12canonV(v reflect.Value, sb *strings.Builder) {
	if v.Type() == c12timeType {
		fmt.Fprintf(sb, "T%d;", v.Interface().(time.Time).UnixNano())
		return
	}
	switch v.Kind() {
	case reflect.Struct:
		sb.WriteString("{")
		for i := 0; i < v.NumField(); i++ {
			sb.WriteString(v.Type().Field(i).Name)
			sb.WriteString("=")
			c12canonV(v.Field(i), sb)
		}
		sb.WriteString("}")
	case reflect.Slice:
		if v.Type().Elem().Kind() == reflect.Uint8 {
			sb.WriteString("x" + hex.EncodeToString(v.Bytes()) + ";")
			return
		}
		fmt.Fprintf(sb, "[%d:", v.Len())
		for i := 0; i < v.Len(); i++ {
			c12canonV(v.Index(i), sb)
		}
		sb.WriteString("]")
	case reflect.String:
		fmt.Fprintf(sb, "%q;", v.String())
	case reflect.Int, reflect.Int8, reflect.Int16, reflect.Int32, reflect.Int64:
		fmt.Fprintf(sb, "%d;", v.Int())
	case reflect.Uint, reflect.Uint8, reflect.Uint16, reflect.Uint32, reflect.Uint64:
		fmt.Fprintf(sb, "%d;", v.Uint())
	case reflect.Bool:
		fmt.Fprintf(sb, "%v;", v.Bool())
	default:
		fmt.Fprintf(sb, "?%v;", v.Interface())
	}
}

func c12canon(v any) string {
	var sb strings.Builder
	c12canonV(reflect.ValueOf(v), &sb)
	return sb.String()
}

// ---- the real loading path ----------------------------------------------------------------------------------

type c12res struct {
	Stage      string // decode | same | hash | sig | panic | accepted
	Detail     string
	SigToo     bool // the signature check failed as well (only meaningful for Stage hash)
	SigSkipped bool // Stage hash in lazy mode: VerifySignatures was not evaluated
}

// c12eth1 is the execution client handed to VerifySignatures: nil (offline, as create cluster / combine run) for every
// ordinary fixture, the accept-every-contract-signature stub of zz_verif_c12sizes_test.go while a Safe fixture is judged.
// c12lazySig: VerifySignatures is only evaluated when VerifyHashes passed (sizes fixtures and the dense walk).
var (
	c12eth1    eth1wrap.EthClientRunner
	c12lazySig bool
)

func c12safe(f func() error) (err error, panicked bool) {
	defer func() {
		if p := recover(); p != nil {
			err, panicked = fmt.Errorf("panic: %v", p), true
		}
	}()
	return f(), false
}

// c12load decodes and verifies the way charon loads files (cluster.LoadClusterLock / cmd.loadDefinition):
// json.Unmarshal, VerifyHashes, VerifySignatures (no execution client).
func c12load(doc string, b []byte) (canon string, decodeErr, hashErr, sigErr error, sigPanic bool) {
	return c12loadH(doc, b, false)
}

// c12loadH: with encodeFirst the decoded object is JSON-encoded once (result discarded) before it is verified - what a caller
// does that logs, forwards or re-saves a file before checking it. Encoding is a read: it must not change the verdict.
func c12loadH(doc string, b []byte, encodeFirst bool) (canon string, decodeErr, hashErr, sigErr error, sigPanic bool) {
	if doc == "lock" {
		var l Lock
		if err, _ := c12safe(func() error { return json.Unmarshal(b, &l) }); err != nil {
			return "", err, nil, nil, false
		}
		canon = c12canon(l)
		if encodeFirst {
			_, _ = c12safe(func() error { _, err := json.Marshal(l); return err })
			_, _ = c12safe(func() error { _, err := json.Marshal(l.Definition); return err })
		}
		hashErr, _ = c12safe(l.VerifyHashes)
		if hashErr != nil && c12lazySig {
			return canon, nil, hashErr, nil, false
		}
		sigErr, sigPanic = c12safe(func() error { return l.VerifySignatures(c12eth1) })
		return canon, nil, hashErr, sigErr, sigPanic
	}
	var d Definition
	if err, _ := c12safe(func() error { return json.Unmarshal(b, &d) }); err != nil {
		return "", err, nil, nil, false
	}
	canon = c12canon(d)
	if encodeFirst {
		_, _ = c12safe(func() error { _, err := json.Marshal(d); return err })
	}
	hashErr, _ = c12safe(d.VerifyHashes)
	if hashErr != nil && c12lazySig {
		return canon, nil, hashErr, nil, false
	}
	sigErr, sigPanic = c12safe(func() error { return d.VerifySignatures(c12eth1) })
	return canon, nil, hashErr, sigErr, sigPanic
}

func c12judge(doc string, origCanon string, mut []byte) c12res {
	canon, derr, herr, serr, spanic := c12load(doc, mut)
	switch {
	case derr != nil:
		return c12res{Stage: "decode", Detail: derr.Error()}
	case canon == origCanon:
		return c12res{Stage: "same"}
	case herr != nil:
		return c12res{Stage: "hash", Detail: herr.Error(), SigToo: serr != nil, SigSkipped: c12lazySig}
	case spanic:
		return c12res{Stage: "panic", Detail: serr.Error()}
	case serr != nil:
		return c12res{Stage: "sig", Detail: serr.Error()}
	}
	return c12res{Stage: "accepted"}
}

// c12judgeAfterEncode: history dimension of the tamper scenarios - the same altered file, but the decoded object is encoded once
// before it is verified. Only evaluated for alterations that the plain load rejects by hash or signature (eager mode).
func c12judgeAfterEncode(doc string, mut []byte) (accepted bool) {
	_, derr, herr, serr, _ := c12loadH(doc, mut, true)
	return derr == nil && herr == nil && serr == nil
}

// ---- cases ------------------------------------------------------------------------------------------------

type c12bCase struct {
	Part     string    `json:"part"`
	Fixture  c12bFixID `json:"fixture"`
	Scenario string    `json:"scenario"` // tamper | roundtrip | resign
	Doc      string    `json:"doc"`
	Path     string    `json:"path"`
	Kind     string    `json:"kind"`
}

type c12bRun struct {
	r       *enumx.Run
	t       *testing.T
	fixes   map[c12bFixID]*c12bFix
	samples int
}

func (x *c12bRun) fixture(id c12bFixID) *c12bFix {
	if f, ok := x.fixes[id]; ok {
		return f
	}
	f, err := c12bBuild(x.t, id)
	if err == nil && f.hasMem {
		// The in-memory lock must itself be valid, otherwise nothing can be concluded from it (whether the
		// *file* encoded from it still verifies is part of the round-trip check, not assumed here).
		herr, _ := c12safe(f.lock.VerifyHashes)
		serr, _ := c12safe(func() error { return f.lock.VerifySignatures(c12szEth1For(id)) })
		if herr != nil || serr != nil {
			err = fmt.Errorf("generated lock does not verify: hash=%v sig=%v", herr, serr)
		}
	}
	if err != nil {
		x.r.Note(fmt.Sprintf("fixture %s could not be built (no verdict for it): %v", id.tag(), err))
		x.r.Count("fixtures_unusable", 1)
		f = nil
	}
	x.fixes[id] = f
	return f
}

func (f *c12bFix) doc(doc string) []byte {
	if doc == "lock" {
		return f.lockJSON
	}
	return f.defJSON
}

// tamper evaluates one alteration; confirm=true re-runs a violating case before reporting.
func (x *c12bRun) tamper(f *c12bFix, doc string, m c12mutID, origCanon string) {
	r := x.r
	orig := f.doc(doc)
	mut, ok := c12apply(orig, m)
	if !ok {
		r.Count("mutation_not_applicable", 1)
		return
	}
	key := fmt.Sprintf("%s:%s/%s:%s", f.id.tag(), doc, m.path(), m.Kind)
	if bytes.Equal(mut, orig) {
		r.Count("skipped_identical_bytes", 1)
		return
	}
	res := c12judge(doc, origCanon, mut)
	r.Steps(1)
	if res.Stage == "same" {
		r.Count("skipped_semantically_identical", 1)
		r.Outcome("not-a-change:" + doc + "/" + m.gpath() + ":" + m.Kind)
		return
	}
	r.Eval(key)
	switch res.Stage {
	case "decode":
		r.Count("rejected_by_decode", 1)
	case "hash":
		if res.SigSkipped {
			r.Count("rejected_by_hash_signatures_not_evaluated", 1)
		} else if res.SigToo {
			r.Count("rejected_by_hash_and_signature", 1)
		} else {
			r.Count("rejected_by_hash_only", 1)
		}
	case "sig":
		r.Count("rejected_by_signature_only", 1)
	case "panic":
		r.Count("rejected_by_panic", 1)
		r.Note(fmt.Sprintf("verification panics instead of returning an error (counted as rejected): %s %s", key, res.Detail))
	}
	r.Outcome(res.Stage + ":" + doc)
	if x.samples < 3 && res.Stage != "accepted" && (r.Shard+len(m.Path))%3 == 0 {
		x.samples++
		r.Sample(map[string]any{"case": key, "rejected_at": res.Stage, "error": res.Detail})
	}
	if (res.Stage == "hash" || res.Stage == "sig") && !c12lazySig {
		// history dimension: the same altered file, encoded once between decoding and verification
		r.Count("rejected_alterations_re_judged_after_an_encode", 1)
		if c12judgeAfterEncode(doc, mut) {
			confirmed := true
			for i := 0; i < 3; i++ {
				confirmed = confirmed && c12judgeAfterEncode(doc, mut) && c12judge(doc, origCanon, mut).Stage == res.Stage
			}
			if !confirmed {
				r.Unconfirmed(key + " after-encode")
			} else if ex, _ := c12bExempt(f.id.Version, doc, m.gpath(), m.Kind); !ex {
				r.Violation(fmt.Sprintf("part=b kind=tamper-accepted-after-encode doc=%s version=%s variant=%s field=%s mut=%s", doc, f.id.Version, f.id.Variant+c12szSigSuffix(f.id), m.gpath(), strings.SplitN(strings.SplitN(m.Kind, "=", 2)[0], "@", 2)[0]),
					fmt.Sprintf("%s: the altered %s %s is rejected (%s) when it is verified right after decoding, but passes VerifyHashes and VerifySignatures when the decoded object is JSON-encoded once before it is verified (encoding rewrote the stored hashes)", key, f.id.Version, doc, res.Stage),
					c12bCase{Part: "b", Fixture: f.id, Scenario: "tamper", Doc: doc, Path: m.path(), Kind: m.Kind})
			}
		}
	}
	if res.Stage != "accepted" {
		return
	}
	if ex, why := c12bExempt(f.id.Version, doc, m.gpath(), m.Kind); ex {
		r.Count("accepted_not_covered_by_format", 1)
		r.Outcome("exempt:" + key)
		_ = why
		return
	}
	// Candidate violation: confirm.
	for i := 0; i < 3; i++ {
		mut2, ok := c12apply(orig, m)
		if !ok || !bytes.Equal(mut2, mut) || c12judge(doc, origCanon, mut2).Stage != "accepted" {
			r.Unconfirmed(key)
			return
		}
	}
	sig := fmt.Sprintf("part=b kind=tamper-accepted doc=%s version=%s variant=%s field=%s mut=%s", doc, f.id.Version, f.id.Variant+c12szSigSuffix(f.id), m.gpath(), strings.SplitN(strings.SplitN(m.Kind, "=", 2)[0], "@", 2)[0])
	desc := fmt.Sprintf("%s: altering %s of a valid %s %s (%s) is not detected: the file decodes to different content, VerifyHashes and VerifySignatures both pass",
		key, m.path(), f.id.Version, doc, m.Kind)
	r.Violation(sig, desc, c12bCase{Part: "b", Fixture: f.id, Scenario: "tamper", Doc: doc, Path: m.path(), Kind: m.Kind})
}

// roundtrip: decode -> encode -> decode keeps all hashes and the re-encoded file still verifies.
func (x *c12bRun) roundtrip(f *c12bFix, doc string) {
	r := x.r
	key := fmt.Sprintf("%s:%s:roundtrip", f.id.tag(), doc)
	check := func() (string, bool) {
		for _, indent := range []bool{false, true} {
			b1 := f.doc(doc)
			if indent {
				var buf bytes.Buffer
				if err := json.Indent(&buf, b1, "", " "); err != nil {
					return "", true
				}
				b1 = buf.Bytes()
			}
			var b2 []byte
			var err error
			hashes := func(b []byte) (string, error) {
				if doc == "lock" {
					var l Lock
					if err := json.Unmarshal(b, &l); err != nil {
						return "", err
					}
					b2, err = json.Marshal(l)
					return fmt.Sprintf("%x/%x/%x", l.ConfigHash, l.DefinitionHash, l.LockHash), err
				}
				var d Definition
				if err := json.Unmarshal(b, &d); err != nil {
					return "", err
				}
				b2, err = json.Marshal(d)
				return fmt.Sprintf("%x/%x", d.ConfigHash, d.DefinitionHash), err
			}
			h1, err := hashes(b1)
			if err != nil {
				return "decode/encode of a valid file fails: " + err.Error(), false
			}
			h0 := fmt.Sprintf("%x/%x", f.lock.ConfigHash, f.lock.DefinitionHash)
			if doc == "lock" {
				h0 += fmt.Sprintf("/%x", f.lock.LockHash)
			}
			if f.hasMem && h0 != h1 {
				return fmt.Sprintf("hashes of the encoded file differ from those of the encoded object: %s -> %s", h0, h1), false
			}
			if _, derr, herr, serr, _ := c12load(doc, b1); derr != nil || herr != nil || serr != nil {
				return fmt.Sprintf("the file encoded from a valid object does not verify: decode=%v hash=%v sig=%v", derr, herr, serr), false
			}
			re := b2
			h2, err := hashes(re)
			if err != nil {
				return "re-encoded file does not decode: " + err.Error(), false
			}
			if h1 != h2 {
				return fmt.Sprintf("hashes changed by decode->encode: %s -> %s", h1, h2), false
			}
			// the hash strings in the raw re-encoded JSON equal those of the original file
			if t1, t2 := c12hashFields(b1), c12hashFields(re); t1 != t2 {
				return fmt.Sprintf("hash fields of the re-encoded file differ: %s -> %s", t1, t2), false
			}
			if _, derr, herr, serr, _ := c12load(doc, re); derr != nil || herr != nil || serr != nil {
				return fmt.Sprintf("re-encoded file does not verify: decode=%v hash=%v sig=%v", derr, herr, serr), false
			}
			// per-validator addresses of the decoded object, one at a time: versions up to v1.4 store ONE address pair for all
			// validators, later versions one per validator - in every version an object in which one validator's address differs
			// from what was hashed must not verify
			{
				var d Definition
				if doc == "lock" {
					var l Lock
					if err := json.Unmarshal(b1, &l); err != nil {
						return "", true
					}
					d = l.Definition
				} else if err := json.Unmarshal(b1, &d); err != nil {
					return "", true
				}
				for i := range d.ValidatorAddresses {
					for fld := 0; fld < 2; fld++ {
						d2 := d
						d2.ValidatorAddresses = append([]ValidatorAddresses(nil), d.ValidatorAddresses...)
						a := &d2.ValidatorAddresses[i].FeeRecipientAddress
						if fld == 1 {
							a = &d2.ValidatorAddresses[i].WithdrawalAddress
						}
						alt, ok := c12flip(*a, 2)
						if !ok || alt == *a {
							continue
						}
						*a = alt
						herr, _ := c12safe(d2.VerifyHashes)
						x.r.Count("in_memory_validator_address_alterations", 1)
						if herr == nil {
							return fmt.Sprintf("the decoded definition with the %s of validator %d (of %d) altered in memory still passes VerifyHashes",
								[]string{"fee recipient address", "withdrawal address"}[fld], i, len(d.ValidatorAddresses)), false
						}
					}
				}
			}
			// copies: editing and encoding a COPY of the decoded definition leaves the decoded object as it was
			if doc == "lock" {
				var l Lock
				if err := json.Unmarshal(b1, &l); err != nil {
					return "", true
				}
				cp := l.Definition
				cp.Name += " (edited copy)"
				_, _ = c12safe(func() error { _, err := json.Marshal(cp); return err })
				if herr, _ := c12safe(l.VerifyHashes); herr != nil {
					return "after a struct copy of the decoded lock's definition was edited and JSON-encoded, the untouched lock no longer passes VerifyHashes: " + herr.Error(), false
				}
				b3, err := json.Marshal(l)
				if err != nil || c12hashFields(b3) != c12hashFields(b1) {
					return "after a struct copy of the decoded lock's definition was edited and JSON-encoded, the untouched lock re-encodes with other hashes", false
				}
			} else {
				var d Definition
				if err := json.Unmarshal(b1, &d); err != nil {
					return "", true
				}
				cp := d
				cp.Name += " (edited copy)"
				_, _ = c12safe(func() error { _, err := json.Marshal(cp); return err })
				if herr, _ := c12safe(d.VerifyHashes); herr != nil {
					return "after a struct copy of the decoded definition was edited and JSON-encoded, the untouched definition no longer passes VerifyHashes: " + herr.Error(), false
				}
			}
		}
		return "", true
	}
	r.Eval(key)
	r.Steps(4)
	why, ok := check()
	if ok {
		r.Count("roundtrips_stable", 1)
		return
	}
	for i := 0; i < 3; i++ {
		if w, ok := check(); ok || w != why {
			r.Unconfirmed(key)
			return
		}
	}
	r.Violation(fmt.Sprintf("part=b kind=roundtrip-unstable doc=%s version=%s variant=%s", doc, f.id.Version, f.id.Variant), key+": "+why,
		c12bCase{Part: "b", Fixture: f.id, Scenario: "roundtrip", Doc: doc})
}

func c12hashFields(b []byte) string {
	tree, err := c12parse(b)
	if err != nil {
		return "?"
	}
	var out []string
	var walk func(n any, p string)
	walk = func(n any, p string) {
		switch x := n.(type) {
		case map[string]any:
			keys := make([]string, 0, len(x))
			for k := range x {
				keys = append(keys, k)
			}
			sort.Strings(keys)
			for _, k := range keys {
				if k == "config_hash" || k == "definition_hash" || k == "lock_hash" {
					out = append(out, fmt.Sprintf("%s/%s=%v", p, k, x[k]))
				}
				walk(x[k], p+"/"+k)
			}
		}
	}
	walk(tree, "")
	return strings.Join(out, " ")
}

// resign: the holders of all keys replace a public share / swap two shares / replace the group key, then
// re-hash and re-sign consistently. All hashes and signatures are then valid; the lock is inconsistent (the
// shares no longer reconstruct the group key) and must still be rejected.
type c12resign struct {
	path, kind string
	mod        func(l *Lock, shares [][]tbls.PrivateKey) error
}

func (x *c12bRun) resignCases(f *c12bFix) []c12resign {
	var out []c12resign
	n := f.id.Shape[2]
	fresh := func(v, i int) (tbls.PrivateKey, tbls.PublicKey, error) {
		sk, err := tbls.GenerateInsecureKey(x.t, rand.New(rand.NewSource(int64(1000+100*v+i))))
		if err != nil {
			return sk, tbls.PublicKey{}, err
		}
		pk, err := tbls.SecretToPublicKey(sk)
		return sk, pk, err
	}
	for v := range f.lock.Validators {
		v := v
		for i := 0; i < n; i++ {
			i := i
			out = append(out, c12resign{fmt.Sprintf("distributed_validators/%d/public_shares/%d", v, i), "subst+resign", func(l *Lock, sh [][]tbls.PrivateKey) error {
				sk, pk, err := fresh(v, i)
				if err != nil {
					return err
				}
				l.Validators[v].PubShares[i] = pk[:]
				sh[v][i] = sk
				return nil
			}})
			if i+1 < n {
				out = append(out, c12resign{fmt.Sprintf("distributed_validators/%d/public_shares/%d", v, i), "swap+resign", func(l *Lock, sh [][]tbls.PrivateKey) error {
					ps := l.Validators[v].PubShares
					ps[i], ps[i+1] = ps[i+1], ps[i]
					sh[v][i], sh[v][i+1] = sh[v][i+1], sh[v][i]
					return nil
				}})
			}
		}
		out = append(out, c12resign{fmt.Sprintf("distributed_validators/%d/distributed_public_key", v), "subst+resign", func(l *Lock, sh [][]tbls.PrivateKey) error {
			sk, pk, err := fresh(v, 99)
			if err != nil {
				return err
			}
			val := &l.Validators[v]
			val.PubKey = pk[:]
			for j := range val.PartialDepositData {
				dd, err := c12bDepositData(sk, l.ValidatorAddresses[v].WithdrawalAddress, f.id.Network, eth2p0.Gwei(val.PartialDepositData[j].Amount))
				if err != nil {
					return err
				}
				val.PartialDepositData[j] = dd
			}
			if SupportPregenRegistrations(l.Version) {
				val.BuilderRegistration = getSignedRegistration(x.t, sk, l.ValidatorAddresses[v].FeeRecipientAddress, f.id.Network)
			}
			return nil
		}})
	}
	return out
}

func (x *c12bRun) resign(f *c12bFix, c c12resign) {
	r := x.r
	key := fmt.Sprintf("%s:lock/%s:%s", f.id.tag(), c.path, c.kind)
	eval := func() (stage string, detail string) {
		var l Lock
		if err := json.Unmarshal(f.lockJSON, &l); err != nil {
			return "harness", err.Error()
		}
		sh := make([][]tbls.PrivateKey, len(f.shares))
		for i := range f.shares {
			sh[i] = append([]tbls.PrivateKey(nil), f.shares[i]...)
		}
		if err := c.mod(&l, sh); err != nil {
			return "harness", err.Error()
		}
		l, err := c12bSeal(l, f.p2p, sh)
		if err != nil {
			return "harness", err.Error()
		}
		b, err := json.Marshal(l)
		if err != nil {
			return "harness", err.Error()
		}
		_, derr, herr, serr, spanic := c12load("lock", b)
		switch {
		case derr != nil:
			return "harness", "resigned lock does not decode: " + derr.Error()
		case herr != nil:
			return "harness", "resigned lock has inconsistent hashes: " + herr.Error()
		case spanic:
			return "panic", serr.Error()
		case serr != nil:
			return "sig", serr.Error()
		}
		return "accepted", ""
	}
	stage, detail := eval()
	r.Steps(1)
	if stage == "harness" {
		r.Note("resign scenario could not be built (no verdict): " + key + ": " + detail)
		r.Count("resign_unusable", 1)
		return
	}
	r.Eval(key)
	r.Outcome("resign-" + stage)
	if stage != "accepted" {
		r.Count("resigned_inconsistent_lock_rejected", 1)
		return
	}
	for i := 0; i < 3; i++ {
		if s, _ := eval(); s != "accepted" {
			r.Unconfirmed(key)
			return
		}
	}
	m := c12mutID{Path: strings.Split(c.path, "/"), Kind: c.kind}
	r.Violation(fmt.Sprintf("part=b kind=inconsistent-lock-accepted version=%s variant=%s field=%s mut=%s", f.id.Version, f.id.Variant, m.gpath(), c.kind),
		key+": a lock whose public shares do not reconstruct the group public key (re-hashed and re-signed by the key holders) passes VerifyHashes and VerifySignatures",
		c12bCase{Part: "b", Fixture: f.id, Scenario: "resign", Doc: "lock", Path: c.path, Kind: c.kind})
}

func c12bFixtures() []c12bFixID {
	var out []c12bFixID
	type sn struct {
		shape [3]int
		net   string
	}
	// goerli's fork version has leading zero bytes, mainnet's is all zero (trailing zeros): both paddings of the hashing
	sns := []sn{{[3]int{2, 3, 4}, eth2util.Goerli.Name}, {[3]int{2, 3, 4}, eth2util.Mainnet.Name}}
	if enumx.Thorough() {
		sns = append(sns, sn{[3]int{1, 2, 3}, eth2util.Goerli.Name}, sn{[3]int{2, 4, 4}, eth2util.Hoodi.Name})
	}
	for _, s := range sns {
		for _, v := range c12bAllVersions {
			for _, variant := range []string{"signed", "unsigned"} {
				out = append(out, c12bFixID{Version: v, Variant: variant, Shape: s.shape, Network: s.net})
			}
		}
	}
	// Files written by older charon releases (the repository's backwards-compatibility examples).
	files, _ := filepath.Glob(filepath.Join("examples", "cluster-*.json"))
	sort.Strings(files)
	for _, file := range files {
		b, err := os.ReadFile(file)
		if err != nil {
			continue
		}
		var ver struct {
			Version string `json:"version"`
			Def     struct {
				Version string `json:"version"`
			} `json:"cluster_definition"`
		}
		if json.Unmarshal(b, &ver) != nil {
			continue
		}
		if ver.Version == "" {
			ver.Version = ver.Def.Version
		}
		out = append(out, c12bFixID{Version: ver.Version, Variant: "example", Example: filepath.Base(file)})
	}
	return out
}

func TestVerifC12b(t *testing.T) {
	r := enumx.New(t, "C12")
	defer r.Finish()
	x := &c12bRun{r: r, t: t, fixes: map[c12bFixID]*c12bFix{}}

	if r.ReplayPath != "" {
		var c c12bCase
		if err := r.ReplayCase(&c); err != nil || c.Part != "b" {
			return // a part (a) replay file: nothing to do in this binary
		}
		restore := c12szMode(c.Fixture, c.Scenario == "dense")
		defer restore()
		f := x.fixture(c.Fixture)
		if f == nil {
			return
		}
		switch c.Scenario {
		case "roundtrip":
			x.roundtrip(f, c.Doc)
		case "resign":
			for _, rc := range x.resignCases(f) {
				if rc.path == c.Path && rc.kind == c.Kind {
					x.resign(f, rc)
				}
			}
		default:
			canon, _, _, _, _ := c12load(c.Doc, f.doc(c.Doc))
			x.tamper(f, c.Doc, c12mutID{Path: strings.Split(c.Path, "/"), Kind: c.Kind}, canon)
		}
		return
	}

	r.Note(fmt.Sprintf("part b: %d format versions x {signed, create-cluster style unsigned} + the example files of /repo/cluster/examples; trusted not-covered table has %d entr(y/ies)", len(c12bAllVersions), len(c12bNotCovered)))
	for _, id := range c12bFixtures() {
		var f *c12bFix
		get := func() *c12bFix {
			if f == nil {
				f = x.fixture(id)
			}
			return f
		}
		// The enumeration of units must be identical in every shard, so it is derived from a fixture that every
		// shard builds (cheap); only the evaluation is sharded.
		if get() == nil {
			continue
		}
		for _, doc := range []string{"lock", "definition"} {
			if f.doc(doc) == nil {
				continue
			}
			if r.Mine() {
				x.roundtrip(f, doc)
			}
			tree, err := c12parse(f.doc(doc))
			if err != nil {
				r.Note("harness: cannot parse own fixture: " + err.Error())
				continue
			}
			var muts []c12mutID
			c12enum(tree, nil, &muts)
			origCanon, derr, herr, serr, _ := c12load(doc, f.doc(doc))
			if derr != nil || herr != nil || serr != nil {
				// reported by the round-trip check above; tampering with a file that is already rejected says nothing
				r.Count("files_not_verifying", 1)
				continue
			}
			for _, m := range muts {
				if !r.Mine() {
					continue
				}
				if r.Expired() {
					return
				}
				x.tamper(f, doc, m, origCanon)
			}
			// dense walk (every byte / character of every string leaf): quick tier on the signed goerli fixture of every
			// version and on the example files, thorough tier on every fixture
			if c12szDenseOnBase(id) {
				if x.denseBase(f, doc, origCanon) {
					return
				}
			}
		}
		if f.hasMem {
			for _, rc := range x.resignCases(f) {
				if !r.Mine() {
					continue
				}
				if r.Expired() {
					return
				}
				x.resign(f, rc)
			}
		}
		delete(x.fixes, id)
	}
	x.sizesPart()
}
