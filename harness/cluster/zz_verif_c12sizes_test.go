package cluster

// C12 part (b), dimensions SIZES and DENSE WALK (run from TestVerifC12b in zz_verif_c12_test.go).
//
// SIZES. The hashing of a definition / lock depends on lengths and element counts: byte lists are split into 32 byte
// chunks and mixed with their length, lists are merkleised element by element and mixed with their count, v1.11 hashes
// the operator / creator signatures as lists of 65 byte elements (Safe / ERC-1271 multi-signatures). The base fixtures
// of zz_verif_c12_test.go have one shape (2 validators, 3-of-4, 11 character name, 2 deposit amounts, one 65 byte
// signature everywhere). The sizes fixtures put every such field at its boundary sizes:
//
//	n0   2 validators 3-of-4,  empty name,     no deposit_amounts (and empty per-validator deposit lists), empty consensus_protocol
//	n1   1 validator  7-of-10, 1 char name,    1 amount
//	n3   3 validators 4-of-5,  32 char name,   3 amounts
//	n5   5 validators 2-of-3,  33 char name,   5 amounts
//	max  2 validators 3-of-4,  256 char name,  9 amounts, uuid / timestamp / dkg_algorithm / consensus_protocol at their limits 64 / 32 / 32 / 256
//	thorough tier: n9 (9 validators, 17 amounts, 31 char name), n17 (17 validators, 255 char name), a256 (256 deposit amounts = the list limit)
//	safe0..safe3 (v1.11 only): operator config_signature and enr_signature are lists of k x 65 bytes with k rotating through
//	     1,2,3,32 over the four operator positions (rotation r in fixture safe<r>, so that every k occurs at every position),
//	     creator config_signature of 2 / 32 / 3 / 1 signatures
//
// each for all 12 format versions (fields a version does not have are left out), EIP-712 signed, goerli. Every sizes fixture
// goes through the round trip, through the generic walker of zz_verif_c12_test.go (every JSON node x every alteration
// kind) and through the dense walk; the thorough tier adds the re-sign scenarios.
//
// Safe fixtures. A contract signature cannot be verified offline, so while a Safe fixture is judged VerifySignatures gets
// an execution-client stub on which EVERY contract signature is valid (c12szStub). The oracle for the operator / creator
// signature fields is therefore VerifyHashes alone - which is what the statement promises for them: they are hashed fields
// (definition_hash). All other checks of VerifySignatures stay in force. The k = 1 entries are genuine EIP-712 signatures of
// the operator's key, the longer lists are deterministic pseudo-random bytes (a contract decides what is valid).
// Ordinary fixtures keep the offline oracle (no execution client).
//
// DENSE WALK. The generic walker alters a string leaf at three positions (first / middle / last character). The dense walk
// alters EVERY position: byte@i flips the lowest bit of byte i of every byte-string leaf (0x-hex or base64), chr@i changes
// character i of every other string leaf (letters and digits rotate inside their class, any other character becomes 'x');
// for a byte string that is a list of more than one 65 byte element also el-drop@j / el-dup@j / el-swap@j (element j
// removed, duplicated, exchanged with its successor). So every element of a multi-element string and every 32 byte chunk of
// a multi-chunk string is reached. VerifySignatures is only evaluated when VerifyHashes passed (an alteration rejected by
// the hashes is rejected whatever the signatures say). Quick tier: the two leaves that no hash covers (signature_aggregate,
// node_signatures) are walked densely on the base fixtures, the example files and the Safe fixtures only.
//
// Oracle (unchanged, the statement): an altered file must fail to decode or fail verification unless it decodes to the
// very same content or the field is in c12bNotCovered.

import (
	"bytes"
	"context"
	"encoding/json"
	"fmt"
	"math/rand"
	"sort"
	"strconv"
	"strings"
	"testing"

	eth2p0 "github.com/attestantio/go-eth2-client/spec/phase0"

	"github.com/obolnetwork/charon/app/eth1wrap"
	"github.com/obolnetwork/charon/eth2util"
	"github.com/obolnetwork/charon/eth2util/deposit"
	"github.com/obolnetwork/charon/zzverif/enumx"
)

// ---- execution-client stub ------------------------------------------------------------------------------

// c12szStub accepts every contract signature (see the header). calls counts how often the code under test asked.
type c12szStub struct{ calls int }

func (*c12szStub) Run(context.Context) {}

func (s *c12szStub) VerifySmartContractBasedSignature(string, [32]byte, []byte) (bool, error) {
	s.calls++
	return true, nil
}

func (*c12szStub) ClientVersion(context.Context) (string, error) { return "c12-stub", nil }

var (
	_            eth1wrap.EthClientRunner = (*c12szStub)(nil)
	c12szTheStub                          = &c12szStub{}
)

// ---- specs ------------------------------------------------------------------------------------------------

type c12szSpec struct {
	name           string
	shape          [3]int // validators, threshold, nodes
	nameLen        int
	amounts        int  // deposit amounts (>= v1.8); versions without partial deposits carry what they can (one 32 ETH deposit in v1.6/v1.7)
	limits         bool // uuid, timestamp, dkg_algorithm, consensus_protocol at their limits
	emptyConsensus bool
	safe           int // 0: EOA signatures; 1+r: Safe signature lists with rotation r (v1.11 only)
	thoroughOnly   bool
	v1x11Only      bool
}

var c12szAllSpecs = []c12szSpec{
	{name: "n0", shape: [3]int{2, 3, 4}, nameLen: 0, amounts: 0, emptyConsensus: true},
	{name: "n1", shape: [3]int{1, 7, 10}, nameLen: 1, amounts: 1},
	{name: "n3", shape: [3]int{3, 4, 5}, nameLen: 32, amounts: 3},
	{name: "n5", shape: [3]int{5, 2, 3}, nameLen: 33, amounts: 5},
	{name: "max", shape: [3]int{2, 3, 4}, nameLen: 256, amounts: 9, limits: true},
	{name: "n9", shape: [3]int{9, 3, 4}, nameLen: 31, amounts: 17, thoroughOnly: true},
	{name: "n17", shape: [3]int{17, 3, 4}, nameLen: 255, amounts: 2, thoroughOnly: true},
	{name: "a256", shape: [3]int{1, 2, 3}, nameLen: 11, amounts: 256, thoroughOnly: true},
	{name: "safe0", shape: [3]int{2, 3, 4}, nameLen: 11, amounts: 2, safe: 1, v1x11Only: true},
	{name: "safe1", shape: [3]int{2, 3, 4}, nameLen: 11, amounts: 2, safe: 2, v1x11Only: true},
	{name: "safe2", shape: [3]int{2, 3, 4}, nameLen: 11, amounts: 2, safe: 3, v1x11Only: true},
	{name: "safe3", shape: [3]int{2, 3, 4}, nameLen: 11, amounts: 2, safe: 4, v1x11Only: true},
}

var (
	c12szSafeOperatorSigs = []int{1, 2, 3, 32} // rotated over the operator positions
	c12szSafeCreatorSigs  = []int{2, 32, 3, 1} // by rotation
)

func c12szSpecOf(name string) (c12szSpec, bool) {
	for _, s := range c12szAllSpecs {
		if s.name == name {
			return s, true
		}
	}
	return c12szSpec{}, false
}

// c12szFixtures: spec-major, version-minor; identical in every shard.
func c12szFixtures() []c12bFixID {
	var out []c12bFixID
	for _, s := range c12szAllSpecs {
		if s.thoroughOnly && !enumx.Thorough() {
			continue
		}
		for _, v := range c12bAllVersions {
			if s.v1x11Only && v != v1_11 {
				continue
			}
			out = append(out, c12bFixID{Version: v, Variant: "signed", Shape: s.shape, Network: eth2util.Goerli.Name, Sizes: s.name})
		}
	}
	return out
}

func c12szIsSafe(id c12bFixID) bool {
	s, ok := c12szSpecOf(id.Sizes)
	return ok && s.safe > 0
}

// c12szEth1For: the execution client VerifySignatures gets for this fixture.
func c12szEth1For(id c12bFixID) eth1wrap.EthClientRunner {
	if c12szIsSafe(id) {
		return c12szTheStub
	}
	return nil
}

// c12szMode selects execution client and lazy signature evaluation for a fixture; the returned function restores.
func c12szMode(id c12bFixID, dense bool) func() {
	e, l := c12eth1, c12lazySig
	c12eth1 = c12szEth1For(id)
	c12lazySig = id.Sizes != "" || dense
	return func() { c12eth1, c12lazySig = e, l }
}

func c12szSigSuffix(id c12bFixID) string {
	if id.Sizes == "" {
		return ""
	}
	return " sizes=" + id.Sizes
}

func c12szDenseOnBase(id c12bFixID) bool {
	if enumx.Thorough() || id.Variant == "example" {
		return true
	}
	return id.Variant == "signed" && id.Network == eth2util.Goerli.Name && id.Shape == [3]int{2, 3, 4}
}

// ---- fixture construction ---------------------------------------------------------------------------------

func c12szText(n int, salt int) string {
	const alphabet = "abcdefghijklmnopqrstuvwxyz0123456789 -_.ABCDEFGHIJKLMNOPQRSTUVWXYZ"
	b := make([]byte, n)
	for i := range b {
		b[i] = alphabet[(i*7+salt*13+i/len(alphabet))%len(alphabet)]
	}
	return string(b)
}

// c12szAmounts: k distinct amounts, each between 1 and 32 ETH, sum >= 32 ETH, ascending (as DedupAmounts orders them).
func c12szAmounts(k int) []eth2p0.Gwei {
	if k == 0 {
		return nil
	}
	var out []eth2p0.Gwei
	for i := 0; i < k-1; i++ {
		out = append(out, deposit.MinDepositAmount+eth2p0.Gwei(i)*1_000_000)
	}
	return append(out, deposit.DefaultDepositAmount)
}

func c12szBuild(t *testing.T, id c12bFixID) (*c12bFix, error) {
	spec, ok := c12szSpecOf(id.Sizes)
	if !ok {
		return nil, fmt.Errorf("unknown sizes spec %q", id.Sizes)
	}
	if id.Variant != "signed" || id.Shape != spec.shape || id.Network != eth2util.Goerli.Name {
		return nil, fmt.Errorf("sizes fixture %s: unexpected id %+v", id.Sizes, id)
	}
	if spec.safe > 0 && id.Version != v1_11 {
		return nil, fmt.Errorf("Safe signature lists exist in v1.11 only")
	}
	version := id.Version
	dv, k, n := spec.shape[0], spec.shape[1], spec.shape[2]
	const seed = 112
	random := rand.New(rand.NewSource(seed))
	forkVersion, err := eth2util.NetworkToForkVersionBytes(id.Network)
	if err != nil {
		return nil, err
	}
	pre1x9 := isAnyVersion(version, v1_0, v1_1, v1_2, v1_3, v1_4, v1_5, v1_6, v1_7, v1_8)
	opts := []func(*Definition){
		WithVersion(version),
		WithForkVersion(forkVersion),
		func(d *Definition) {
			d.Name = c12szText(spec.nameLen, 1)
			d.Timestamp = "2024-05-06T07:08:09Z"
			if !supportTargetGasLimit(version) {
				d.TargetGasLimit = 0
			}
			if SupportPartialDeposits(version) {
				d.DepositAmounts = c12szAmounts(spec.amounts)
			}
			if !pre1x9 && !spec.emptyConsensus {
				d.ConsensusProtocol = "qbft"
			}
			if spec.limits {
				d.UUID = "0194FDC2-FA2F-4CC0-81D3-FF12045B73C8-" + strings.ToUpper(c12szText(sszMaxUUID-37, 2)[:sszMaxUUID-37])
				d.Timestamp = "2024-05-06T07:08:09.123456+01:00" // 32 characters
				d.DKGAlgorithm = c12szText(sszMaxDKGAlgorithm, 3)
				if !pre1x9 {
					d.ConsensusProtocol = c12szText(sszMaxName, 4)
				}
			}
		},
	}
	if isAnyVersion(version, v1_0, v1_1, v1_2, v1_3, v1_4) {
		opts = append(opts, WithLegacyVAddrs("0x00fdfc072182654f163f5f0f9a621d729566c700", "0x00037c4d7bbb0407d1e2c64981855ad8681d0d00"))
	}
	lock, p2p, shares := NewForT(t, dv, k, n, seed, random, opts...)
	def := lock.Definition
	if spec.limits && (len(def.UUID) != sszMaxUUID || len(def.Timestamp) != sszMaxTimestamp || len(def.DKGAlgorithm) != sszMaxDKGAlgorithm) {
		return nil, fmt.Errorf("limits spec: text fields are not at their limits: %d %d %d", len(def.UUID), len(def.Timestamp), len(def.DKGAlgorithm))
	}
	if len(def.Name) != spec.nameLen {
		return nil, fmt.Errorf("name has %d characters, want %d", len(def.Name), spec.nameLen)
	}
	if isAnyVersion(version, v1_0, v1_1, v1_2, v1_3) {
		def.Creator = Creator{} // no creator before v1.4
	}
	if spec.safe > 0 {
		// operator i: lists of k_i signatures; k = 1 keeps the genuine EIP-712 signature made by NewForT
		rot := spec.safe - 1
		fill := rand.New(rand.NewSource(int64(7000 + rot)))
		list := func(k int, genuine []byte) []byte {
			if k == 1 {
				return genuine
			}
			b := make([]byte, k*sszLenK1Sig)
			fill.Read(b)
			return b
		}
		ops := make([]Operator, len(def.Operators))
		copy(ops, def.Operators)
		for i := range ops {
			ki := c12szSafeOperatorSigs[(i+rot)%len(c12szSafeOperatorSigs)]
			ops[i].ConfigSignature = list(ki, ops[i].ConfigSignature)
			ops[i].ENRSignature = list(ki, ops[i].ENRSignature)
		}
		def.Operators = ops
		def.Creator.ConfigSignature = list(c12szSafeCreatorSigs[rot%len(c12szSafeCreatorSigs)], def.Creator.ConfigSignature)
	}
	def, err = def.SetDefinitionHashes()
	if err != nil {
		return nil, err
	}
	lock.Definition = def

	f := &c12bFix{id: id, p2p: p2p, shares: shares, hasMem: true}
	vals := make([]DistValidator, len(lock.Validators))
	copy(vals, lock.Validators)
	for v := range vals {
		root, err := c12bRootSecret(shares[v], k, n)
		if err != nil {
			return nil, err
		}
		f.roots = append(f.roots, root)
		vals[v].PartialDepositData = nil
		var amounts []eth2p0.Gwei
		switch {
		case isAnyVersion(version, v1_0, v1_1, v1_2, v1_3, v1_4, v1_5):
		case isAnyVersion(version, v1_6, v1_7):
			amounts = []eth2p0.Gwei{deposit.DefaultDepositAmount}
		default:
			amounts = deposit.DedupAmounts(def.DepositAmounts)
		}
		for _, a := range amounts {
			dd, err := c12bDepositData(root, def.ValidatorAddresses[v].WithdrawalAddress, id.Network, a)
			if err != nil {
				return nil, err
			}
			vals[v].PartialDepositData = append(vals[v].PartialDepositData, dd)
		}
		if !SupportPregenRegistrations(version) {
			vals[v].BuilderRegistration = BuilderRegistration{}
		}
	}
	lock.Validators = vals
	lock, err = c12bSeal(lock, p2p, shares)
	if err != nil {
		return nil, err
	}
	f.lock = lock
	if f.lockJSON, err = c12norm(func() ([]byte, error) { return json.Marshal(lock) }); err != nil {
		return nil, err
	}
	if f.defJSON, err = c12norm(func() ([]byte, error) { return json.Marshal(lock.Definition) }); err != nil {
		return nil, err
	}
	return f, nil
}

// ---- dense alterations of one string leaf ------------------------------------------------------------------

func c12szRot(c byte) byte {
	if r, ok := c12flipChar(c, false); ok {
		return r
	}
	if c == 'x' {
		return 'y'
	}
	return 'x'
}

// c12szHexBytes: s is 0x-hex of at least one whole byte.
func c12szHexBytes(s string) (int, bool) {
	if strings.HasPrefix(s, "0x") && len(s) >= 4 && len(s)%2 == 0 && c12isHex(s[2:]) {
		return (len(s) - 2) / 2, true
	}
	return 0, false
}

// c12szKinds lists the dense alterations of a leaf: byte@i for byte strings, chr@i for text, el-*@j for lists of 65 byte elements.
func c12szKinds(s string) []string {
	var out []string
	if s == "" {
		return nil
	}
	nb, isHex := c12szHexBytes(s)
	var raw []byte
	if !isHex {
		if b, _, ok := c12bytesOf(s); ok { // base64 (formats before v1.3)
			raw, nb = b, len(b)
		}
	}
	switch {
	case isHex || raw != nil:
		for i := 0; i < nb; i++ {
			out = append(out, "byte@"+strconv.Itoa(i))
		}
		if nb%sszLenK1Sig == 0 && nb > sszLenK1Sig {
			k := nb / sszLenK1Sig
			for j := 0; j < k; j++ {
				out = append(out, "el-drop@"+strconv.Itoa(j), "el-dup@"+strconv.Itoa(j))
				if j+1 < k {
					out = append(out, "el-swap@"+strconv.Itoa(j))
				}
			}
		}
	default:
		for i := 0; i < len(s); i++ {
			out = append(out, "chr@"+strconv.Itoa(i))
		}
	}
	return out
}

// c12szAlter applies one dense alteration kind to the value of a string leaf.
func c12szAlter(s, kind string) (string, bool) {
	parts := strings.SplitN(kind, "@", 2)
	if len(parts) != 2 {
		return s, false
	}
	i, err := strconv.Atoi(parts[1])
	if err != nil || i < 0 {
		return s, false
	}
	if parts[0] == "chr" {
		if i >= len(s) {
			return s, false
		}
		return s[:i] + string(c12szRot(s[i])) + s[i+1:], true
	}
	// byte strings
	if nb, ok := c12szHexBytes(s); ok {
		switch parts[0] {
		case "byte":
			if i >= nb {
				return s, false
			}
			// the low nibble of byte i, lowest bit flipped; every other character (and its case) stays
			p := 2 + 2*i + 1
			c, ok := c12szNibbleXor1(s[p])
			if !ok {
				return s, false
			}
			return s[:p] + string(c) + s[p+1:], true
		case "el-drop", "el-dup", "el-swap":
			if nb%sszLenK1Sig != 0 || nb <= sszLenK1Sig {
				return s, false
			}
			k, w := nb/sszLenK1Sig, 2*sszLenK1Sig
			if i >= k {
				return s, false
			}
			el := func(j int) string { return s[2+j*w : 2+(j+1)*w] }
			switch parts[0] {
			case "el-drop":
				return s[:2+i*w] + s[2+(i+1)*w:], true
			case "el-dup":
				return s[:2+(i+1)*w] + el(i) + s[2+(i+1)*w:], true
			default:
				if i+1 >= k {
					return s, false
				}
				return s[:2+i*w] + el(i+1) + el(i) + s[2+(i+2)*w:], true
			}
		}
		return s, false
	}
	if parts[0] != "byte" {
		return s, false
	}
	b, enc, ok := c12bytesOf(s)
	if !ok || i >= len(b) {
		return s, false
	}
	b = append([]byte(nil), b...)
	b[i] ^= 1
	return enc(b), true
}

func c12szNibbleXor1(c byte) (byte, bool) {
	const lo, up = "0123456789abcdef", "0123456789ABCDEF"
	if i := strings.IndexByte(lo, c); i >= 0 {
		return lo[i^1], true
	}
	if i := strings.IndexByte(up, c); i >= 0 {
		return up[i^1], true
	}
	return c, false
}

// ---- dense walk ------------------------------------------------------------------------------------------------

type c12szLeaf struct {
	path []string
	val  string
	set  func(any)
}

func c12szLeaves(node any, path []string, set func(any), out *[]c12szLeaf) {
	switch x := node.(type) {
	case map[string]any:
		keys := make([]string, 0, len(x))
		for k := range x {
			keys = append(keys, k)
		}
		sort.Strings(keys)
		for _, k := range keys {
			k := k
			c12szLeaves(x[k], append(path, k), func(v any) { x[k] = v }, out)
		}
	case []any:
		for i := range x {
			i := i
			c12szLeaves(x[i], append(path, strconv.Itoa(i)), func(v any) { x[i] = v }, out)
		}
	case string:
		*out = append(*out, c12szLeaf{path: append([]string(nil), path...), val: x, set: set})
	}
}

// denseWalk evaluates every dense alteration of every string leaf of one document of f. take decides, per item and in
// enumeration order, whether this shard evaluates it. Returns true when the time budget ended the run.
func (x *c12bRun) denseWalk(f *c12bFix, doc, origCanon string, take func() bool) (stop bool) {
	r := x.r
	restore := c12szMode(f.id, true)
	defer restore()
	orig := f.doc(doc)
	tree, err := c12parse(orig)
	if err != nil {
		r.Note("harness: cannot parse own fixture: " + err.Error())
		return false
	}
	var leaves []c12szLeaf
	c12szLeaves(tree, nil, func(any) {}, &leaves)
	safe := c12szIsSafe(f.id)
	for _, lf := range leaves {
		// signature_aggregate and node_signatures are the two leaves no hash covers: each of their alterations costs a full
		// VerifySignatures (milliseconds). Quick tier: walked densely on the base fixtures, the example files and the Safe fixtures;
		// on the other sizes fixtures (where they do not differ in kind, only in number) the generic walker's three positions
		// per leaf stand, the dense walk of them is left to the thorough tier.
		if doc == "lock" && (lf.path[0] == "signature_aggregate" || lf.path[0] == "node_signatures") && !enumx.Thorough() && f.id.Sizes != "" && !safe {
			r.Count("dense_unhashed_signature_leaves_left_to_thorough_tier", 1)
			continue
		}
		kinds := c12szKinds(lf.val)
		isList := false
		if nb, ok := c12szHexBytes(lf.val); ok && nb%sszLenK1Sig == 0 && nb > sszLenK1Sig {
			isList = true
		}
		for _, kind := range kinds {
			if !take() {
				continue
			}
			if r.Expired() {
				return true
			}
			alt, ok := c12szAlter(lf.val, kind)
			if !ok || alt == lf.val {
				r.Count("dense_alteration_not_applicable", 1)
				continue
			}
			lf.set(alt)
			mut, err := json.Marshal(tree)
			lf.set(lf.val)
			if err != nil {
				r.Note("harness: cannot encode altered tree: " + err.Error())
				continue
			}
			m := c12mutID{Path: lf.path, Kind: kind}
			key := fmt.Sprintf("%s:%s/%s:%s", f.id.tag(), doc, m.path(), kind)
			res := c12judge(doc, origCanon, mut)
			r.Steps(1)
			if res.Stage == "same" {
				r.Count("skipped_semantically_identical", 1)
				r.Outcome("not-a-change:" + doc + "/" + m.gpath() + ":" + strings.SplitN(kind, "@", 2)[0])
				continue
			}
			r.Eval(key)
			class := strings.SplitN(kind, "@", 2)[0]
			switch class {
			case "byte":
				r.Count("dense_byte_alterations", 1)
			case "chr":
				r.Count("dense_character_alterations", 1)
			default:
				r.Count("dense_list_element_alterations", 1)
			}
			if isList && safe {
				r.Count("safe_signature_list_alterations", 1)
			}
			switch res.Stage {
			case "decode":
				r.Count("dense_rejected_by_decode", 1)
			case "hash":
				r.Count("dense_rejected_by_hash", 1)
			case "sig":
				r.Count("dense_rejected_by_signature_after_hashes_passed", 1)
			case "panic":
				r.Count("rejected_by_panic", 1)
				r.Note(fmt.Sprintf("verification panics instead of returning an error (counted as rejected): %s %s", key, res.Detail))
			}
			r.Outcome("dense-" + res.Stage + ":" + doc + ":" + class)
			if res.Stage != "accepted" {
				continue
			}
			if ex, _ := c12bExempt(f.id.Version, doc, m.gpath(), kind); ex {
				r.Count("accepted_not_covered_by_format", 1)
				continue
			}
			// Candidate violation: confirm three times through the independent path-based application (fresh parse of the file).
			confirmed := true
			for i := 0; i < 3 && confirmed; i++ {
				mut2, ok := c12apply(orig, m)
				confirmed = ok && bytes.Equal(mut2, mut) && c12judge(doc, origCanon, mut2).Stage == "accepted"
			}
			if !confirmed {
				r.Unconfirmed(key)
				continue
			}
			sig := fmt.Sprintf("part=b kind=tamper-accepted doc=%s version=%s variant=%s field=%s mut=%s", doc, f.id.Version, f.id.Variant+c12szSigSuffix(f.id), m.gpath(), class)
			desc := fmt.Sprintf("%s: altering %s of a valid %s %s (%s) is not detected: the file decodes to different content, VerifyHashes and VerifySignatures both pass",
				key, m.path(), f.id.Version, doc, kind)
			if safe {
				desc += " (Safe fixture: VerifySignatures ran with the execution-client stub that accepts every contract signature)"
			}
			r.Violation(sig, desc, c12bCase{Part: "b", Fixture: f.id, Scenario: "dense", Doc: doc, Path: m.path(), Kind: kind})
		}
	}
	return false
}

// denseBase: dense walk of a base fixture (built by every shard); one work unit per alteration.
func (x *c12bRun) denseBase(f *c12bFix, doc, origCanon string) (stop bool) {
	return x.denseWalk(f, doc, origCanon, x.r.Mine)
}

// ---- the sizes part ------------------------------------------------------------------------------------------

// c12szSub: every sizes fixture is cut into this many work units (item i of the fixture belongs to unit i mod c12szSub);
// unit j of fixture number fi belongs to shard (fi*c12szSub+j) mod shards. Only the shards owning a unit build the fixture.
const c12szSub = 4

func (x *c12bRun) sizesPart() {
	r := x.r
	ids := c12szFixtures()
	defer func() { r.Count("safe_stub_contract_signature_checks", c12szTheStub.calls) }()
	r.Note(fmt.Sprintf("part b sizes: %d sizes fixtures (specs x versions, Safe fixtures in v1.11 only); Safe fixtures run VerifySignatures with an execution-client stub that accepts every contract signature", len(ids)))
	for fi, id := range ids {
		owned := map[int]bool{}
		for j := 0; j < c12szSub; j++ {
			if r.NSh <= 1 || (fi*c12szSub+j)%r.NSh == r.Shard {
				owned[j] = true
			}
		}
		if len(owned) == 0 {
			continue
		}
		if r.Expired() {
			return
		}
		if x.sizesFixture(id, owned) {
			return
		}
	}
}

func (x *c12bRun) sizesFixture(id c12bFixID, owned map[int]bool) (stop bool) {
	r := x.r
	restore := c12szMode(id, false)
	defer restore()
	f := x.fixture(id)
	defer delete(x.fixes, id)
	if f == nil {
		return false
	}
	item := 0
	take := func() bool {
		i := item
		item++
		return owned[i%c12szSub]
	}
	if owned[0] {
		r.Count("sizes_fixtures:"+id.Sizes, 1)
		x.sizesNonVacuity(f)
	}
	for _, doc := range []string{"lock", "definition"} {
		if take() {
			x.roundtrip(f, doc)
		}
		tree, err := c12parse(f.doc(doc))
		if err != nil {
			r.Note("harness: cannot parse own fixture: " + err.Error())
			continue
		}
		origCanon, derr, herr, serr, _ := c12load(doc, f.doc(doc))
		if derr != nil || herr != nil || serr != nil {
			r.Count("files_not_verifying", 1) // reported by the round-trip check
			continue
		}
		var muts []c12mutID
		c12enum(tree, nil, &muts)
		for _, m := range muts {
			if !take() {
				continue
			}
			if r.Expired() {
				return true
			}
			x.tamper(f, doc, m, origCanon)
		}
		if x.denseWalk(f, doc, origCanon, take) {
			return true
		}
	}
	if enumx.Thorough() {
		c12lazySig = false // a re-signed lock has consistent hashes: the signatures are what is judged
		for _, rc := range x.resignCases(f) {
			if !take() {
				continue
			}
			if r.Expired() {
				return true
			}
			x.resign(f, rc)
		}
	}
	return false
}

// sizesNonVacuity records, from the decoded fixture file, which boundary sizes really are in it.
func (x *c12bRun) sizesNonVacuity(f *c12bFix) {
	r := x.r
	var l Lock
	if err := json.Unmarshal(f.lockJSON, &l); err != nil {
		return
	}
	r.Count(fmt.Sprintf("sizes_seen:name_len=%d", len(l.Name)), 1)
	r.Count(fmt.Sprintf("sizes_seen:operators=%d", len(l.Operators)), 1)
	r.Count(fmt.Sprintf("sizes_seen:validators=%d", len(l.Validators)), 1)
	if SupportPartialDeposits(l.Version) {
		r.Count(fmt.Sprintf("sizes_seen:deposit_amounts=%d", len(l.DepositAmounts)), 1)
		if len(l.Validators) > 0 {
			r.Count(fmt.Sprintf("sizes_seen:partial_deposits_per_validator=%d", len(l.Validators[0].PartialDepositData)), 1)
		}
	}
	if len(l.UUID) == sszMaxUUID && len(l.Timestamp) == sszMaxTimestamp && len(l.DKGAlgorithm) == sszMaxDKGAlgorithm {
		r.Count("sizes_seen:uuid_timestamp_dkg_algorithm_at_limit", 1)
	}
	if len(l.ConsensusProtocol) == sszMaxName {
		r.Count("sizes_seen:consensus_protocol_len=256", 1)
	}
	if !isAnyVersion(l.Version, v1_0, v1_1, v1_2, v1_3, v1_4, v1_5, v1_6, v1_7, v1_8) && l.ConsensusProtocol == "" {
		r.Count("sizes_seen:consensus_protocol_empty", 1)
	}
	for i, o := range l.Operators {
		if k := len(o.ConfigSignature) / sszLenK1Sig; k > 1 || c12szIsSafe(f.id) {
			r.Count(fmt.Sprintf("sizes_seen:operator%d_signature_list_len=%d", i, k), 1)
		}
	}
	if k := len(l.Creator.ConfigSignature) / sszLenK1Sig; c12szIsSafe(f.id) {
		r.Count(fmt.Sprintf("sizes_seen:creator_signature_list_len=%d", k), 1)
	}
}
