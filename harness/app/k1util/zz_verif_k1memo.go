package k1util

// Memoisation of the two pure library calls k1util makes (see tools/common.py splice_k1memo). Keys are the complete
// argument bytes, so a hit returns exactly what the library would compute again.

import (
	"sync"

	k1 "github.com/decred/dcrd/dcrec/secp256k1/v4"
	"github.com/decred/dcrd/dcrec/secp256k1/v4/ecdsa"
)

type verifRecRes struct {
	pk         *k1.PublicKey
	compressed bool
	err        error
}

var (
	verifMemoMu  sync.Mutex
	verifRecMemo = map[string]verifRecRes{}
	verifSigMemo = map[string][]byte{}
)

func verifRecoverCompact(sig, hash []byte) (*k1.PublicKey, bool, error) {
	key := string(sig) + "|" + string(hash)
	verifMemoMu.Lock()
	r, ok := verifRecMemo[key]
	verifMemoMu.Unlock()
	if !ok {
		r.pk, r.compressed, r.err = ecdsa.RecoverCompact(sig, hash)
		verifMemoMu.Lock()
		if len(verifRecMemo) > 1<<20 {
			verifRecMemo = map[string]verifRecRes{}
		}
		verifRecMemo[key] = r
		verifMemoMu.Unlock()
	}
	if r.pk == nil {
		return nil, r.compressed, r.err
	}
	cp := *r.pk
	return &cp, r.compressed, r.err
}

func verifSignCompact(key *k1.PrivateKey, hash []byte, compressed bool) []byte {
	kb := key.Serialize()
	k := string(kb) + "|" + string(hash)
	if compressed {
		k += "|c"
	}
	verifMemoMu.Lock()
	s, ok := verifSigMemo[k]
	verifMemoMu.Unlock()
	if !ok {
		s = ecdsa.SignCompact(key, hash, compressed)
		verifMemoMu.Lock()
		if len(verifSigMemo) > 1<<20 {
			verifSigMemo = map[string][]byte{}
		}
		verifSigMemo[k] = s
		verifMemoMu.Unlock()
	}
	return append([]byte(nil), s...)
}
