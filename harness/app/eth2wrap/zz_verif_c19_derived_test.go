package eth2wrap

// C19, DERIVED OBJECTS: the statement of C19 is about "a beacon API call through the multi-node client". The client object
// that callers hold is rarely the one Instrument() returned: core/fetcher and the monitoring API call ClientForAddress on it,
// app.go wraps it (WithSyntheticDuties), tests and the node clients wrap it lazily. This file runs the script product of
// zz_verif_c19_test.go on every object that can be DERIVED from the constructed client, on every endpoint of the Client
// interface, and after the client's setters.
//
// Reference model (c19effective) = the doc comment of multi.ClientForAddress:
//   scoped to a primary of the receiver  -> that node as the only primary + all fallbacks of the receiver
//   scoped to a fallback of the receiver -> that node alone
//   unknown or empty address             -> the receiver
//   NewLazyForT / WithSyntheticDuties    -> transparent
// The oracle is c19check (the statement in exact virtual time) evaluated on the nodes configured for the derived object,
// plus the clause that a node outside that configuration is never consulted.

import (
	"context"
	"fmt"
	"net/http"
	"reflect"
	"sort"
	"strings"
	"testing"
	"testing/synctest"
	"time"

	eth2api "github.com/attestantio/go-eth2-client/api"
	eth2v1 "github.com/attestantio/go-eth2-client/api/v1"
	eth2spec "github.com/attestantio/go-eth2-client/spec"
	"github.com/attestantio/go-eth2-client/spec/altair"
	eth2p0 "github.com/attestantio/go-eth2-client/spec/phase0"

	"github.com/obolnetwork/charon/app/errors"
	"github.com/obolnetwork/charon/zzverif/enumx"
)

// ---------------------------------------------------------------------------------------------------------------------
// scripted node with every endpoint of the Client interface
// ---------------------------------------------------------------------------------------------------------------------

// c19dnode is a c19node (outcome, latency, call record; AttestationData / SubmitAttestations / Proxy) that also answers every
// other provide/submit endpoint, keeps the state the client's setters hand it, and - like the real httpAdapter - fails an
// endpoint that needs that state when it was never given it.
type c19dnode struct {
	*c19node

	valCache    func(context.Context) (ActiveValidators, CompleteValidators, error)
	propCache   func(context.Context, eth2p0.Epoch, []eth2p0.ValidatorIndex) (ProposerDutyWithMeta, error)
	attCache    func(context.Context, eth2p0.Epoch, []eth2p0.ValidatorIndex) (AttesterDutyWithMeta, error)
	syncCache   func(context.Context, eth2p0.Epoch, []eth2p0.ValidatorIndex) (SyncDutyWithMeta, error)
	forkVersion [4]byte
}

var (
	c19forkVersion = [4]byte{1, 2, 3, 4}
	c19exitDomain  = eth2p0.DomainType{0x04, 0x00, 0x00, 0x00}
	c19valCacheFn  = func(context.Context) (ActiveValidators, CompleteValidators, error) {
		return ActiveValidators{}, CompleteValidators{}, nil
	}
	c19propCacheFn = func(context.Context, eth2p0.Epoch, []eth2p0.ValidatorIndex) (ProposerDutyWithMeta, error) {
		return ProposerDutyWithMeta{}, nil
	}
	c19attCacheFn = func(context.Context, eth2p0.Epoch, []eth2p0.ValidatorIndex) (AttesterDutyWithMeta, error) {
		return AttesterDutyWithMeta{}, nil
	}
	c19syncCacheFn = func(context.Context, eth2p0.Epoch, []eth2p0.ValidatorIndex) (SyncDutyWithMeta, error) {
		return SyncDutyWithMeta{}, nil
	}
	errC19noState   = "the node was never given the state this endpoint needs: "
	c19unknownAddr  = "node99"
	c19accessorList = []string{"Address", "Name", "Headers", "IsActive", "IsSynced"}
)

// preset hands the node all client-side state directly (dimensions that do not exercise the setters).
func (n *c19dnode) preset() {
	n.valCache, n.propCache, n.attCache, n.syncCache, n.forkVersion = c19valCacheFn, c19propCacheFn, c19attCacheFn, c19syncCacheFn, c19forkVersion
}

// holds reports whether the node has the state that the endpoint needs.
func (n *c19dnode) holds(endpoint string) bool {
	switch endpoint {
	case "ActiveValidators", "CompleteValidators":
		return n.valCache != nil
	case "ProposerDutiesCache":
		return n.propCache != nil
	case "AttesterDutiesCache":
		return n.attCache != nil
	case "SyncCommDutiesCache":
		return n.syncCache != nil
	case "Domain":
		return n.forkVersion == c19forkVersion
	}
	return true
}

// accessors and setters (a node is scoped to itself, like httpAdapter)
func (n *c19dnode) Name() string                   { return "c19node" }
func (n *c19dnode) Headers() map[string]string     { return nil }
func (n *c19dnode) IsActive() bool                 { return true }
func (n *c19dnode) IsSynced() bool                 { return true }
func (n *c19dnode) ClientForAddress(string) Client { return n }
func (n *c19dnode) SetForkVersion(v [4]byte)       { n.forkVersion = v }
func (n *c19dnode) SetValidatorCache(f func(context.Context) (ActiveValidators, CompleteValidators, error)) {
	n.valCache = f
}

func (n *c19dnode) SetDutiesCache(
	p func(context.Context, eth2p0.Epoch, []eth2p0.ValidatorIndex) (ProposerDutyWithMeta, error),
	a func(context.Context, eth2p0.Epoch, []eth2p0.ValidatorIndex) (AttesterDutyWithMeta, error),
	s func(context.Context, eth2p0.Epoch, []eth2p0.ValidatorIndex) (SyncDutyWithMeta, error),
) {
	n.propCache, n.attCache, n.syncCache = p, a, s
}

// stateful runs the node's script and then fails, the way httpAdapter does, when the state is missing.
func (n *c19dnode) stateful(ctx context.Context, endpoint string) error {
	if err := n.do(ctx); err != nil {
		return err
	}
	if !n.holds(endpoint) {
		return errors.New(errC19noState + endpoint)
	}
	return nil
}

func (n *c19dnode) meta() map[string]any { return map[string]any{"node": n.id} }

// c19ans: the node's answer to a Response-typed provider; the metadata names the answering node.
func c19ans[T any](n *c19dnode, ctx context.Context, data T) (*eth2api.Response[T], error) {
	if err := n.do(ctx); err != nil {
		return nil, err
	}
	return &eth2api.Response[T]{Data: data, Metadata: n.meta()}, nil
}

// 23 Response-typed providers (the 24th, AttestationData, is c19node's)
func (n *c19dnode) SignedBeaconBlock(ctx context.Context, _ *eth2api.SignedBeaconBlockOpts) (*eth2api.Response[*eth2spec.VersionedSignedBeaconBlock], error) {
	return c19ans(n, ctx, &eth2spec.VersionedSignedBeaconBlock{})
}
func (n *c19dnode) BeaconCommittees(ctx context.Context, _ *eth2api.BeaconCommitteesOpts) (*eth2api.Response[[]*eth2v1.BeaconCommittee], error) {
	return c19ans(n, ctx, []*eth2v1.BeaconCommittee{})
}
func (n *c19dnode) AggregateAttestation(ctx context.Context, _ *eth2api.AggregateAttestationOpts) (*eth2api.Response[*eth2spec.VersionedAttestation], error) {
	return c19ans(n, ctx, &eth2spec.VersionedAttestation{}) // non-nil: accepted by isAggregateAttestationOk
}
func (n *c19dnode) AttesterDuties(ctx context.Context, _ *eth2api.AttesterDutiesOpts) (*eth2api.Response[[]*eth2v1.AttesterDuty], error) {
	return c19ans(n, ctx, []*eth2v1.AttesterDuty{})
}
func (n *c19dnode) DepositContract(ctx context.Context, _ *eth2api.DepositContractOpts) (*eth2api.Response[*eth2v1.DepositContract], error) {
	return c19ans(n, ctx, &eth2v1.DepositContract{})
}
func (n *c19dnode) SyncCommitteeDuties(ctx context.Context, _ *eth2api.SyncCommitteeDutiesOpts) (*eth2api.Response[[]*eth2v1.SyncCommitteeDuty], error) {
	return c19ans(n, ctx, []*eth2v1.SyncCommitteeDuty{})
}
func (n *c19dnode) SyncCommitteeContribution(ctx context.Context, _ *eth2api.SyncCommitteeContributionOpts) (*eth2api.Response[*altair.SyncCommitteeContribution], error) {
	return c19ans(n, ctx, &altair.SyncCommitteeContribution{})
}
func (n *c19dnode) SyncCommitteeSelections(ctx context.Context, _ *eth2api.SyncCommitteeSelectionsOpts) (*eth2api.Response[[]*eth2v1.SyncCommitteeSelection], error) {
	return c19ans(n, ctx, []*eth2v1.SyncCommitteeSelection{})
}
func (n *c19dnode) Proposal(ctx context.Context, _ *eth2api.ProposalOpts) (*eth2api.Response[*eth2api.VersionedProposal], error) {
	return c19ans(n, ctx, &eth2api.VersionedProposal{})
}
func (n *c19dnode) BeaconBlockRoot(ctx context.Context, _ *eth2api.BeaconBlockRootOpts) (*eth2api.Response[*eth2p0.Root], error) {
	return c19ans(n, ctx, &eth2p0.Root{})
}
func (n *c19dnode) BeaconBlockAttestations(ctx context.Context, _ *eth2api.BeaconBlockAttestationsOpts) (*eth2api.Response[[]*eth2spec.VersionedAttestation], error) {
	return c19ans(n, ctx, []*eth2spec.VersionedAttestation{})
}
func (n *c19dnode) BeaconCommitteeSelections(ctx context.Context, _ *eth2api.BeaconCommitteeSelectionsOpts) (*eth2api.Response[[]*eth2v1.BeaconCommitteeSelection], error) {
	return c19ans(n, ctx, []*eth2v1.BeaconCommitteeSelection{})
}
func (n *c19dnode) Fork(ctx context.Context, _ *eth2api.ForkOpts) (*eth2api.Response[*eth2p0.Fork], error) {
	return c19ans(n, ctx, &eth2p0.Fork{})
}
func (n *c19dnode) ForkSchedule(ctx context.Context, _ *eth2api.ForkScheduleOpts) (*eth2api.Response[[]*eth2p0.Fork], error) {
	return c19ans(n, ctx, []*eth2p0.Fork{})
}
func (n *c19dnode) Genesis(ctx context.Context, _ *eth2api.GenesisOpts) (*eth2api.Response[*eth2v1.Genesis], error) {
	return c19ans(n, ctx, &eth2v1.Genesis{})
}
func (n *c19dnode) NodeIdentity(ctx context.Context, _ *eth2api.NodeIdentityOpts) (*eth2api.Response[*eth2v1.NodeIdentity], error) {
	return c19ans(n, ctx, &eth2v1.NodeIdentity{})
}
func (n *c19dnode) NodePeerCount(ctx context.Context, _ *eth2api.NodePeerCountOpts) (*eth2api.Response[*eth2v1.PeerCount], error) {
	return c19ans(n, ctx, &eth2v1.PeerCount{})
}
func (n *c19dnode) NodeSyncing(ctx context.Context, _ *eth2api.NodeSyncingOpts) (*eth2api.Response[*eth2v1.SyncState], error) {
	return c19ans(n, ctx, &eth2v1.SyncState{IsSyncing: false}) // accepted by isSyncStateOk
}
func (n *c19dnode) NodeVersion(ctx context.Context, _ *eth2api.NodeVersionOpts) (*eth2api.Response[string], error) {
	return c19ans(n, ctx, "c19")
}
func (n *c19dnode) NodeVersionV2(ctx context.Context, _ *eth2api.NodeVersionV2Opts) (*eth2api.Response[*eth2v1.NodeVersionV2], error) {
	return c19ans(n, ctx, &eth2v1.NodeVersionV2{})
}
func (n *c19dnode) ProposerDuties(ctx context.Context, _ *eth2api.ProposerDutiesOpts) (*eth2api.Response[[]*eth2v1.ProposerDuty], error) {
	return c19ans(n, ctx, []*eth2v1.ProposerDuty{})
}
func (n *c19dnode) Spec(ctx context.Context, _ *eth2api.SpecOpts) (*eth2api.Response[map[string]any], error) {
	return c19ans(n, ctx, map[string]any{})
}
func (n *c19dnode) Validators(ctx context.Context, _ *eth2api.ValidatorsOpts) (*eth2api.Response[map[eth2p0.ValidatorIndex]*eth2v1.Validator], error) {
	return c19ans(n, ctx, map[eth2p0.ValidatorIndex]*eth2v1.Validator{})
}

// 10 submitters (the 11th, SubmitAttestations, is c19node's)
func (n *c19dnode) SubmitAggregateAttestations(ctx context.Context, _ *eth2api.SubmitAggregateAttestationsOpts) error {
	return n.do(ctx)
}
func (n *c19dnode) SubmitSyncCommitteeMessages(ctx context.Context, _ []*altair.SyncCommitteeMessage) error {
	return n.do(ctx)
}
func (n *c19dnode) SubmitSyncCommitteeSubscriptions(ctx context.Context, _ []*eth2v1.SyncCommitteeSubscription) error {
	return n.do(ctx)
}
func (n *c19dnode) SubmitSyncCommitteeContributions(ctx context.Context, _ []*altair.SignedContributionAndProof) error {
	return n.do(ctx)
}
func (n *c19dnode) SubmitProposal(ctx context.Context, _ *eth2api.SubmitProposalOpts) error {
	return n.do(ctx)
}
func (n *c19dnode) SubmitBeaconCommitteeSubscriptions(ctx context.Context, _ []*eth2v1.BeaconCommitteeSubscription) error {
	return n.do(ctx)
}
func (n *c19dnode) SubmitBlindedProposal(ctx context.Context, _ *eth2api.SubmitBlindedProposalOpts) error {
	return n.do(ctx)
}
func (n *c19dnode) SubmitValidatorRegistrations(ctx context.Context, _ []*eth2api.VersionedSignedValidatorRegistration) error {
	return n.do(ctx)
}
func (n *c19dnode) SubmitProposalPreparations(ctx context.Context, _ []*eth2v1.ProposalPreparation) error {
	return n.do(ctx)
}
func (n *c19dnode) SubmitVoluntaryExit(ctx context.Context, _ *eth2p0.SignedVoluntaryExit) error {
	return n.do(ctx)
}

// 9 endpoints with other result types; the value names the answering node
func (n *c19dnode) SlotDuration(ctx context.Context) (time.Duration, error) {
	if err := n.do(ctx); err != nil {
		return 0, err
	}
	return time.Duration(n.id+1) * time.Second, nil
}
func (n *c19dnode) SlotsPerEpoch(ctx context.Context) (uint64, error) {
	if err := n.do(ctx); err != nil {
		return 0, err
	}
	return uint64(n.id + 1), nil
}
func (n *c19dnode) Domain(ctx context.Context, dt eth2p0.DomainType, _ eth2p0.Epoch) (eth2p0.Domain, error) {
	if dt == c19exitDomain { // as in httpAdapter: the voluntary-exit domain is computed from the fork version the client was given
		if err := n.stateful(ctx, "Domain"); err != nil {
			return eth2p0.Domain{}, err
		}
	} else if err := n.do(ctx); err != nil {
		return eth2p0.Domain{}, err
	}
	return eth2p0.Domain{byte(n.id + 1)}, nil
}
func (n *c19dnode) GenesisDomain(ctx context.Context, _ eth2p0.DomainType) (eth2p0.Domain, error) {
	if err := n.do(ctx); err != nil {
		return eth2p0.Domain{}, err
	}
	return eth2p0.Domain{byte(n.id + 1)}, nil
}
func (n *c19dnode) ActiveValidators(ctx context.Context) (ActiveValidators, error) {
	if err := n.stateful(ctx, "ActiveValidators"); err != nil {
		return nil, err
	}
	return ActiveValidators{eth2p0.ValidatorIndex(n.id + 1): eth2p0.BLSPubKey{}}, nil
}
func (n *c19dnode) CompleteValidators(ctx context.Context) (CompleteValidators, error) {
	if err := n.stateful(ctx, "CompleteValidators"); err != nil {
		return nil, err
	}
	return CompleteValidators{eth2p0.ValidatorIndex(n.id + 1): &eth2v1.Validator{}}, nil
}
func (n *c19dnode) ProposerDutiesCache(ctx context.Context, _ eth2p0.Epoch, _ []eth2p0.ValidatorIndex) (ProposerDutyWithMeta, error) {
	if err := n.stateful(ctx, "ProposerDutiesCache"); err != nil {
		return ProposerDutyWithMeta{}, err
	}
	return ProposerDutyWithMeta{Metadata: n.meta()}, nil
}
func (n *c19dnode) AttesterDutiesCache(ctx context.Context, _ eth2p0.Epoch, _ []eth2p0.ValidatorIndex) (AttesterDutyWithMeta, error) {
	if err := n.stateful(ctx, "AttesterDutiesCache"); err != nil {
		return AttesterDutyWithMeta{}, err
	}
	return AttesterDutyWithMeta{Metadata: n.meta()}, nil
}
func (n *c19dnode) SyncCommDutiesCache(ctx context.Context, _ eth2p0.Epoch, _ []eth2p0.ValidatorIndex) (SyncDutyWithMeta, error) {
	if err := n.stateful(ctx, "SyncCommDutiesCache"); err != nil {
		return SyncDutyWithMeta{}, err
	}
	return SyncDutyWithMeta{Metadata: n.meta()}, nil
}

// ---------------------------------------------------------------------------------------------------------------------
// the caller's side: every endpoint of the Client interface
// ---------------------------------------------------------------------------------------------------------------------

// c19ep: one provide/submit endpoint. call returns the id of the answering node (-1: the result does not say).
type c19ep struct {
	Name  string
	Ident bool // the result type can carry the answering node
	call  func(ctx context.Context, cl Client) (int, error)
}

func c19metaID(m map[string]any) int {
	if id, ok := m["node"].(int); ok {
		return id
	}
	return -1
}

func c19rid[T any](res *eth2api.Response[T], err error) (int, error) {
	if err != nil || res == nil {
		return -1, err
	}
	return c19metaID(res.Metadata), nil
}

func c19sub(err error) (int, error) { return -1, err }

func c19endpoints() []c19ep {
	firstKey := func(n int, idx eth2p0.ValidatorIndex) int {
		if n != 1 {
			return -1
		}
		return int(idx) - 1
	}
	return []c19ep{
		// 24 Response-typed providers
		{"SignedBeaconBlock", true, func(ctx context.Context, cl Client) (int, error) {
			return c19rid(cl.SignedBeaconBlock(ctx, &eth2api.SignedBeaconBlockOpts{Block: "head"}))
		}},
		{"BeaconCommittees", true, func(ctx context.Context, cl Client) (int, error) {
			return c19rid(cl.BeaconCommittees(ctx, &eth2api.BeaconCommitteesOpts{State: "head"}))
		}},
		{"AggregateAttestation", true, func(ctx context.Context, cl Client) (int, error) {
			return c19rid(cl.AggregateAttestation(ctx, &eth2api.AggregateAttestationOpts{}))
		}},
		{"AttestationData", true, func(ctx context.Context, cl Client) (int, error) {
			res, err := cl.AttestationData(ctx, &eth2api.AttestationDataOpts{})
			if err != nil || res == nil || res.Data == nil {
				return -1, err
			}
			return int(res.Data.Slot) - 100, nil
		}},
		{"AttesterDuties", true, func(ctx context.Context, cl Client) (int, error) {
			return c19rid(cl.AttesterDuties(ctx, &eth2api.AttesterDutiesOpts{}))
		}},
		{"DepositContract", true, func(ctx context.Context, cl Client) (int, error) {
			return c19rid(cl.DepositContract(ctx, &eth2api.DepositContractOpts{}))
		}},
		{"SyncCommitteeDuties", true, func(ctx context.Context, cl Client) (int, error) {
			return c19rid(cl.SyncCommitteeDuties(ctx, &eth2api.SyncCommitteeDutiesOpts{}))
		}},
		{"SyncCommitteeContribution", true, func(ctx context.Context, cl Client) (int, error) {
			return c19rid(cl.SyncCommitteeContribution(ctx, &eth2api.SyncCommitteeContributionOpts{}))
		}},
		{"SyncCommitteeSelections", true, func(ctx context.Context, cl Client) (int, error) {
			return c19rid(cl.SyncCommitteeSelections(ctx, &eth2api.SyncCommitteeSelectionsOpts{}))
		}},
		{"Proposal", true, func(ctx context.Context, cl Client) (int, error) {
			return c19rid(cl.Proposal(ctx, &eth2api.ProposalOpts{}))
		}},
		{"BeaconBlockRoot", true, func(ctx context.Context, cl Client) (int, error) {
			return c19rid(cl.BeaconBlockRoot(ctx, &eth2api.BeaconBlockRootOpts{Block: "head"}))
		}},
		{"BeaconBlockAttestations", true, func(ctx context.Context, cl Client) (int, error) {
			return c19rid(cl.BeaconBlockAttestations(ctx, &eth2api.BeaconBlockAttestationsOpts{Block: "head"}))
		}},
		{"BeaconCommitteeSelections", true, func(ctx context.Context, cl Client) (int, error) {
			return c19rid(cl.BeaconCommitteeSelections(ctx, &eth2api.BeaconCommitteeSelectionsOpts{}))
		}},
		{"Fork", true, func(ctx context.Context, cl Client) (int, error) {
			return c19rid(cl.Fork(ctx, &eth2api.ForkOpts{State: "head"}))
		}},
		{"ForkSchedule", true, func(ctx context.Context, cl Client) (int, error) {
			return c19rid(cl.ForkSchedule(ctx, &eth2api.ForkScheduleOpts{}))
		}},
		{"Genesis", true, func(ctx context.Context, cl Client) (int, error) {
			return c19rid(cl.Genesis(ctx, &eth2api.GenesisOpts{}))
		}},
		{"NodeIdentity", true, func(ctx context.Context, cl Client) (int, error) {
			return c19rid(cl.NodeIdentity(ctx, &eth2api.NodeIdentityOpts{}))
		}},
		{"NodePeerCount", true, func(ctx context.Context, cl Client) (int, error) {
			return c19rid(cl.NodePeerCount(ctx, &eth2api.NodePeerCountOpts{}))
		}},
		{"NodeSyncing", true, func(ctx context.Context, cl Client) (int, error) {
			return c19rid(cl.NodeSyncing(ctx, &eth2api.NodeSyncingOpts{}))
		}},
		{"NodeVersion", true, func(ctx context.Context, cl Client) (int, error) {
			return c19rid(cl.NodeVersion(ctx, &eth2api.NodeVersionOpts{}))
		}},
		{"NodeVersionV2", true, func(ctx context.Context, cl Client) (int, error) {
			return c19rid(cl.NodeVersionV2(ctx, &eth2api.NodeVersionV2Opts{}))
		}},
		{"ProposerDuties", true, func(ctx context.Context, cl Client) (int, error) {
			return c19rid(cl.ProposerDuties(ctx, &eth2api.ProposerDutiesOpts{}))
		}},
		{"Spec", true, func(ctx context.Context, cl Client) (int, error) {
			return c19rid(cl.Spec(ctx, &eth2api.SpecOpts{}))
		}},
		{"Validators", true, func(ctx context.Context, cl Client) (int, error) {
			return c19rid(cl.Validators(ctx, &eth2api.ValidatorsOpts{State: "head"}))
		}},
		// 11 submitters
		{"SubmitAggregateAttestations", false, func(ctx context.Context, cl Client) (int, error) {
			return c19sub(cl.SubmitAggregateAttestations(ctx, &eth2api.SubmitAggregateAttestationsOpts{}))
		}},
		{"SubmitAttestations", false, func(ctx context.Context, cl Client) (int, error) {
			return c19sub(cl.SubmitAttestations(ctx, &eth2api.SubmitAttestationsOpts{}))
		}},
		{"SubmitSyncCommitteeMessages", false, func(ctx context.Context, cl Client) (int, error) {
			return c19sub(cl.SubmitSyncCommitteeMessages(ctx, []*altair.SyncCommitteeMessage{{}}))
		}},
		{"SubmitSyncCommitteeSubscriptions", false, func(ctx context.Context, cl Client) (int, error) {
			return c19sub(cl.SubmitSyncCommitteeSubscriptions(ctx, []*eth2v1.SyncCommitteeSubscription{{}}))
		}},
		{"SubmitSyncCommitteeContributions", false, func(ctx context.Context, cl Client) (int, error) {
			return c19sub(cl.SubmitSyncCommitteeContributions(ctx, []*altair.SignedContributionAndProof{{}}))
		}},
		{"SubmitProposal", false, func(ctx context.Context, cl Client) (int, error) {
			return c19sub(cl.SubmitProposal(ctx, &eth2api.SubmitProposalOpts{}))
		}},
		{"SubmitBeaconCommitteeSubscriptions", false, func(ctx context.Context, cl Client) (int, error) {
			return c19sub(cl.SubmitBeaconCommitteeSubscriptions(ctx, []*eth2v1.BeaconCommitteeSubscription{{}}))
		}},
		{"SubmitBlindedProposal", false, func(ctx context.Context, cl Client) (int, error) {
			return c19sub(cl.SubmitBlindedProposal(ctx, &eth2api.SubmitBlindedProposalOpts{}))
		}},
		{"SubmitValidatorRegistrations", false, func(ctx context.Context, cl Client) (int, error) {
			return c19sub(cl.SubmitValidatorRegistrations(ctx, []*eth2api.VersionedSignedValidatorRegistration{{}}))
		}},
		{"SubmitProposalPreparations", false, func(ctx context.Context, cl Client) (int, error) {
			return c19sub(cl.SubmitProposalPreparations(ctx, []*eth2v1.ProposalPreparation{{}}))
		}},
		{"SubmitVoluntaryExit", false, func(ctx context.Context, cl Client) (int, error) {
			return c19sub(cl.SubmitVoluntaryExit(ctx, &eth2p0.SignedVoluntaryExit{}))
		}},
		// 9 others
		{"SlotDuration", true, func(ctx context.Context, cl Client) (int, error) {
			d, err := cl.SlotDuration(ctx)
			if err != nil {
				return -1, err
			}
			return int(d/time.Second) - 1, nil
		}},
		{"SlotsPerEpoch", true, func(ctx context.Context, cl Client) (int, error) {
			n, err := cl.SlotsPerEpoch(ctx)
			if err != nil {
				return -1, err
			}
			return int(n) - 1, nil
		}},
		{"Domain", true, func(ctx context.Context, cl Client) (int, error) {
			d, err := cl.Domain(ctx, c19exitDomain, 0)
			if err != nil {
				return -1, err
			}
			return int(d[0]) - 1, nil
		}},
		{"GenesisDomain", true, func(ctx context.Context, cl Client) (int, error) {
			d, err := cl.GenesisDomain(ctx, eth2p0.DomainType{})
			if err != nil {
				return -1, err
			}
			return int(d[0]) - 1, nil
		}},
		{"ActiveValidators", true, func(ctx context.Context, cl Client) (int, error) {
			v, err := cl.ActiveValidators(ctx)
			if err != nil {
				return -1, err
			}
			for idx := range v {
				return firstKey(len(v), idx), nil
			}
			return -1, nil
		}},
		{"CompleteValidators", true, func(ctx context.Context, cl Client) (int, error) {
			v, err := cl.CompleteValidators(ctx)
			if err != nil {
				return -1, err
			}
			for idx := range v {
				return firstKey(len(v), idx), nil
			}
			return -1, nil
		}},
		{"ProposerDutiesCache", true, func(ctx context.Context, cl Client) (int, error) {
			v, err := cl.ProposerDutiesCache(ctx, 0, nil)
			if err != nil {
				return -1, err
			}
			return c19metaID(v.Metadata), nil
		}},
		{"AttesterDutiesCache", true, func(ctx context.Context, cl Client) (int, error) {
			v, err := cl.AttesterDutiesCache(ctx, 0, nil)
			if err != nil {
				return -1, err
			}
			return c19metaID(v.Metadata), nil
		}},
		{"SyncCommDutiesCache", true, func(ctx context.Context, cl Client) (int, error) {
			v, err := cl.SyncCommDutiesCache(ctx, 0, nil)
			if err != nil {
				return -1, err
			}
			return c19metaID(v.Metadata), nil
		}},
	}
}

var c19epTable = func() map[string]c19ep {
	m := map[string]c19ep{}
	for _, e := range c19endpoints() {
		m[e.Name] = e
	}
	return m
}()

// c19unlistedMethods: methods of the Client interface that are in none of the tables of this file (a method added to the
// interface later): reported, never judged.
func c19unlistedMethods() []string {
	known := map[string]bool{"Proxy": true, "ClientForAddress": true, "SetValidatorCache": true, "SetDutiesCache": true, "SetForkVersion": true}
	for _, a := range c19accessorList {
		known[a] = true
	}
	for n := range c19epTable {
		known[n] = true
	}
	var out []string
	it := reflect.TypeOf((*Client)(nil)).Elem()
	for i := 0; i < it.NumMethod(); i++ {
		if !known[it.Method(i).Name] {
			out = append(out, it.Method(i).Name)
		}
	}
	sort.Strings(out)
	return out
}

// ---------------------------------------------------------------------------------------------------------------------
// derivations and their reference model
// ---------------------------------------------------------------------------------------------------------------------

// c19cfg: the nodes configured for a client object (ids: primary i = i, fallback j = 10+j).
type c19cfg struct{ P, F []int }

func c19stepAddr(step string) (addr string, id int) {
	var k int
	switch {
	case step == "cfa:empty":
		return "", -1
	case step == "cfa:unknown":
		return c19unknownAddr, -1
	case strings.HasPrefix(step, "cfa:P"):
		fmt.Sscanf(step, "cfa:P%d", &k)
		return fmt.Sprintf("node%d", k), k
	case strings.HasPrefix(step, "cfa:F"):
		fmt.Sscanf(step, "cfa:F%d", &k)
		return fmt.Sprintf("node%d", 10+k), 10 + k
	}
	panic("not an address step: " + step)
}

// c19effective is the reference model: the doc comment of multi.ClientForAddress applied step by step; wrappers are transparent.
func c19effective(np, nf int, steps []string) c19cfg {
	var cfg c19cfg
	for i := 0; i < np; i++ {
		cfg.P = append(cfg.P, i)
	}
	for j := 0; j < nf; j++ {
		cfg.F = append(cfg.F, 10+j)
	}
	in := func(l []int, id int) bool {
		for _, x := range l {
			if x == id {
				return true
			}
		}
		return false
	}
	for _, st := range steps {
		if st == "lazy" || st == "synth" {
			continue
		}
		_, id := c19stepAddr(st)
		switch {
		case id < 0: // empty / unknown: the receiver
		case in(cfg.P, id):
			cfg = c19cfg{P: []int{id}, F: cfg.F}
		case in(cfg.F, id):
			cfg = c19cfg{P: []int{id}}
		default: // not configured for the receiver: the receiver
		}
	}
	return cfg
}

func c19derive(cl Client, step string) Client {
	switch step {
	case "lazy":
		return NewLazyForT(cl)
	case "synth":
		return WithSyntheticDuties(cl)
	}
	addr, _ := c19stepAddr(step)
	return cl.ClientForAddress(addr)
}

// c19steps is the derivation alphabet of a topology.
func c19steps(np, nf int, wrappers bool) []string {
	var s []string
	for i := 0; i < np; i++ {
		s = append(s, fmt.Sprintf("cfa:P%d", i))
	}
	for j := 0; j < nf; j++ {
		s = append(s, fmt.Sprintf("cfa:F%d", j))
	}
	s = append(s, "cfa:unknown", "cfa:empty")
	if wrappers {
		s = append(s, "lazy", "synth")
	}
	return s
}

// c19objKind names the kind of derived object (for classes and signatures): indices are dropped.
func c19objKind(steps []string) string {
	if len(steps) == 0 {
		return "constructed"
	}
	var l []string
	for _, s := range steps {
		switch {
		case strings.HasPrefix(s, "cfa:P"):
			l = append(l, "cfa(primary)")
		case strings.HasPrefix(s, "cfa:F"):
			l = append(l, "cfa(fallback)")
		case strings.HasPrefix(s, "cfa:"):
			l = append(l, "cfa("+s[4:]+")")
		default:
			l = append(l, s)
		}
	}
	return strings.Join(l, ">")
}

// ---------------------------------------------------------------------------------------------------------------------
// case, execution, oracle
// ---------------------------------------------------------------------------------------------------------------------

type c19dcase struct {
	Dim      string   `json:"dim"`                   // D1..D4, E, S (non-empty marks a replay file as a case of this file)
	Ctor     string   `json:"constructor,omitempty"` // "" = Instrument, "NewMultiForT"
	Derive   []string `json:"derive"`
	Call     string   `json:"call"` // provide | submit | proxy | name of an endpoint
	Prim     []string `json:"primaries"`
	PrimLat  []int    `json:"primary_latencies"`
	Fall     []string `json:"fallbacks"`
	FallLat  []int    `json:"fallback_latencies"`
	CancelAt int      `json:"cancel_at_half_quanta"`
	All      bool     `json:"all_forms"`
	Prefix   []c19pre `json:"prefix,omitempty"` // calls served by the CONSTRUCTED client before the derivation
	Setter   string   `json:"setter,omitempty"`
	SetWhen  string   `json:"setter_called,omitempty"` // constructed-before-derive | constructed-after-derive | derived
}

func (c c19dcase) String() string {
	s := fmt.Sprintf("[%s] %s on %s%v P=%v@%v F=%v@%v cancel=%d", c.Dim, c.Call, c.Ctor, c.Derive, c.Prim, c.PrimLat, c.Fall, c.FallLat, c.CancelAt)
	if len(c.Prefix) > 0 {
		s += fmt.Sprintf(" after=%v", c.Prefix)
	}
	if c.Setter != "" {
		s += fmt.Sprintf(" %s(%s)", c.Setter, c.SetWhen)
	}
	return s
}

func (c c19dcase) endpoint() string {
	switch c.Call {
	case "provide":
		return "AttestationData"
	case "submit":
		return "SubmitAttestations"
	}
	return c.Call
}

func (c c19dcase) ident() bool {
	if c.Call == "proxy" {
		return true
	}
	return c19epTable[c.endpoint()].Ident
}

type c19dobs struct {
	returned bool
	tRet     time.Duration
	err      error
	value    int // id of the answering node, -1 = the result does not say
	pn, fn   []*c19dnode
	notes    []string
}

func c19dset(cl Client, setter string) {
	switch setter {
	case "SetValidatorCache":
		cl.SetValidatorCache(c19valCacheFn)
	case "SetDutiesCache":
		cl.SetDutiesCache(c19propCacheFn, c19attCacheFn, c19syncCacheFn)
	case "SetForkVersion":
		cl.SetForkVersion(c19forkVersion)
	}
}

func c19drun(t *testing.T, cs c19dcase) (obs c19dobs) {
	obs.value = -1
	synctest.Test(t, func(t *testing.T) {
		t0 := time.Now()
		mk := func(names []string, lats []int, base int) ([]Client, []*c19dnode) {
			var cl []Client
			var ns []*c19dnode
			for i, nm := range names {
				n := &c19dnode{c19node: &c19node{id: base + i, out: c19find(cs.All, nm), lat: time.Duration(lats[i]) * c19q, t0: t0}}
				if cs.Setter == "" {
					n.preset()
				}
				ns = append(ns, n)
				cl = append(cl, n)
			}
			return cl, ns
		}
		pc, pn := mk(cs.Prim, cs.PrimLat, 0)
		fc, fn := mk(cs.Fall, cs.FallLat, 10)
		obs.pn, obs.fn = pn, fn
		var constructed Client
		if cs.Ctor == "NewMultiForT" {
			constructed = NewMultiForT(pc, fc)
		} else {
			var err error
			if constructed, err = Instrument(pc, fc); err != nil {
				t.Fatalf("instrument: %v", err)
			}
		}
		// history of the constructed client before anything is derived from it
		for _, pre := range cs.Prefix {
			for k := 0; k < pre.Rep; k++ {
				for i, n := range pn {
					n.out, n.lat, n.t0 = c19find(cs.All, pre.Prim[i]), time.Duration(i+1)*c19q, time.Now()
				}
				for i, n := range fn {
					n.out, n.lat, n.t0 = c19find(cs.All, pre.Fall[i]), time.Duration(i+1)*c19q, time.Now()
				}
				pctx, pcancel := context.WithTimeout(context.Background(), 50*c19q)
				if pre.Kind == "submit" {
					_ = constructed.SubmitAttestations(pctx, &eth2api.SubmitAttestationsOpts{})
				} else {
					_, _ = constructed.AttestationData(pctx, &eth2api.AttestationDataOpts{})
				}
				pcancel()
				synctest.Wait()
			}
		}
		if cs.SetWhen == "constructed-before-derive" {
			c19dset(constructed, cs.Setter)
		}
		cl := constructed
		for _, st := range cs.Derive {
			cl = c19derive(cl, st)
		}
		switch cs.SetWhen {
		case "constructed-after-derive":
			c19dset(constructed, cs.Setter)
		case "derived":
			c19dset(cl, cs.Setter)
		}
		// accessors of the derived object: called, not judged (outside the statement)
		for _, a := range c19accessorList {
			func() {
				defer func() {
					if rec := recover(); rec != nil {
						obs.notes = append(obs.notes, fmt.Sprintf("accessor %s panicked on object %s: %v", a, c19objKind(cs.Derive), rec))
					}
				}()
				switch a {
				case "Address":
					_ = cl.Address()
				case "Name":
					_ = cl.Name()
				case "Headers":
					_ = cl.Headers()
				case "IsActive":
					_ = cl.IsActive()
				case "IsSynced":
					_ = cl.IsSynced()
				}
			}()
		}
		if len(cs.Prefix) > 0 {
			time.Sleep(3 * c19q)
		}
		t0 = time.Now()
		for i, n := range pn {
			n.out, n.lat, n.t0, n.called, n.tCall, n.bodyBad = c19find(cs.All, cs.Prim[i]), time.Duration(cs.PrimLat[i])*c19q, t0, false, 0, false
		}
		for i, n := range fn {
			n.out, n.lat, n.t0, n.called, n.tCall, n.bodyBad = c19find(cs.All, cs.Fall[i]), time.Duration(cs.FallLat[i])*c19q, t0, false, 0, false
		}
		ctx, cancel := context.WithCancel(context.Background())
		cancelAt := c19horizon
		if cs.CancelAt > 0 {
			cancelAt = time.Duration(cs.CancelAt)*c19q - c19q/2
		}
		stop := make(chan struct{})
		go func() {
			select {
			case <-time.After(cancelAt):
				cancel()
			case <-stop:
			}
		}()
		done := make(chan struct{})
		go func() {
			defer close(done)
			if cs.Call == "proxy" {
				req, rerr := http.NewRequestWithContext(ctx, http.MethodPost, "http://beacon.invalid/eth/v1/anything", strings.NewReader(c19body))
				if rerr != nil {
					obs.err = rerr
				} else if res, err := cl.Proxy(ctx, req); err != nil {
					obs.err = err
				} else if res != nil {
					fmt.Sscan(res.Header.Get("X-Node"), &obs.value)
				}
			} else {
				obs.value, obs.err = c19epTable[cs.endpoint()].call(ctx, cl)
			}
			obs.returned, obs.tRet = true, time.Since(t0)
		}()
		select {
		case <-done:
		case <-time.After(2 * c19horizon):
		}
		cancel()
		close(stop)
		synctest.Wait()
		if !obs.returned {
			<-done
		}
	})
	return obs
}

// c19dcheck: the statement evaluated on the nodes configured for the derived object, plus "a node outside that configuration
// is never consulted", plus (setter scripts) "a consulted primary of the object the setter was called on holds the state".
func c19dcheck(cs c19dcase, o c19dobs) (sigs, descs []string) {
	bad := func(sig, f string, a ...any) {
		sigs = append(sigs, sig)
		descs = append(descs, fmt.Sprintf(f, a...))
	}
	eff := c19effective(len(cs.Prim), len(cs.Fall), cs.Derive)
	node := func(id int) *c19dnode {
		if id >= 10 {
			return o.fn[id-10]
		}
		return o.pn[id]
	}
	name := func(id int) (string, int) {
		if id >= 10 {
			return cs.Fall[id-10], cs.FallLat[id-10]
		}
		return cs.Prim[id], cs.PrimLat[id]
	}
	inEff := map[int]bool{}
	for _, id := range append(append([]int(nil), eff.P...), eff.F...) {
		inEff[id] = true
	}
	var outside []int
	for _, n := range append(append([]*c19dnode(nil), o.pn...), o.fn...) {
		if n.called && !inEff[n.id] {
			outside = append(outside, n.id)
		}
	}
	if len(outside) > 0 {
		bad("kind=node-outside-configuration-consulted", "nodes %v were called although the object %v is configured with primaries %v and fallbacks %v only", outside, cs.Derive, eff.P, eff.F)
	}
	ep := cs.endpoint()
	if cs.Setter != "" {
		// the nodes whose state the statement covers: the primaries of the object the setter was called on
		judged := c19effective(len(cs.Prim), len(cs.Fall), nil).P
		if cs.SetWhen == "derived" {
			judged = eff.P
		}
		for _, id := range judged {
			if n := node(id); inEff[id] && n.called && !n.holds(ep) {
				bad("kind=configured-primary-lacks-client-state setter="+cs.Setter, "primary node %d was consulted for %s without the state that %s (%s) gave the client", id, ep, cs.Setter, cs.SetWhen)
			}
		}
	}
	// the script as the effective configuration sees it; a node without the state answers with a plain failure
	kind := "submit"
	if cs.ident() {
		kind = "provide"
	}
	ec := c19case{Kind: kind, CancelAt: cs.CancelAt, All: cs.All}
	eo := c19obs{returned: o.returned, tRet: o.tRet, err: o.err, value: -1}
	add := func(ids []int, names *[]string, lats *[]int) {
		for _, id := range ids {
			nm, lat := name(id)
			if nm == "ok" && !node(id).holds(ep) {
				nm = "generic"
			}
			*names, *lats = append(*names, nm), append(*lats, lat)
		}
	}
	add(eff.P, &ec.Prim, &ec.PrimLat)
	add(eff.F, &ec.Fall, &ec.FallLat)
	for k, id := range eff.P {
		n := node(id)
		eo.calledP = append(eo.calledP, n.called)
		if n.called && n.bodyBad && cs.Call == "proxy" {
			eo.alteredReq = append(eo.alteredReq, id)
		}
		if o.value == id {
			eo.value = k
		}
	}
	for k, id := range eff.F {
		n := node(id)
		eo.calledF, eo.tCallF = append(eo.calledF, n.called), append(eo.tCallF, n.tCall)
		if n.called && n.bodyBad && cs.Call == "proxy" {
			eo.alteredReq = append(eo.alteredReq, id)
		}
		if o.value == id {
			eo.value = 10 + k
		}
	}
	if o.value >= 0 && eo.value < 0 {
		eo.value = 99 // answered by a node that is not configured for the object
	}
	s2, d2 := c19check(ec, eo)
	return append(sigs, s2...), append(descs, d2...)
}

// c19vectors calls f with every vector in {0..k-1}^n (first index fastest) until f returns false.
func c19vectors(n, k int, f func(idx []int) bool) {
	idx := make([]int, n)
	for {
		if !f(idx) {
			return
		}
		j := 0
		for j < n {
			idx[j]++
			if idx[j] < k {
				break
			}
			idx[j] = 0
			j++
		}
		if j == n {
			return
		}
	}
}

func c19names(outs []c19outcome, idx []int) []string {
	var l []string
	for _, i := range idx {
		l = append(l, outs[i].Name)
	}
	return l
}

// c19dReplay replays a case of this file (true: the replay file was one).
func c19dReplay(t *testing.T, r *enumx.Run) bool {
	var cs c19dcase
	if err := r.ReplayCase(&cs); err != nil || cs.Dim == "" {
		return false
	}
	o := c19drun(t, cs)
	fmt.Printf("replay %s -> returned=%v at %s err=%v answered-by=%d effective=%+v\n", cs, o.returned, o.tRet, o.err, o.value, c19effective(len(cs.Prim), len(cs.Fall), cs.Derive))
	for _, n := range append(append([]*c19dnode(nil), o.pn...), o.fn...) {
		fmt.Printf("  node %d: called=%v at %s holds-state=%v\n", n.id, n.called, n.tCall, n.holds(cs.endpoint()))
	}
	c19djudge(t, r, cs)
	return true
}

func c19djudge(t *testing.T, r *enumx.Run, cs c19dcase) {
	o := c19drun(t, cs)
	sigs, descs := c19dcheck(cs, o)
	obj := c19objKind(cs.Derive)
	eff := c19effective(len(cs.Prim), len(cs.Fall), cs.Derive)
	cls := fmt.Sprintf("derived:%s:%s%s:%s:P%d:F%d:ret=%v:err=%v", cs.Dim, cs.Ctor, obj, cs.Call, len(cs.Prim), len(cs.Fall), o.returned, o.err != nil)
	if cs.Setter != "" {
		cls += ":" + cs.Setter + ":" + cs.SetWhen
	}
	r.Eval(cls)
	r.Steps(1 + len(cs.Derive))
	r.Outcome(fmt.Sprintf("derived:%s:ret=%v:err=%v", obj, o.returned, o.err != nil))
	r.Count("derived_scripts_"+cs.Dim, 1)
	r.Count("derived_accessor_calls_not_judged", len(c19accessorList))
	for _, n := range o.notes {
		r.Note(n)
	}
	// non-vacuity: how often the scoping really changed what is consulted, and what the derived objects answered
	all := append(append([]*c19dnode(nil), o.pn...), o.fn...)
	if len(eff.P)+len(eff.F) < len(all) {
		r.Count("derived_scripts_on_scoped_object", 1)
		excluded := map[int]bool{}
		for _, n := range all {
			excluded[n.id] = true
		}
		for _, id := range append(append([]int(nil), eff.P...), eff.F...) {
			delete(excluded, id)
		}
		nex := 0
		for _, n := range all {
			if excluded[n.id] && !n.called {
				nex++
			}
		}
		r.Count("derived_excluded_nodes_never_consulted", nex)
	} else {
		r.Count("derived_scripts_on_unscoped_object", 1)
	}
	if o.err == nil {
		r.Count("derived_calls_succeeded", 1)
		if o.value >= 10 {
			r.Count("derived_calls_answered_by_a_fallback_node", 1)
		}
		if o.value >= 0 && cs.Dim == "E" {
			r.Count("endpoint_answers_identified_by_node", 1)
		}
	} else {
		r.Count("derived_calls_failed", 1)
	}
	for _, id := range eff.F {
		if o.fn[id-10].called {
			r.Count("derived_fallback_calls", 1)
		}
	}
	if len(cs.Prefix) > 0 {
		r.Count("derived_judged_calls_with_history_before_derivation", 1)
	}
	if cs.Setter != "" {
		for _, n := range all {
			switch {
			case n.called && n.holds(cs.endpoint()):
				r.Count("setter_state_seen_on_consulted_node", 1)
			case n.called:
				r.Count("setter_state_missing_on_consulted_unjudged_node", 1)
			}
		}
	}
	for i, sig := range sigs {
		ok := true
		for k := 0; k < 3; k++ {
			s2, _ := c19dcheck(cs, c19drun(t, cs))
			if !strings.Contains(strings.Join(s2, "|"), sig) {
				ok = false
			}
		}
		if !ok {
			r.Unconfirmed(sig)
			continue
		}
		// one signature per (kind, dimension, kind of object); the endpoint is part of it where the endpoint is the dimension
		fullSig := fmt.Sprintf("%s dim=%s object=%s%s", sig, cs.Dim, cs.Ctor, obj)
		if cs.Dim == "E" || cs.Dim == "S" {
			fullSig += " call=" + cs.Call
		}
		r.Violation(fullSig,
			fmt.Sprintf("%s [%s] model: primaries %v fallbacks %v; observed: returned=%v at %s err=%v answered-by-node=%d", descs[i], cs, eff.P, eff.F, o.returned, o.tRet, o.err, o.value), cs)
	}
}

// c19derived enumerates the dimension; false = the time budget ended it.
func c19derived(t *testing.T, r *enumx.Run) bool {
	th := enumx.Thorough()
	if extra := c19unlistedMethods(); len(extra) > 0 {
		r.NotExhaustive(fmt.Sprintf("methods of the Client interface that are in none of the tables of the C19 harness (not judged): %v", extra))
	}
	outs6 := c19outcomes(false)
	type topo struct{ p, f int }
	// product: outcome vector (sharded) x latency orders x calls x cancellation instants, for one object
	product := func(dim, ctor string, tp topo, derive []string, outs []c19outcome, all bool, calls []string, cancels func(tp topo) []int, extra func(*c19dcase)) bool {
		fin := true
		c19vectors(tp.p+tp.f, len(outs), func(idx []int) bool {
			if !r.Mine() {
				return true
			}
			if r.Expired() {
				fin = false
				return false
			}
			pn, fn := c19names(outs, idx[:tp.p]), c19names(outs, idx[tp.p:])
			for _, pl := range c19perms(tp.p) {
				for _, fl := range c19perms(tp.f) {
					for _, call := range calls {
						for _, cancel := range cancels(tp) {
							cs := c19dcase{Dim: dim, Ctor: ctor, Derive: derive, Call: call, Prim: pn, PrimLat: pl, Fall: fn, FallLat: fl, CancelAt: cancel, All: all}
							if extra != nil {
								extra(&cs)
							}
							c19djudge(t, r, cs)
						}
					}
				}
			}
			return true
		})
		return fin
	}
	everyInstant := func(tp topo) []int {
		var l []int
		for c := 0; c <= tp.p+tp.f+1; c++ {
			l = append(l, c)
		}
		return l
	}
	never := func(topo) []int { return []int{0} }
	edgeInstants := func(tp topo) []int { return []int{0, 1, tp.p + 1} }
	three := []string{"provide", "submit", "proxy"}

	// D1: every single derivation step
	d1 := []topo{{1, 1}, {2, 0}, {2, 1}, {1, 2}, {2, 2}}
	if th {
		d1 = append(d1, topo{3, 1}, topo{3, 2})
	}
	sampled := 0
	for _, tp := range d1 {
		for _, st := range c19steps(tp.p, tp.f, th || tp.p+tp.f <= 3) {
			cancels := everyInstant
			if !th && tp.p+tp.f > 3 {
				cancels = edgeInstants // quick tier, four nodes: never / before the first answer / after the primaries
			}
			if !product("D1", "", tp, []string{st}, outs6, false, three, cancels, nil) {
				return false
			}
			if sampled < 2 && r.Shard == 0 {
				sampled++
				r.Sample(fmt.Sprintf("derived D1: %dx%d nodes, object %v, model %+v", tp.p, tp.f, []string{st}, c19effective(tp.p, tp.f, []string{st})))
			}
		}
	}
	for _, st := range c19steps(2, 1, true) { // the *multi of NewMultiForT (pointer receiver path)
		if !product("D1", "NewMultiForT>", topo{2, 1}, []string{st}, outs6, false, three, everyInstant, nil) {
			return false
		}
	}
	// D2: every chain of two steps
	d2 := []topo{{2, 1}}
	if th {
		d2 = append(d2, topo{1, 2}, topo{2, 2})
	}
	for _, tp := range d2 {
		steps := c19steps(tp.p, tp.f, true)
		for _, s1 := range steps {
			for _, s2 := range steps {
				if !product("D2", "", tp, []string{s1, s2}, outs6, false, three, everyInstant, nil) {
					return false
				}
			}
		}
	}
	// D3: scoped objects with every concrete error form
	outs18 := c19outcomes(true)
	d3cancel := never
	if th {
		d3cancel = everyInstant
	}
	for _, st := range []string{"cfa:P0", "cfa:P1", "cfa:F0"} {
		if !product("D3", "", topo{2, 1}, []string{st}, outs18, true, three, d3cancel, nil) {
			return false
		}
	}
	// D4: the constructed client has a history before the object is derived from it
	preOuts := []string{"ok", "generic", "syncing", "hang"}
	reps := []int{3}
	if th {
		reps = []int{1, 3}
	}
	fin := true
	c19vectors(3, len(preOuts), func(pidx []int) bool {
		pre := c19pre{Kind: "provide", Prim: []string{preOuts[pidx[0]], preOuts[pidx[1]]}, Fall: []string{preOuts[pidx[2]]}}
		for _, rep := range reps {
			pre.Rep = rep
			for _, st := range []string{"cfa:P0", "cfa:P1", "cfa:F0"} {
				p := pre
				if !product("D4", "", topo{2, 1}, []string{st}, outs6, false, []string{"provide", "submit"}, never, func(cs *c19dcase) { cs.Prefix = []c19pre{p} }) {
					fin = false
					return false
				}
			}
		}
		return true
	})
	if !fin {
		return false
	}
	// E: every provide/submit endpoint of the interface
	eps := c19endpoints()
	if r.Shard == 0 {
		r.Count("endpoints_of_the_client_interface_enumerated", len(eps))
	}
	eTopos := []topo{{2, 1}}
	eCancel := edgeInstants
	if th {
		eTopos = append(eTopos, topo{1, 2})
		eCancel = everyInstant
	}
	for _, e := range eps {
		for _, tp := range eTopos {
			if !product("E", "", tp, nil, outs6, false, []string{e.Name}, eCancel, nil) {
				return false
			}
		}
		for _, obj := range [][]string{{"cfa:P1"}, {"cfa:F0"}, {"lazy"}} {
			if !product("E", "", topo{2, 1}, obj, outs6, false, []string{e.Name}, never, nil) {
				return false
			}
		}
	}
	// S: the client's setters, before or after the derivation, on the constructed or on the derived object
	setters := []struct {
		name string
		eps  []string
	}{
		{"SetValidatorCache", []string{"ActiveValidators", "CompleteValidators"}},
		{"SetDutiesCache", []string{"ProposerDutiesCache", "AttesterDutiesCache", "SyncCommDutiesCache"}},
		{"SetForkVersion", []string{"Domain"}},
	}
	for _, st := range setters {
		for _, obj := range [][]string{nil, {"cfa:P0"}, {"cfa:P1"}, {"cfa:F0"}, {"cfa:unknown"}, {"lazy"}} {
			for _, when := range []string{"constructed-before-derive", "constructed-after-derive", "derived"} {
				if when == "derived" && obj == nil {
					continue // the same script as constructed-after-derive
				}
				name, w := st.name, when
				if !product("S", "", topo{2, 1}, obj, outs6, false, st.eps, never, func(cs *c19dcase) { cs.Setter, cs.SetWhen = name, w }) {
					return false
				}
			}
		}
	}
	return true
}
