package eth2wrap_test

// C19, part C: the layers under the fork-join of the multi-node client that the scripted nodes of parts A/B replace - the
// lazily connecting HTTP client of a node (newBeaconClient / lazy / go-eth2-client's http service). Nodes are real TCP
// listeners on loopback: a "hung" node accepts connections and never answers, a healthy node is the repository's beacon
// mock. This part runs in REAL time (network I/O cannot run on a virtual clock); its verdicts use a bound of 20 s
// against per-node timeouts of one hour, i.e. a call that is still blocked after 20 s is waiting for a hung node.
//
// Scripts (complete product): topology {1 hung primary; 2 hung primaries; 1 hung primary + 1 hung fallback; 1 hung + 1
// healthy primary (both orders)} x call {provide-style, submit-style, proxy} x {first call on the client object, second call}
// x {the caller cancels 200 ms into the call, never}. Oracle: a cancelled call returns (with the context's error); with a
// healthy primary the call succeeds; both without waiting for the hung node.
//
// Derived objects on the real network: the judged call is also made on ClientForAddress(healthy node) (x 3 calls x first /
// second call x cancel / never) and on ClientForAddress(hung node) (second call, cancelled) of the "hung,healthy" client; the
// healthy node is configured for the derived object under either reading of the scoping (a node client that has not
// connected yet reports an empty address, so that the address is "not found" and the receiver is returned), hence the same
// oracle. Topology "refused|healthy": node lists from NewSimnetFallbacks combined by Instrument; the primary's port is closed
// (connection refused), the healthy fallback must answer.

import (
	"context"
	"fmt"
	"net"
	"net/http"
	"strings"
	"testing"
	"time"

	eth2api "github.com/attestantio/go-eth2-client/api"

	"github.com/obolnetwork/charon/app/eth2wrap"
	"github.com/obolnetwork/charon/testutil/beaconmock"
	"github.com/obolnetwork/charon/zzverif/enumx"
)

type c19netCase struct {
	Topology string `json:"topology"`
	Call     string `json:"call"`
	Second   bool   `json:"second_call_on_the_same_client"`
	Cancel   bool   `json:"caller_cancels_after_200ms"`
	Scope    string `json:"judged_call_on_client_for_address_of,omitempty"` // "", "healthy", "hung"
}

func (c c19netCase) String() string {
	s := fmt.Sprintf("net %s %s second=%v cancel=%v", c.Topology, c.Call, c.Second, c.Cancel)
	if c.Scope != "" {
		s += " on ClientForAddress(" + c.Scope + " node)"
	}
	return s
}

const c19netBound = 20 * time.Second

func c19hungNode(t *testing.T) (string, func()) {
	l, err := net.Listen("tcp", "127.0.0.1:0")
	if err != nil {
		return "", func() {}
	}
	var conns []net.Conn
	stop := make(chan struct{})
	go func() {
		for {
			c, err := l.Accept()
			if err != nil {
				return
			}
			select {
			case <-stop:
				_ = c.Close()
				return
			default:
				conns = append(conns, c) // held open, never answered
			}
		}
	}()
	return "http://" + l.Addr().String(), func() {
		close(stop)
		_ = l.Close()
		for _, c := range conns {
			_ = c.Close()
		}
	}
}

// c19netRun returns (returned within the bound, error of the call, harness problem).
func c19netRun(t *testing.T, cs c19netCase, healthy string) (returned bool, callErr error, problem string) {
	var prim, fall []string
	var closers []func()
	defer func() {
		for _, c := range closers {
			c()
		}
	}()
	var hungAddr string
	hung := func() string {
		a, c := c19hungNode(t)
		closers = append(closers, c)
		hungAddr = a
		return a
	}
	var refused string
	switch cs.Topology {
	case "hung":
		prim = []string{hung()}
	case "hung,hung":
		prim = []string{hung(), hung()}
	case "hung|hung":
		prim, fall = []string{hung()}, []string{hung()}
	case "healthy":
		prim = []string{healthy}
	case "hung,healthy":
		prim = []string{hung(), healthy}
	case "healthy,hung":
		prim = []string{healthy, hung()}
	case "refused|healthy":
		// a port that was just released: connecting to it is refused
		l, err := net.Listen("tcp", "127.0.0.1:0")
		if err != nil {
			return false, nil, "cannot listen on loopback"
		}
		refused = "http://" + l.Addr().String()
		_ = l.Close()
		prim, fall = []string{refused}, []string{healthy}
	}
	for _, a := range append(append([]string{}, prim...), fall...) {
		if a == "" {
			return false, nil, "cannot listen on loopback"
		}
	}
	var constructed eth2wrap.Client
	var err error
	if refused != "" {
		constructed, err = eth2wrap.Instrument(eth2wrap.NewSimnetFallbacks(time.Hour, [4]byte{}, nil, prim), eth2wrap.NewSimnetFallbacks(time.Hour, [4]byte{}, nil, fall))
	} else {
		constructed, err = eth2wrap.NewMultiHTTP(time.Hour, [4]byte{}, nil, prim, fall)
	}
	if err != nil {
		return false, nil, "constructing the client: " + err.Error()
	}
	cl := constructed // the first call of a "second call" script is made on the constructed client, the judged call on the derived one
	call := func(ctx context.Context) error {
		switch cs.Call {
		case "provide":
			_, err := cl.NodeVersion(ctx, &eth2api.NodeVersionOpts{})
			return err
		case "submit":
			return cl.SubmitAttestations(ctx, &eth2api.SubmitAttestationsOpts{})
		default:
			req, err := http.NewRequestWithContext(ctx, http.MethodGet, "http://beacon.invalid/eth/v1/node/version", nil)
			if err != nil {
				return err
			}
			res, err := cl.Proxy(ctx, req)
			if err == nil && res != nil && res.Body != nil {
				_ = res.Body.Close()
			}
			return err
		}
	}
	if cs.Second {
		// a first call that the caller gives up after 300 ms: whatever it started (connection setup) stays in flight
		c0, cancel0 := context.WithTimeout(context.Background(), 300*time.Millisecond)
		d0 := make(chan struct{})
		go func() { _ = call(c0); close(d0) }()
		select {
		case <-d0:
		case <-time.After(c19netBound):
			cancel0()
			return false, nil, "" // already the first (cancelled) call does not return: judged like any other
		}
		cancel0()
	}
	switch cs.Scope {
	case "healthy":
		cl = constructed.ClientForAddress(healthy)
	case "hung":
		cl = constructed.ClientForAddress(hungAddr)
	}
	ctx, cancel := context.WithCancel(context.Background())
	defer cancel()
	done := make(chan error, 1)
	go func() { done <- call(ctx) }()
	if cs.Cancel {
		time.Sleep(200 * time.Millisecond)
		cancel()
	}
	select {
	case err := <-done:
		return true, err, ""
	case <-time.After(c19netBound):
		return false, nil, ""
	}
}

// the external test package may import the beacon mock (which imports eth2wrap); the internal harness calls part C through this hook
func init() { eth2wrap.VerifC19PartC = c19partC }

func c19partC(t *testing.T, r *enumx.Run) {
	bmock, err := beaconmock.New(context.Background())
	if err != nil {
		r.Note("part C skipped: beacon mock unavailable: " + err.Error())
		return
	}
	defer bmock.Close()
	healthy := bmock.Address()
	judge := func(cs c19netCase) (sig, desc string, problem string) {
		returned, callErr, problem := c19netRun(t, cs, healthy)
		if problem != "" {
			return "", "", problem
		}
		hasHealthy := strings.Contains(cs.Topology, "healthy")
		switch {
		case !returned && cs.Cancel:
			return "kind=cancel-not-prompt layer=node-connection", fmt.Sprintf("the caller cancelled 200 ms into the call; %s later the call had not returned", c19netBound), ""
		case !returned && hasHealthy:
			return "kind=waited-for-slower-nodes layer=node-connection", fmt.Sprintf("a healthy node was configured (%s), yet the call had not returned after %s", cs.Topology, c19netBound), ""
		case returned && hasHealthy && !cs.Cancel && callErr != nil && cs.Call != "submit" && cs.Topology == "refused|healthy":
			return "kind=failed-although-a-fallback-succeeded layer=node-connection", fmt.Sprintf("the only primary refuses connections (unreachable) and a healthy fallback was configured, the call failed: %v", callErr), ""
		case returned && hasHealthy && !cs.Cancel && callErr != nil && cs.Call != "submit":
			return "kind=failed-although-a-primary-succeeded layer=node-connection", fmt.Sprintf("a healthy primary was configured (%s), the call failed: %v", cs.Topology, callErr), ""
		}
		return "", "", ""
	}
	if r.ReplayPath != "" {
		return
	}
	// which of the calls the healthy node alone answers successfully (the clause "succeeds whenever a primary answers
	// successfully" is only judged for those)
	succeedsAlone := map[string]bool{}
	for _, call := range []string{"provide", "submit", "proxy"} {
		ret, err, problem := c19netRun(t, c19netCase{"healthy", call, false, false, ""}, healthy)
		succeedsAlone[call] = problem == "" && ret && err == nil
		if !succeedsAlone[call] {
			r.Note(fmt.Sprintf("part C: the beacon mock alone does not answer the %s-style call successfully (%v): topologies with a healthy node are not judged for it", call, err))
		}
	}
	for _, topo := range []string{"hung", "hung,hung", "hung|hung", "hung,healthy", "healthy,hung"} {
		for _, call := range []string{"provide", "submit", "proxy"} {
			if strings.Contains(topo, "healthy") && !succeedsAlone[call] {
				continue
			}
			for _, second := range []bool{false, true} {
				for _, cancel := range []bool{true, false} {
					if !cancel && !strings.Contains(topo, "healthy") {
						continue // nobody can answer and nobody cancels: the call legitimately waits for the node timeout
					}
					cs := c19netCase{topo, call, second, cancel, ""}
					sig, desc, problem := judge(cs)
					if problem != "" {
						r.Note("part C: " + problem)
						continue
					}
					r.Eval("net:" + topo + ":" + call)
					r.Steps(1)
					r.Count("part_c_real_network_scripts", 1)
					if sig == "" {
						continue
					}
					// confirm twice more
					ok := true
					for k := 0; k < 2; k++ {
						s2, _, p2 := judge(cs)
						ok = ok && p2 == "" && s2 == sig
					}
					if !ok {
						r.Unconfirmed(sig)
						continue
					}
					r.Violation(sig+" call="+call, desc+" ["+cs.String()+"]", cs)
					// every further violating script costs the full bound three times over: one confirmed counterexample is enough
					r.NotExhaustive("part C stopped after its first confirmed violation")
					return
				}
			}
		}
	}
	// derived objects and the refused primary
	var more []c19netCase
	for _, call := range []string{"provide", "submit", "proxy"} {
		for _, second := range []bool{false, true} {
			for _, cancel := range []bool{true, false} {
				more = append(more, c19netCase{"hung,healthy", call, second, cancel, "healthy"})
				more = append(more, c19netCase{"refused|healthy", call, second, cancel, ""})
			}
		}
		more = append(more, c19netCase{"hung,healthy", call, true, true, "hung"})
	}
	for _, cs := range more {
		if !succeedsAlone[cs.Call] {
			continue
		}
		sig, desc, problem := judge(cs)
		if problem != "" {
			r.Note("part C: " + problem)
			continue
		}
		r.Eval("net:" + cs.Topology + ":" + cs.Call + ":cfa=" + cs.Scope)
		r.Steps(1)
		r.Count("part_c_real_network_scripts", 1)
		if cs.Scope != "" {
			r.Count("part_c_scripts_on_client_for_address", 1)
		} else {
			r.Count("part_c_scripts_with_refused_primary", 1)
		}
		if sig == "" {
			continue
		}
		ok := true
		for k := 0; k < 2; k++ {
			s2, _, p2 := judge(cs)
			ok = ok && p2 == "" && s2 == sig
		}
		if !ok {
			r.Unconfirmed(sig)
			continue
		}
		if cs.Scope != "" {
			sig += " object=cfa(" + cs.Scope + ")"
		}
		r.Violation(sig+" call="+cs.Call, desc+" ["+cs.String()+"]", cs)
		r.NotExhaustive("part C stopped after its first confirmed violation")
		return
	}
}
