package eth2wrap

// C19 – beacon API calls through the multi-node client succeed whenever one configured node answers.
// Engine timex: complete product of per-node outcomes x latencies x caller cancellation instants, executed
// on the real Instrument()/provide()/submit() code in virtual time (DESIGN.md §5 C19).

import (
	"context"
	"fmt"
	"io"
	"net"
	"net/http"
	"os"
	"strings"
	"syscall"
	"testing"
	"testing/synctest"
	"time"

	eth2api "github.com/attestantio/go-eth2-client/api"
	eth2p0 "github.com/attestantio/go-eth2-client/spec/phase0"

	"github.com/obolnetwork/charon/app/errors"
	"github.com/obolnetwork/charon/zzverif/enumx"
)

const c19q = 10 * time.Millisecond // time quantum

type c19outcome struct {
	Name  string
	Class string // "ok", "generic", "unavail", "hang", "nok" (ok response rejected by isSuccessFunc)
	mk    func() error
}

func c19outcomes(all bool) []c19outcome {
	o := []c19outcome{
		{"ok", "ok", nil},
		{"generic", "generic", func() error { return errors.New("some validation failure") }},
		{"timeout:http-request-timeout", "unavail", func() error { return errors.New("http request timeout") }},
		{"syncing", "unavail", func() error { return errors.New("beacon node is syncing") }},
		{"badgw:econnrefused", "unavail", func() error { return errors.Wrap(syscall.ECONNREFUSED, "dial") }},
		{"hang", "hang", nil},
	}
	if all {
		o = append(o,
			c19outcome{"timeout:deadline-exceeded", "unavail", func() error { return errors.Wrap(context.DeadlineExceeded, "request") }},
			c19outcome{"timeout:client-not-active", "unavail", func() error { return errors.New("client is not active") }},
			c19outcome{"syncing:HeadBlockNotFullyVerified", "unavail", func() error { return errors.New("HeadBlockNotFullyVerified") }},
			c19outcome{"badgw:502", "unavail", func() error { return &eth2api.Error{StatusCode: http.StatusBadGateway} }},
			c19outcome{"badgw:503", "unavail", func() error { return &eth2api.Error{StatusCode: http.StatusServiceUnavailable} }},
			c19outcome{"badgw:504", "unavail", func() error { return &eth2api.Error{StatusCode: http.StatusGatewayTimeout} }},
			c19outcome{"badgw:neterror", "unavail", func() error { return &net.OpError{Op: "dial", Err: errors.New("no route")} }},
			c19outcome{"badgw:econnreset", "unavail", func() error { return errors.Wrap(syscall.ECONNRESET, "read") }},
			c19outcome{"badgw:ehostunreach", "unavail", func() error { return errors.Wrap(syscall.EHOSTUNREACH, "dial") }},
			c19outcome{"badgw:abort-handler", "unavail", func() error { return errors.Wrap(http.ErrAbortHandler, "proxy") }},
			c19outcome{"generic:400", "generic", func() error { return &eth2api.Error{StatusCode: http.StatusBadRequest} }},
			c19outcome{"generic:500", "generic", func() error { return &eth2api.Error{StatusCode: http.StatusInternalServerError} }},
		)
	}
	return o
}

type c19node struct {
	Client // nil: any other method panics (harness error)
	id     int
	out    c19outcome
	lat    time.Duration
	t0     time.Time
	called bool
	tCall  time.Duration
	// (proxy calls) the node was handed a request that is not the caller's
	bodyBad bool
}

func (n *c19node) Address() string { return fmt.Sprintf("node%d", n.id) }

func (n *c19node) do(ctx context.Context) error {
	n.called, n.tCall = true, time.Since(n.t0)
	if n.out.Class == "hang" {
		<-ctx.Done()
		return ctx.Err()
	}
	select {
	case <-time.After(n.lat):
	case <-ctx.Done():
		return ctx.Err()
	}
	if n.out.mk != nil {
		return n.out.mk()
	}
	return nil
}

func (n *c19node) AttestationData(ctx context.Context, _ *eth2api.AttestationDataOpts) (*eth2api.Response[*eth2p0.AttestationData], error) {
	if err := n.do(ctx); err != nil {
		return nil, err
	}
	return &eth2api.Response[*eth2p0.AttestationData]{Data: &eth2p0.AttestationData{Slot: eth2p0.Slot(100 + n.id)}}, nil
}

func (n *c19node) SubmitAttestations(ctx context.Context, _ *eth2api.SubmitAttestationsOpts) error {
	return n.do(ctx)
}

const c19body = `{"request":"body that every consulted node must receive unaltered"}`

// Proxy: the node reads the request it is handed; a node that receives anything but the caller's request refuses it.
func (n *c19node) Proxy(ctx context.Context, req *http.Request) (*http.Response, error) {
	var got []byte
	if req.Body != nil {
		got, _ = io.ReadAll(req.Body)
	}
	n.bodyBad = string(got) != c19body || req.Method != http.MethodPost
	if err := n.do(ctx); err != nil {
		return nil, err
	}
	if n.bodyBad {
		return nil, errors.New("bad request: the request body is not the caller's")
	}
	return &http.Response{StatusCode: http.StatusOK, Header: http.Header{"X-Node": []string{fmt.Sprint(n.id)}}, Body: http.NoBody}, nil
}

type c19case struct {
	Kind     string   `json:"kind"` // "provide", "submit"
	Prim     []string `json:"primaries"`
	PrimLat  []int    `json:"primary_latencies"`
	Fall     []string `json:"fallbacks"`
	FallLat  []int    `json:"fallback_latencies"`
	CancelAt int      `json:"cancel_at_half_quanta"` // 0 = never; else cancel at (k - 0.5) quanta... see below
	All      bool     `json:"all_forms"`
	// history: calls made on the SAME client object before the judged one (the multi client lives as long as the process
	// and keeps state between calls, e.g. its best-node selector); each runs to completion under its own 50-quanta deadline
	Prefix []c19pre `json:"prefix,omitempty"`
}

type c19pre struct {
	Kind string   `json:"kind"`
	Prim []string `json:"primaries"`
	Fall []string `json:"fallbacks"`
	Rep  int      `json:"repeat"`
}

func (c c19case) String() string {
	s := fmt.Sprintf("%s P=%v@%v F=%v@%v cancel=%d", c.Kind, c.Prim, c.PrimLat, c.Fall, c.FallLat, c.CancelAt)
	if len(c.Prefix) > 0 {
		s += fmt.Sprintf(" after=%v", c.Prefix)
	}
	return s
}

type c19obs struct {
	returned   bool
	tRet       time.Duration
	err        error
	value      int
	calledP    []bool
	calledF    []bool
	alteredReq []int // nodes that were handed an altered request
	tCallF     []time.Duration
}

const c19horizon = 1000 * c19q

func c19find(all bool, name string) c19outcome {
	for _, o := range c19outcomes(all) {
		if o.Name == name {
			return o
		}
	}
	panic("unknown outcome " + name)
}

func c19run(t *testing.T, cs c19case) (obs c19obs) {
	synctest.Test(t, func(t *testing.T) {
		t0 := time.Now()
		mk := func(names []string, lats []int, base int) ([]Client, []*c19node) {
			var cl []Client
			var ns []*c19node
			for i, nm := range names {
				n := &c19node{id: base + i, out: c19find(cs.All, nm), lat: time.Duration(lats[i]) * c19q, t0: t0}
				ns = append(ns, n)
				cl = append(cl, n)
			}
			return cl, ns
		}
		pc, pn := mk(cs.Prim, cs.PrimLat, 0)
		fc, fn := mk(cs.Fall, cs.FallLat, 10)
		cl, err := Instrument(pc, fc)
		if err != nil {
			t.Fatalf("instrument: %v", err)
		}
		for _, pre := range cs.Prefix {
			for k := 0; k < pre.Rep; k++ {
				for i, n := range pn {
					n.out, n.lat, n.t0 = c19find(cs.All, pre.Prim[i]), time.Duration(i+1)*c19q, time.Now()
				}
				for i, n := range fn {
					n.out, n.lat, n.t0 = c19find(cs.All, pre.Fall[i]), time.Duration(i+1)*c19q, time.Now()
				}
				pctx, pcancel := context.WithTimeout(context.Background(), 50*c19q)
				if pre.Kind == "submit" {
					_ = cl.SubmitAttestations(pctx, &eth2api.SubmitAttestationsOpts{})
				} else {
					_, _ = cl.AttestationData(pctx, &eth2api.AttestationDataOpts{})
				}
				pcancel()
				synctest.Wait()
				_ = cl.Address() // the only reader of the selector state
			}
		}
		if len(cs.Prefix) > 0 {
			time.Sleep(3 * c19q)
			t0 = time.Now()
			for i, n := range pn {
				n.out, n.lat, n.t0, n.called, n.tCall, n.bodyBad = c19find(cs.All, cs.Prim[i]), time.Duration(cs.PrimLat[i])*c19q, t0, false, 0, false
			}
			for i, n := range fn {
				n.out, n.lat, n.t0, n.called, n.tCall, n.bodyBad = c19find(cs.All, cs.Fall[i]), time.Duration(cs.FallLat[i])*c19q, t0, false, 0, false
			}
		}
		ctx, cancel := context.WithCancel(context.Background())
		cancelAt := c19horizon
		if cs.CancelAt > 0 {
			cancelAt = time.Duration(cs.CancelAt)*c19q - c19q/2 // between two quanta: never simultaneous with a node answer
		}
		stop := make(chan struct{})
		go func() {
			select {
			case <-time.After(cancelAt):
				cancel()
			case <-stop:
			}
		}()
		done := make(chan struct{})
		go func() {
			defer close(done)
			switch cs.Kind {
			case "provide":
				res, err := cl.AttestationData(ctx, &eth2api.AttestationDataOpts{})
				obs.err = err
				if err == nil && res != nil && res.Data != nil {
					obs.value = int(res.Data.Slot) - 100
				} else if err == nil {
					obs.value = -1
				}
			case "submit":
				obs.err = cl.SubmitAttestations(ctx, &eth2api.SubmitAttestationsOpts{})
			case "proxy":
				req, rerr := http.NewRequestWithContext(ctx, http.MethodPost, "http://beacon.invalid/eth/v1/anything", strings.NewReader(c19body))
				if rerr != nil {
					obs.err = rerr
					break
				}
				res, err := cl.Proxy(ctx, req)
				obs.err = err
				if err == nil && res != nil {
					obs.value = -1
					fmt.Sscan(res.Header.Get("X-Node"), &obs.value)
				} else if err == nil {
					obs.value = -1
				}
			}
			obs.returned, obs.tRet = true, time.Since(t0)
		}()
		// let virtual time run until the call returns or well past the horizon
		select {
		case <-done:
		case <-time.After(2 * c19horizon):
		}
		cancel()
		close(stop)
		synctest.Wait()
		for _, n := range pn {
			obs.calledP = append(obs.calledP, n.called)
			if n.called && n.bodyBad && cs.Kind == "proxy" {
				obs.alteredReq = append(obs.alteredReq, n.id)
			}
		}
		for _, n := range fn {
			obs.calledF = append(obs.calledF, n.called)
			obs.tCallF = append(obs.tCallF, n.tCall)
			if n.called && n.bodyBad && cs.Kind == "proxy" {
				obs.alteredReq = append(obs.alteredReq, n.id)
			}
		}
		if !obs.returned {
			<-done
		}
	})
	return obs
}

// c19check is the oracle: the statement of C19 evaluated in exact virtual time.
func c19check(cs c19case, o c19obs) (sigs, descs []string) {
	bad := func(sig, f string, a ...any) {
		sigs = append(sigs, sig)
		descs = append(descs, fmt.Sprintf(f, a...))
	}
	if len(o.alteredReq) > 0 {
		bad("kind=node-consulted-with-altered-request", "nodes %v were handed a request whose body is not the caller's", o.alteredReq)
	}
	cancelAt := c19horizon
	if cs.CancelAt > 0 {
		cancelAt = time.Duration(cs.CancelAt)*c19q - c19q/2
	}
	type nd struct {
		class string
		lat   time.Duration
	}
	get := func(names []string, lats []int) []nd {
		var l []nd
		for i, nm := range names {
			l = append(l, nd{c19find(cs.All, nm).Class, time.Duration(lats[i]) * c19q})
		}
		return l
	}
	prim, fall := get(cs.Prim, cs.PrimLat), get(cs.Fall, cs.FallLat)
	// stage evaluation: (earliest success, instant all have failed or never, failure classes)
	stage := func(ns []nd, start time.Duration) (okAt time.Duration, hasOK bool, allFailAt time.Duration, allFail bool, nUnavail, nGeneric int) {
		allFail = true
		for _, n := range ns {
			switch n.class {
			case "ok":
				allFail = false
				if !hasOK || start+n.lat < okAt {
					okAt, hasOK = start+n.lat, true
				}
			case "hang":
				allFail = false
			case "unavail":
				nUnavail++
			default:
				nGeneric++
			}
			if n.class != "ok" && n.class != "hang" && start+n.lat > allFailAt {
				allFailAt = start + n.lat
			}
		}
		return
	}
	if !o.returned {
		bad("kind=call-never-returned", "the call did not return although the caller's context was cancelled at %s", cancelAt)
		return
	}
	for i, c := range o.calledP {
		if !c {
			bad("kind=primary-not-consulted", "primary %d was never called", i)
		}
	}
	anyFallCalled := false
	for _, c := range o.calledF {
		anyFallCalled = anyFallCalled || c
	}
	pOK, pHasOK, pFailAt, pAllFail, pUn, pGen := stage(prim, 0)
	expectCancel := func(what string) {
		if o.err == nil {
			bad("kind=success-after-cancel", "%s: the call returned success at %s although it was cancelled at %s before any node could answer", what, o.tRet, cancelAt)
		}
		if o.tRet != cancelAt {
			bad("kind=cancel-not-prompt", "%s: caller cancelled at %s but the call returned at %s", what, cancelAt, o.tRet)
		}
	}
	switch {
	case pHasOK && pOK < cancelAt:
		// success iff some primary succeeds; earliest success wins; no waiting for slower/hung nodes
		if o.err != nil {
			bad("kind=failed-although-a-primary-succeeded", "a primary answered successfully at %s but the call failed: %v", pOK, o.err)
		} else {
			if cs.Kind == "provide" && (o.value < 0 || o.value >= len(prim) || prim[o.value].class != "ok") {
				bad("kind=answer-not-from-a-succeeding-node", "returned value id %d is not the answer of a succeeding primary", o.value)
			}
			if o.tRet != pOK {
				bad("kind=waited-for-slower-nodes", "earliest successful primary answered at %s but the call returned at %s", pOK, o.tRet)
			}
		}
		if anyFallCalled {
			bad("kind=fallback-consulted-despite-primary-success", "fallback nodes were called although a primary succeeded")
		}
	case !pAllFail || pFailAt > cancelAt:
		// a primary hangs or is still pending when the caller cancels
		expectCancel("primaries pending")
	default:
		// all primaries failed at pFailAt (< cancelAt)
		mustFallback := len(fall) > 0 && pUn > 0 && pGen == 0
		mayFallback := len(fall) > 0 && pUn > 0
		if anyFallCalled && !mayFallback {
			bad("kind=fallback-consulted-without-unavailability", "all primaries failed with non-availability errors but fallback nodes were called")
		}
		if !anyFallCalled && mustFallback {
			bad("kind=fallback-not-consulted", "all primaries failed with unavailability-class errors (%v) but no fallback node was called", cs.Prim)
		}
		if !anyFallCalled {
			if o.err == nil {
				bad("kind=success-without-any-success", "all primaries failed, no fallback consulted, but the call returned success")
			}
			if o.tRet != pFailAt {
				bad("kind=failure-not-prompt", "all primaries had failed at %s but the call returned at %s", pFailAt, o.tRet)
			}
			return
		}
		for i, c := range o.calledF {
			if !c {
				bad("kind=fallback-partially-consulted", "fallback %d was not called although fallbacks were consulted", i)
			} else if o.tCallF[i] != pFailAt {
				bad("kind=fallback-not-prompt", "fallback %d called at %s, primaries had all failed at %s", i, o.tCallF[i], pFailAt)
			}
		}
		fOK, fHasOK, fFailAt, fAllFail, _, _ := stage(fall, pFailAt)
		switch {
		case fHasOK && fOK < cancelAt:
			if o.err != nil {
				bad("kind=failed-although-a-fallback-succeeded", "a fallback answered successfully at %s but the call failed: %v", fOK, o.err)
			} else {
				if cs.Kind == "provide" && (o.value < 10 || o.value-10 >= len(fall) || fall[o.value-10].class != "ok") {
					bad("kind=answer-not-from-a-succeeding-node", "returned value id %d is not the answer of a succeeding fallback", o.value)
				}
				if o.tRet != fOK {
					bad("kind=waited-for-slower-nodes", "earliest successful fallback answered at %s but the call returned at %s", fOK, o.tRet)
				}
			}
		case !fAllFail || fFailAt > cancelAt:
			expectCancel("fallbacks pending")
		default:
			if o.err == nil {
				bad("kind=success-without-any-success", "all nodes failed but the call returned success")
			}
			if o.tRet != fFailAt {
				bad("kind=failure-not-prompt", "all fallbacks had failed at %s but the call returned at %s", fFailAt, o.tRet)
			}
		}
	}
	return
}

// VerifC19PartC is set by the external test package (zz_verif_c19_net_test.go).
var VerifC19PartC func(t *testing.T, r *enumx.Run)

func c19perms(n int) [][]int {
	var out [][]int
	var rec func(cur []int, used int)
	rec = func(cur []int, used int) {
		if len(cur) == n {
			out = append(out, append([]int(nil), cur...))
			return
		}
		for i := 1; i <= n; i++ {
			if used&(1<<i) == 0 {
				rec(append(cur, i), used|1<<i)
			}
		}
	}
	rec(nil, 0)
	return out
}

func TestVerifC19(t *testing.T) {
	r := enumx.New(t, "C19")
	defer r.Finish()
	judge := func(cs c19case) {
		o := c19run(t, cs)
		sigs, descs := c19check(cs, o)
		cls := fmt.Sprintf("%s:P%d:F%d:ret=%v:err=%v", cs.Kind, len(cs.Prim), len(cs.Fall), o.returned, o.err != nil)
		r.Eval(cls)
		r.Steps(1)
		r.Outcome(cls)
		if o.err == nil {
			r.Count("calls_succeeded", 1)
		} else {
			r.Count("calls_failed", 1)
		}
		for _, c := range o.calledF {
			if c {
				r.Count("fallback_calls", 1)
			}
		}
		for i, sig := range sigs {
			ok := true
			for k := 0; k < 3; k++ {
				s2, _ := c19check(cs, c19run(t, cs))
				if !strings.Contains(strings.Join(s2, "|"), sig) {
					ok = false
				}
			}
			if !ok {
				r.Unconfirmed(sig)
				continue
			}
			r.Violation(sig+" call="+cs.Kind, fmt.Sprintf("%s [%s] observed: returned=%v at %s err=%v value=%d fallbacks-called=%v", descs[i], cs, o.returned, o.tRet, o.err, o.value, o.calledF), cs)
		}
	}
	if r.ReplayPath != "" {
		if c19dReplay(t, r) { // a case of the derived-objects dimension (zz_verif_c19_derived_test.go)
			return
		}
		var cs c19case
		if err := r.ReplayCase(&cs); err != nil {
			t.Fatal(err)
		}
		o := c19run(t, cs)
		fmt.Printf("replay %s -> %+v\n", cs, o)
		judge(cs)
		return
	}
	th := enumx.Thorough()
	// development aid: VERIF_C19_ONLY=derived runs the derived-objects dimension alone (the run is then marked as not exhaustive)
	if os.Getenv("VERIF_C19_ONLY") == "derived" {
		r.NotExhaustive("restricted to the derived-objects dimension by VERIF_C19_ONLY")
		c19derived(t, r)
		return
	}
	maxP, maxF := 3, 2 // (more fallbacks than primaries matters: worker counts, sequential processing)
	if th {
		maxP, maxF = 3, 2
	}
	var sampled int
	for _, allForms := range []bool{false, true} {
		outs := c19outcomes(allForms)
		p, f := maxP, maxF
		if allForms {
			p, f = 2, 1 // every concrete error form, smaller topology
		}
		for np := 1; np <= p; np++ {
			for nf := 0; nf <= f; nf++ {
				// outcome vectors
				idx := make([]int, np+nf)
				for {
					if r.Mine() {
						if r.Expired() {
							return
						}
						var pn, fn []string
						for i := 0; i < np; i++ {
							pn = append(pn, outs[idx[i]].Name)
						}
						for i := 0; i < nf; i++ {
							fn = append(fn, outs[idx[np+i]].Name)
						}
						for _, pl := range c19perms(np) {
							fperms := c19perms(nf)
							for _, fl := range fperms {
								for _, kind := range []string{"provide", "submit", "proxy"} {
									for cancel := 0; cancel <= np+nf+1; cancel++ {
										cs := c19case{Kind: kind, Prim: pn, PrimLat: pl, Fall: fn, FallLat: fl, CancelAt: cancel, All: allForms}
										judge(cs)
										if sampled < 3 && np == p && nf == f && cancel == 0 {
											sampled++
											r.Sample(cs.String())
										}
									}
								}
							}
						}
					}
					j := 0
					for j < len(idx) {
						idx[j]++
						if idx[j] < len(outs) {
							break
						}
						idx[j] = 0
						j++
					}
					if j == len(idx) {
						break
					}
				}
			}
		}
	}
	// History dimension: the judged call is made on a client object that has already served other calls. Every prefix of one
	// earlier call (thorough: also two) with every outcome vector over {ok, generic, syncing, hang}, once and three times in a
	// row (so that the selector has a clear favourite), followed by every judged script over the six outcome classes, every
	// latency order, no cancel / cancel before the first answer. The oracle is the same statement evaluated on the judged call.
	// part C (real network, one shard): see zz_verif_c19_net_test.go
	if r.Mine() && VerifC19PartC != nil {
		VerifC19PartC(t, r)
	}
	preOuts := []string{"ok", "generic", "syncing", "hang"}
	outs := c19outcomes(false)
	type topo struct{ p, f int }
	topos := []topo{{2, 1}, {1, 1}, {2, 0}}
	if th {
		topos = append(topos, topo{3, 1}, topo{1, 2})
	}
	for _, tp := range topos {
		nn := tp.p + tp.f
		pidx := make([]int, nn)
		for {
			if r.Mine() {
				var pp, pf []string
				for i := 0; i < tp.p; i++ {
					pp = append(pp, preOuts[pidx[i]])
				}
				for i := 0; i < tp.f; i++ {
					pf = append(pf, preOuts[pidx[tp.p+i]])
				}
				for _, rep := range []int{1, 3} {
					for _, pkind := range []string{"provide", "submit"} {
						if pkind == "submit" && rep == 3 && !th {
							continue
						}
						idx := make([]int, nn)
						for {
							if r.Expired() {
								return
							}
							var pn, fn []string
							for i := 0; i < tp.p; i++ {
								pn = append(pn, outs[idx[i]].Name)
							}
							for i := 0; i < tp.f; i++ {
								fn = append(fn, outs[idx[tp.p+i]].Name)
							}
							for _, pl := range c19perms(tp.p) {
								for _, fl := range c19perms(tp.f) {
									for _, kind := range []string{"provide", "submit"} {
										for _, cancel := range []int{0, 1} {
											cs := c19case{Kind: kind, Prim: pn, PrimLat: pl, Fall: fn, FallLat: fl, CancelAt: cancel,
												Prefix: []c19pre{{Kind: pkind, Prim: pp, Fall: pf, Rep: rep}}}
											judge(cs)
											r.Count("judged_calls_with_history", 1)
										}
									}
								}
							}
							j := 0
							for j < nn {
								idx[j]++
								if idx[j] < len(outs) {
									break
								}
								idx[j] = 0
								j++
							}
							if j == nn {
								break
							}
						}
					}
				}
			}
			j := 0
			for j < nn {
				pidx[j]++
				if pidx[j] < len(preOuts) {
					break
				}
				pidx[j] = 0
				j++
			}
			if j == nn {
				break
			}
		}
	}
	// DERIVED OBJECTS dimension: the same product on every object derived from the constructed client, on every endpoint of the
	// interface and after the client's setters (zz_verif_c19_derived_test.go)
	c19derived(t, r)
}
