package eth2wrap

// C20 – duties cache answers exactly what the beacon node would answer.
// Part 1 (statex): breadth-first search over request/reorg/trim sequences on the real DutiesCache, states =
// canonical dumps of the cache's private maps. Part 2 (schedx): concurrent callers and a reorg invalidation,
// scheduling points at the cache's locks and inside the beacon-node stub (DESIGN.md §5 C20).

import (
	"errors"
	"context"
	"fmt"
	"os"
	"reflect"
	"sort"
	"strings"
	"testing"
	"time"
	"unsafe"

	eth2api "github.com/attestantio/go-eth2-client/api"
	eth2v1 "github.com/attestantio/go-eth2-client/api/v1"
	eth2p0 "github.com/attestantio/go-eth2-client/spec/phase0"

	"github.com/obolnetwork/charon/zzverif/enumx"
	"github.com/obolnetwork/charon/zzverif/schedx"
)

// ---- beacon node stub with a versioned assignment table -------------------------------------------------------

type c20call struct {
	kind  string
	epoch eth2p0.Epoch
	idxs  []eth2p0.ValidatorIndex
	ver   int
}

type c20bn struct {
	Client
	ver   map[eth2p0.Epoch]int
	calls []c20call
	hook  func() // scheduling point inside a call (Part 2)
	fail  int    // 1: requests fail with an error; 2: requests are answered with an empty response object
}

var c20errBN = errors.New("beacon node unavailable (scripted)")

func (b *c20bn) Address() string { return "stub" }

func c20pub(i eth2p0.ValidatorIndex) (p eth2p0.BLSPubKey) {
	p[0] = byte(i)
	return p
}

func (b *c20bn) att(epoch eth2p0.Epoch, idxs []eth2p0.ValidatorIndex, ver int) []*eth2v1.AttesterDuty {
	var out []*eth2v1.AttesterDuty
	for _, i := range idxs {
		if i == 3 && epoch == 5 {
			continue // validator 3 has no attester duty in epoch 5
		}
		out = append(out, &eth2v1.AttesterDuty{PubKey: c20pub(i), Slot: eth2p0.Slot(uint64(epoch)*32 + uint64(i) + 3*uint64(ver)), ValidatorIndex: i,
			CommitteeIndex: eth2p0.CommitteeIndex(i), CommitteeLength: 8, CommitteesAtSlot: 4, ValidatorCommitteeIndex: uint64(ver)})
	}
	return out
}

func (b *c20bn) pro(epoch eth2p0.Epoch, idxs []eth2p0.ValidatorIndex, ver int) []*eth2v1.ProposerDuty {
	var out []*eth2v1.ProposerDuty
	for _, i := range idxs {
		switch i {
		case 1: // two proposals in the epoch
			out = append(out, &eth2v1.ProposerDuty{PubKey: c20pub(i), Slot: eth2p0.Slot(uint64(epoch)*32 + 1 + uint64(ver)), ValidatorIndex: i},
				&eth2v1.ProposerDuty{PubKey: c20pub(i), Slot: eth2p0.Slot(uint64(epoch)*32 + 17 + uint64(ver)), ValidatorIndex: i})
		case 2:
			out = append(out, &eth2v1.ProposerDuty{PubKey: c20pub(i), Slot: eth2p0.Slot(uint64(epoch)*32 + 5 + uint64(ver)), ValidatorIndex: i})
		}
	}
	return out
}

func (b *c20bn) syn(epoch eth2p0.Epoch, idxs []eth2p0.ValidatorIndex, ver int) []*eth2v1.SyncCommitteeDuty {
	var out []*eth2v1.SyncCommitteeDuty
	for _, i := range idxs {
		if i == 3 {
			continue
		}
		out = append(out, &eth2v1.SyncCommitteeDuty{PubKey: c20pub(i), ValidatorIndex: i,
			ValidatorSyncCommitteeIndices: []eth2p0.CommitteeIndex{eth2p0.CommitteeIndex(i), eth2p0.CommitteeIndex(uint64(i) + 10 + uint64(ver))}})
	}
	return out
}

func (b *c20bn) meta(epoch eth2p0.Epoch, ver int) map[string]any {
	return map[string]any{"dependent_root": fmt.Sprintf("root-%d-v%d", epoch, ver)}
}

func (b *c20bn) enter(kind string, epoch eth2p0.Epoch, idxs []eth2p0.ValidatorIndex) int {
	if b.hook != nil {
		b.hook()
	}
	v := b.ver[epoch]
	b.calls = append(b.calls, c20call{kind, epoch, append([]eth2p0.ValidatorIndex(nil), idxs...), v})
	return v
}

func (b *c20bn) AttesterDuties(_ context.Context, o *eth2api.AttesterDutiesOpts) (*eth2api.Response[[]*eth2v1.AttesterDuty], error) {
	v := b.enter("att", o.Epoch, o.Indices)
	if b.fail == 1 {
		return nil, c20errBN
	} else if b.fail == 2 {
		return &eth2api.Response[[]*eth2v1.AttesterDuty]{}, nil
	}
	return &eth2api.Response[[]*eth2v1.AttesterDuty]{Data: b.att(o.Epoch, o.Indices, v), Metadata: b.meta(o.Epoch, v)}, nil
}

func (b *c20bn) ProposerDuties(_ context.Context, o *eth2api.ProposerDutiesOpts) (*eth2api.Response[[]*eth2v1.ProposerDuty], error) {
	v := b.enter("pro", o.Epoch, o.Indices)
	if b.fail == 1 {
		return nil, c20errBN
	} else if b.fail == 2 {
		return &eth2api.Response[[]*eth2v1.ProposerDuty]{}, nil
	}
	return &eth2api.Response[[]*eth2v1.ProposerDuty]{Data: b.pro(o.Epoch, o.Indices, v), Metadata: b.meta(o.Epoch, v)}, nil
}

func (b *c20bn) SyncCommitteeDuties(_ context.Context, o *eth2api.SyncCommitteeDutiesOpts) (*eth2api.Response[[]*eth2v1.SyncCommitteeDuty], error) {
	v := b.enter("syn", o.Epoch, o.Indices)
	if b.fail == 1 {
		return nil, c20errBN
	} else if b.fail == 2 {
		return &eth2api.Response[[]*eth2v1.SyncCommitteeDuty]{}, nil
	}
	return &eth2api.Response[[]*eth2v1.SyncCommitteeDuty]{Data: b.syn(o.Epoch, o.Indices, v), Metadata: b.meta(o.Epoch, v)}, nil
}

// ---- canonical rendering of answers ---------------------------------------------------------------------------------

func c20render(duties any) []string {
	var out []string
	rv := reflect.ValueOf(duties)
	for i := 0; i < rv.Len(); i++ {
		e := rv.Index(i)
		if e.Kind() == reflect.Pointer {
			if e.IsNil() {
				out = append(out, "<nil>")
				continue
			}
			e = e.Elem()
		}
		out = append(out, fmt.Sprintf("%+v", e.Interface()))
	}
	sort.Strings(out)
	return out
}

func (b *c20bn) direct(kind string, epoch eth2p0.Epoch, idxs []eth2p0.ValidatorIndex, ver int) (duties []string, meta string) {
	switch kind {
	case "att":
		duties = c20render(b.att(epoch, idxs, ver))
	case "pro":
		duties = c20render(b.pro(epoch, idxs, ver))
	default:
		duties = c20render(b.syn(epoch, idxs, ver))
	}
	return duties, fmt.Sprint(b.meta(epoch, ver))
}

// ---- alias walker: every pointer / slice backing array / map reachable from a value -------------------------------------

func c20addrs(v any) map[uintptr]string {
	out := map[uintptr]string{}
	var walk func(rv reflect.Value, path string)
	walk = func(rv reflect.Value, path string) {
		switch rv.Kind() {
		case reflect.Pointer:
			if !rv.IsNil() {
				out[rv.Pointer()] = path
				walk(rv.Elem(), path+"*")
			}
		case reflect.Slice:
			if rv.Len() > 0 {
				out[rv.Pointer()] = path + "[]"
				for i := 0; i < rv.Len(); i++ {
					walk(rv.Index(i), fmt.Sprintf("%s[%d]", path, i))
				}
			}
		case reflect.Map:
			if !rv.IsNil() {
				out[rv.Pointer()] = path + "{}"
			}
		case reflect.Struct:
			for i := 0; i < rv.NumField(); i++ {
				walk(rv.Field(i), path+"."+rv.Type().Field(i).Name)
			}
		case reflect.Interface:
			if !rv.IsNil() {
				walk(rv.Elem(), path)
			}
		}
	}
	walk(reflect.ValueOf(v), "")
	return out
}

// c20scribble overwrites every mutable leaf reachable from a returned result.
func c20scribble(v any) {
	var walk func(rv reflect.Value)
	walk = func(rv reflect.Value) {
		switch rv.Kind() {
		case reflect.Pointer:
			if !rv.IsNil() {
				walk(rv.Elem())
			}
		case reflect.Slice, reflect.Array:
			for i := 0; i < rv.Len(); i++ {
				walk(rv.Index(i))
			}
		case reflect.Struct:
			for i := 0; i < rv.NumField(); i++ {
				walk(rv.Field(i))
			}
		case reflect.Map:
			if !rv.IsNil() && rv.Type().Key().Kind() == reflect.String {
				rv.SetMapIndex(reflect.ValueOf("scribbled"), reflect.Zero(rv.Type().Elem()))
				for _, k := range rv.MapKeys() {
					if rv.Type().Elem().Kind() == reflect.Interface {
						rv.SetMapIndex(k, reflect.ValueOf("scribbled"))
					}
				}
			}
		case reflect.Uint8, reflect.Uint64, reflect.Uint32, reflect.Uint16, reflect.Uint:
			if rv.CanSet() {
				rv.SetUint(0xEE)
			}
		}
	}
	walk(reflect.ValueOf(v))
}

// ---- one world: real cache + stub -----------------------------------------------------------------------------------------

type c20op struct {
	Kind  string `json:"kind"` // att / pro / syn / reorg / trim
	Epoch uint64 `json:"epoch"`
	Idxs  []int  `json:"idxs,omitempty"`
	// beacon-node fault during this request: 1 = every beacon-node call fails, 2 = it answers with an empty response object
	Fail int `json:"bn_fault,omitempty"`
}

func (o c20op) String() string {
	if o.Fail > 0 {
		return fmt.Sprintf("%s(%d,%v,bn-fault%d)", o.Kind, o.Epoch, o.Idxs, o.Fail)
	}
	if o.Kind == "reorg" || o.Kind == "trim" {
		return fmt.Sprintf("%s(%d)", o.Kind, o.Epoch)
	}
	return fmt.Sprintf("%s(%d,%v)", o.Kind, o.Epoch, o.Idxs)
}

type c20world struct {
	bn        *c20bn
	cache     *DutiesCache
	mustFetch map[string]bool // kind/epoch that must be fetched afresh on the next request
	prev      []any           // earlier results, already scribbled on
}

func c20new() *c20world {
	bn := &c20bn{ver: map[eth2p0.Epoch]int{}}
	return &c20world{bn: bn, cache: NewDutiesCache(bn, []eth2p0.ValidatorIndex{1, 2, 3}), mustFetch: map[string]bool{}}
}

type c20viol struct{ sig, desc string }

func c20idxs(l []int) []eth2p0.ValidatorIndex {
	var o []eth2p0.ValidatorIndex
	for _, i := range l {
		o = append(o, eth2p0.ValidatorIndex(i))
	}
	return o
}

// request performs one cache request and returns (rendered duties, rendered metadata, raw result).
func (w *c20world) request(kind string, epoch eth2p0.Epoch, idxs []eth2p0.ValidatorIndex) ([]string, string, any, error) {
	ctx := context.Background()
	switch kind {
	case "att":
		r, err := w.cache.AttesterDutiesCache(ctx, epoch, idxs)
		return c20render(r.Duties), fmt.Sprint(r.Metadata), &r, err
	case "pro":
		r, err := w.cache.ProposerDutiesCache(ctx, epoch, idxs)
		return c20render(r.Duties), fmt.Sprint(r.Metadata), &r, err
	default:
		r, err := w.cache.SyncCommDutiesCache(ctx, epoch, idxs)
		return c20render(r.Duties), fmt.Sprint(r.Metadata), &r, err
	}
}

func (w *c20world) internals() any {
	c := w.cache
	return []any{c.attesterDuties.duties, c.attesterDuties.requestedIdxs, c.attesterDuties.metadata,
		c.proposerDuties.duties, c.proposerDuties.requestedIdxs, c.proposerDuties.metadata,
		c.syncDuties.duties, c.syncDuties.requestedIdxs, c.syncDuties.metadata}
}

// apply runs one operation sequentially and checks it (Part 1).
func (w *c20world) apply(o c20op) (viol []c20viol) {
	bad := func(sig, f string, a ...any) { viol = append(viol, c20viol{sig, fmt.Sprintf(f, a...)}) }
	ep := eth2p0.Epoch(o.Epoch)
	switch o.Kind {
	case "reorg":
		// the chain reorged back to epoch e: assignments of later epochs change, then the cache is told
		for e := ep + 1; e <= 7; e++ {
			w.bn.ver[e]++
			for _, k := range []string{"att", "pro", "syn"} {
				w.mustFetch[fmt.Sprintf("%s/%d", k, e)] = true
			}
		}
		w.cache.InvalidateCache(context.Background(), ep)
		return nil
	case "trim":
		w.cache.Trim(ep)
		if ep >= 3 {
			for e := eth2p0.Epoch(0); e < ep-3; e++ {
				for _, k := range []string{"att", "pro", "syn"} {
					w.mustFetch[fmt.Sprintf("%s/%d", k, e)] = true
				}
			}
		}
		return nil
	}
	idxs := c20idxs(o.Idxs)
	arg := append([]eth2p0.ValidatorIndex(nil), idxs...)
	nCalls := len(w.bn.calls)
	w.bn.fail = o.Fail
	got, gotMeta, raw, err := w.request(o.Kind, ep, arg)
	w.bn.fail = 0
	if err != nil && o.Fail > 0 && len(w.bn.calls) > nCalls {
		return nil // the beacon node had to be asked and failed: an error is the right answer; nothing may have been cached (judged by the later requests)
	}
	if err != nil {
		bad("kind=request-error", "%s failed: %v", o, err)
		return
	}
	if o.Fail == 2 && len(w.bn.calls) > nCalls {
		// the beacon node answered with an empty object: whatever the cache returns now is not judged, but it must not be kept
		// (later requests are compared with the healthy beacon node as usual)
		c20scribble(raw)
		return nil
	}
	want, wantMeta := w.bn.direct(o.Kind, ep, idxs, w.bn.ver[ep])
	if strings.Join(got, "|") != strings.Join(want, "|") {
		stale := false
		for v := 0; v < w.bn.ver[ep]; v++ {
			if old, _ := w.bn.direct(o.Kind, ep, idxs, v); strings.Join(got, "|") == strings.Join(old, "|") {
				stale = true
			}
		}
		if stale {
			bad("kind=stale-answer-after-invalidation type="+o.Kind, "%s returned the pre-reorg answer %v, the beacon node now answers %v", o, got, want)
		} else {
			bad("kind=answer-differs-from-beacon-node type="+o.Kind, "%s returned %v, the beacon node answers %v", o, got, want)
		}
	} else if gotMeta != wantMeta {
		bad("kind=metadata-differs-from-beacon-node type="+o.Kind, "%s returned metadata %s, the beacon node answers %s", o, gotMeta, wantMeta)
	}
	fetched := false
	for _, c := range w.bn.calls[nCalls:] {
		if c.kind == o.Kind && c.epoch == ep {
			fetched = true
		}
	}
	key := fmt.Sprintf("%s/%d", o.Kind, ep)
	if w.mustFetch[key] && !fetched {
		bad("kind=not-fetched-afresh-after-invalidation type="+o.Kind, "%s was answered without asking the beacon node although epoch %d had been invalidated/trimmed", o, ep)
	}
	if fetched {
		delete(w.mustFetch, key)
	}
	// private copies: no mutable memory shared with the cache, an earlier result or the argument
	mine := c20addrs(raw)
	for a, p := range c20addrs(w.internals()) {
		if q, ok := mine[a]; ok {
			bad("kind=result-aliases-cache type="+o.Kind+" field="+c20field(q), "%s: result%s shares memory with cache%s", o, q, p)
		}
	}
	for _, pr := range w.prev {
		for a, p := range c20addrs(pr) {
			if q, ok := mine[a]; ok {
				bad("kind=result-aliases-earlier-result type="+o.Kind+" field="+c20field(q), "%s: result%s shares memory with an earlier result%s", o, q, p)
			}
		}
	}
	if reflect.DeepEqual(arg, idxs) == false {
		bad("kind=argument-mutated", "%s: the index slice passed in was modified to %v", o, arg)
	}
	// the caller now scribbles over everything it was handed (and over its own argument)
	c20scribble(raw)
	for i := range arg {
		arg[i] = 99
	}
	w.prev = append(w.prev, raw)
	if len(w.prev) > 3 {
		w.prev = w.prev[1:]
	}
	return viol
}

func c20field(path string) string {
	// strip indices so that signatures are stable
	var sb strings.Builder
	depth := 0
	for _, r := range path {
		switch {
		case r == '[':
			depth++
			sb.WriteString("[")
		case r == ']':
			depth--
			sb.WriteString("]")
		case depth == 0:
			sb.WriteRune(r)
		}
	}
	return sb.String()
}

func (w *c20world) key() string {
	c := w.cache
	var parts []string
	dump := func(name string, req map[eth2p0.Epoch][]eth2p0.ValidatorIndex, duties any, meta map[eth2p0.Epoch]map[string]any) {
		var eps []int
		for e := range req {
			eps = append(eps, int(e))
		}
		sort.Ints(eps)
		dv := reflect.ValueOf(duties)
		for _, e := range eps {
			d := dv.MapIndex(reflect.ValueOf(eth2p0.Epoch(e)))
			ds := "<none>"
			if d.IsValid() {
				ds = strings.Join(c20render(d.Interface()), ";")
			}
			parts = append(parts, fmt.Sprintf("%s/%d:req%v:d[%s]:m%v", name, e, req[eth2p0.Epoch(e)], ds, meta[eth2p0.Epoch(e)]))
		}
	}
	dump("att", c.attesterDuties.requestedIdxs, c.attesterDuties.duties, c.attesterDuties.metadata)
	dump("pro", c.proposerDuties.requestedIdxs, c.proposerDuties.duties, c.proposerDuties.metadata)
	dump("syn", c.syncDuties.requestedIdxs, c.syncDuties.duties, c.syncDuties.metadata)
	var vs []string
	for e, v := range w.bn.ver {
		vs = append(vs, fmt.Sprintf("%d=%d", e, v))
	}
	sort.Strings(vs)
	var mf []string
	for k := range w.mustFetch {
		mf = append(mf, k)
	}
	sort.Strings(mf)
	// whatever else the cache holds (nothing, for the code this was written against); the invalidation counters only matter to
	// requests in flight (Part B) and are left out on purpose
	sub := []string{"RWMutex", "invalidations", "requestedIdxs", "duties", "metadata"}
	extra := schedx.ExtraState(c, "eth2Cl", "activeValIdxs", "proposerDuties", "attesterDuties", "syncDuties") +
		schedx.ExtraState(&c.proposerDuties, sub...) + schedx.ExtraState(&c.attesterDuties, sub...) + schedx.ExtraState(&c.syncDuties, sub...)
	return strings.Join(parts, "|") + "#" + strings.Join(vs, ",") + "#" + strings.Join(mf, ",") + extra
}

type c20case struct {
	Part string  `json:"part"`
	Ops  []c20op `json:"ops"`
}

func c20replay(ops []c20op) (*c20world, []c20viol) {
	w := c20new()
	var last []c20viol
	for _, o := range ops {
		last = w.apply(o)
	}
	return w, last
}

func c20partA(t *testing.T, r *enumx.Run) {
	depth := 4
	if enumx.Thorough() {
		depth = 6
	}
	subsets := [][]int{{1}, {2}, {3}, {1, 2}, {2, 3}, {1, 2, 3}, {2, 1}}
	// kind sets; a trailing "warm" marks a search that does not start from the empty cache but from the state a running node
	// is in (every kind cached for both epochs, partly for a subset of the validators), with all three kinds in the alphabet
	for _, kinds := range [][]string{{"att"}, {"pro"}, {"syn"}, {"att", "syn"}, {"pro", "att", "syn", "warm"}, {"pro", "att", "syn", "warm-partial"}} {
		if !r.Mine() {
			continue
		}
		var prefix []c20op
		warm := strings.HasPrefix(kinds[len(kinds)-1], "warm")
		if warm {
			full := kinds[len(kinds)-1] == "warm"
			kinds = kinds[:len(kinds)-1]
			for _, k := range kinds {
				for _, e := range []uint64{5, 6} {
					idx := []int{1, 2, 3}
					if !full && e == 6 {
						idx = []int{2}
					}
					prefix = append(prefix, c20op{Kind: k, Epoch: e, Idxs: idx})
				}
			}
		}
		var alpha []c20op
		for _, k := range kinds {
			for _, e := range []uint64{5, 6} {
				for _, s := range subsets {
					if len(kinds) > 1 && len(s) == 1 && s[0] != 2 {
						continue
					}
					if warm && !(len(s) == 3 || (len(s) == 1 && s[0] == 2)) {
						continue
					}
					alpha = append(alpha, c20op{Kind: k, Epoch: e, Idxs: s})
				}
			}
		}
		alpha = append(alpha, c20op{Kind: "reorg", Epoch: 4}, c20op{Kind: "reorg", Epoch: 5}, c20op{Kind: "trim", Epoch: 9}, c20op{Kind: "trim", Epoch: 8})
		// beacon-node faults: a request whose beacon-node call fails (or is answered with an empty object), for every kind of the set
		for _, k := range kinds {
			for _, f := range []int{1} { // (an empty answer without error is a legitimate answer, not a fault: not scripted)
				alpha = append(alpha, c20op{Kind: k, Epoch: 6, Idxs: []int{1, 2, 3}, Fail: f}, c20op{Kind: k, Epoch: 6, Idxs: []int{2}, Fail: f})
			}
		}
		d := depth
		if len(kinds) > 1 {
			d--
		}
		if warm {
			d = depth - 1 + len(prefix) // the scripted prefix does not count
		}
		type node struct {
			parent int32
			op     c20op
			depth  int
		}
		nodes := []node{{parent: -1, depth: len(prefix)}}
		hist := func(i int32) []c20op {
			var h []c20op
			for j := i; j > 0; j = nodes[j].parent {
				h = append([]c20op{nodes[j].op}, h...)
			}
			return append(append([]c20op(nil), prefix...), h...)
		}
		w0, _ := c20replay(prefix)
		seen := map[string]bool{w0.key(): true}
		frontier := []int32{0}
		trans := 0
		capped := false
	bfs:
		for len(frontier) > 0 {
			var next []int32
			for _, ni := range frontier {
				if nodes[ni].depth >= d {
					continue
				}
				if r.Expired() {
					capped = true
					break bfs
				}
				h := hist(ni)
				for _, o := range alpha {
					ops := append(append([]c20op(nil), h...), o)
					w, viol := c20replay(ops)
					trans++
					r.Steps(1)
					for _, v := range viol {
						_, v2 := c20replay(ops)
						ok := false
						for _, y := range v2 {
							ok = ok || y.sig == v.sig
						}
						if !ok {
							r.Unconfirmed(v.sig)
							continue
						}
						r.Violation("part=A "+v.sig, fmt.Sprintf("%s [sequence %v]", v.desc, ops), c20case{"A", ops})
					}
					k := w.key()
					if seen[k] || len(viol) > 0 {
						continue
					}
					seen[k] = true
					nodes = append(nodes, node{parent: ni, op: o, depth: nodes[ni].depth + 1})
					next = append(next, int32(len(nodes)-1))
				}
			}
			frontier = next
		}
		if capped {
			r.NotExhaustive(fmt.Sprintf("part A %v: stopped by budget at %d states", kinds, len(seen)))
		}
		r.States(len(seen))
		for i := 0; i < len(seen); i++ {
			r.Eval("")
		}
		r.Outcome(fmt.Sprintf("A:%v:states=%d", kinds, len(seen)))
		r.Note(fmt.Sprintf("part A kinds=%v depth<=%d: states=%d transitions=%d capped=%v", kinds, d, len(seen), trans, capped))
		if len(nodes) > 1 {
			r.Sample(map[string]any{"part": "A", "kinds": kinds, "sequence": fmt.Sprint(hist(int32(len(nodes) - 1)))})
		}
	}
}

// ---- Part 2: concurrent callers ---------------------------------------------------------------------------------------------------------

type c20rec struct {
	name          string
	op            c20op
	sStart, sDone int
	done          bool
	got           []string
	err           error
}

type c20bdata struct {
	w    *c20world
	recs []*c20rec
	seq  int
	// version timeline per epoch: logical instant at which each version became current
	verAt map[eth2p0.Epoch][]int
	// logical instant at which each reorg's InvalidateCache had returned
	invDone []struct {
		epoch eth2p0.Epoch
		at    int
	}
}

func c20scenario(name string, threads [][]c20op) *schedx.Scenario {
	sc := &schedx.Scenario{Name: name, Params: map[string]any{"threads": fmt.Sprint(threads)}}
	sc.Setup = func(x *schedx.Exec) {
		d := &c20bdata{w: c20new(), verAt: map[eth2p0.Epoch][]int{}}
		x.Data = d
		d.w.bn.hook = func() {
			if t := schedx.Current(); t != nil {
				t.Point("bn")
			}
		}
		for ti, ops := range threads {
			ti, ops := ti, ops
			var recs []*c20rec
			for oi, o := range ops {
				rc := &c20rec{name: fmt.Sprintf("T%d.%d:%s", ti, oi, o), op: o}
				recs = append(recs, rc)
				d.recs = append(d.recs, rc)
			}
			x.Go(fmt.Sprintf("T%d", ti), func(t *schedx.T) {
				for i, rc := range recs {
					if i > 0 {
						t.Point("next")
					}
					d.seq++
					rc.sStart = d.seq
					x.Obs("%s start#%d", rc.name, rc.sStart)
					ep := eth2p0.Epoch(rc.op.Epoch)
					switch rc.op.Kind {
					case "reorg":
						for e := ep + 1; e <= 7; e++ {
							d.w.bn.ver[e]++
							d.seq++
							d.verAt[e] = append(d.verAt[e], d.seq)
						}
						t.Point("reorged")
						d.w.cache.InvalidateCache(x.Ctx, ep)
						d.seq++
						d.invDone = append(d.invDone, struct {
							epoch eth2p0.Epoch
							at    int
						}{ep, d.seq})
					default:
						got, _, raw, err := d.w.request(rc.op.Kind, ep, c20idxs(rc.op.Idxs))
						rc.got, rc.err = got, err
						c20scribble(raw)
					}
					d.seq++
					rc.sDone, rc.done = d.seq, true
					x.Obs("%s=%s#%d", rc.name, strings.Join(rc.got, ";"), rc.sDone)
				}
			})
		}
	}
	sc.StateKey = func(x *schedx.Exec) string { return x.Data.(*c20bdata).w.key() }
	sc.Outcome = func(x *schedx.Exec) string {
		var o []string
		for _, rc := range x.Data.(*c20bdata).recs {
			o = append(o, fmt.Sprintf("%s=%v", rc.name, rc.got))
		}
		return strings.Join(o, ",")
	}
	sc.Check = func(x *schedx.Exec) []schedx.Violation {
		d := x.Data.(*c20bdata)
		var out []schedx.Violation
		bad := func(sig, f string, a ...any) {
			out = append(out, schedx.Violation{Signature: "part=B " + sig, Description: fmt.Sprintf(f, a...)})
		}
		for _, rc := range d.recs {
			if !rc.done {
				bad("kind=call-blocked", "%s never returned", rc.name)
				continue
			}
			if rc.op.Kind == "reorg" {
				continue
			}
			if rc.err != nil {
				bad("kind=request-error", "%s failed: %v", rc.name, rc.err)
				continue
			}
			ep := eth2p0.Epoch(rc.op.Epoch)
			// versions current at some instant of the call
			ok := false
			var allowed []int
			nver := len(d.verAt[ep])
			for v := 0; v <= nver; v++ {
				from, to := 0, 1<<30
				if v > 0 {
					from = d.verAt[ep][v-1]
				}
				if v < nver {
					to = d.verAt[ep][v]
				}
				_ = to
				// a cached answer may date from any version since the last invalidation that completed before the
				// call started (minVer below); it cannot be newer than what was current when the call returned
				if from <= rc.sDone {
					allowed = append(allowed, v)
				}
			}
			// a request that starts after an invalidation completed must not be answered from pre-invalidation data
			minVer := 0
			for _, inv := range d.invDone {
				if inv.epoch < ep && inv.at < rc.sStart {
					// versions that became current before this invalidation completed
					n := 0
					for _, at := range d.verAt[ep] {
						if at < inv.at {
							n++
						}
					}
					if n > minVer {
						minVer = n
					}
				}
			}
			// Judged per requested validator: while a reorg has happened on the chain but the cache has not been told yet,
			// an answer may legitimately combine cached pre-reorg duties of one validator with freshly fetched duties of
			// another. Each validator's duties must be the beacon node's answer at one allowed version.
			byIdx := func(l []string, idx int) string {
				var o []string
				for _, d := range l {
					if strings.Contains(d, fmt.Sprintf("ValidatorIndex:%d ", idx)) || strings.Contains(d, fmt.Sprintf("ValidatorIndex:%d}", idx)) {
						o = append(o, d)
					}
				}
				return strings.Join(o, "|")
			}
			covered := 0
			for _, idx := range rc.op.Idxs {
				gotI := byIdx(rc.got, idx)
				if gotI != "" {
					covered += strings.Count(gotI, "|") + 1
				}
				okI, staleI := false, false
				for v := 0; v <= nver; v++ {
					want, _ := d.w.bn.direct(rc.op.Kind, ep, c20idxs([]int{idx}), v)
					if strings.Join(want, "|") != gotI {
						continue
					}
					inAllowed := false
					for _, a := range allowed {
						inAllowed = inAllowed || a == v
					}
					if inAllowed && v >= minVer {
						okI = true
					} else if v < minVer {
						staleI = true
					}
				}
				if okI {
					continue
				}
				ok = false
				if staleI {
					bad("kind=stale-answer-after-invalidation type="+rc.op.Kind+" concurrent", "%s started after the reorg invalidation had completed but was answered with pre-reorg duties for validator %d: %v", rc.name, idx, gotI)
				} else {
					bad("kind=answer-differs-from-beacon-node type="+rc.op.Kind+" concurrent", "%s returned for validator %d %q which the beacon node answers at no allowed version (allowed %v, min %d)", rc.name, idx, gotI, allowed, minVer)
				}
			}
			if covered != len(rc.got) {
				bad("kind=answer-has-extra-duties type="+rc.op.Kind+" concurrent", "%s returned duties of validators that were not requested, or duplicates: %v", rc.name, rc.got)
			}
			_ = ok
		}
		return out
	}
	return sc
}

func c20partB(t *testing.T, r *enumx.Run) {
	e := schedx.NewExplorer(t, "C20")
	e.Deadline = r.Deadline
	e.Bounds = []int{0, 1, 2}
	if enumx.Thorough() {
		e.Bounds = []int{0, 1, 2, 3, -1}
	}
	rq := func(k string, ep uint64, idxs ...int) c20op { return c20op{Kind: k, Epoch: ep, Idxs: idxs} }
	re := func(ep uint64) c20op { return c20op{Kind: "reorg", Epoch: ep} }
	var scs []*schedx.Scenario
	for _, k := range []string{"att", "pro", "syn"} {
		scs = append(scs,
			c20scenario(k+"-overlapping-callers", [][]c20op{{rq(k, 5, 1, 2)}, {rq(k, 5, 2, 3)}, {rq(k, 5, 1, 2, 3), rq(k, 5, 3)}}),
			c20scenario(k+"-callers-and-reorg", [][]c20op{{rq(k, 6, 1, 2)}, {re(5)}, {rq(k, 6, 1, 2), rq(k, 6, 2)}}),
			c20scenario(k+"-amend-and-reorg", [][]c20op{{rq(k, 6, 1), rq(k, 6, 1, 2)}, {re(5)}, {rq(k, 6, 2), rq(k, 6, 1, 2)}}),
		)
	}
	e.Explore(scs)
	// fold the schedx report into this run's report
	r.Steps(e.Rep.Transitions)
	for i := 0; i < e.Rep.Executions; i++ {
		r.Eval("")
	}
	r.Count("partB_executions", e.Rep.Executions)
	r.Count("partB_replay_divergences", e.Rep.ReplayDiverg)
	for _, v := range e.Rep.Violations {
		r.Violation(v.Signature, v.Description, map[string]any{"part": "B", "schedx_replay": v.Replay})
	}
	if !e.Rep.Exhaustive {
		r.NotExhaustive("part B: " + strings.Join(e.Rep.Notes, "; "))
	}
	r.Note(fmt.Sprintf("part B: executions=%d bound_completed=%v", e.Rep.Executions, e.Rep.BoundCompleted))
	r.States(e.NumStates())
}

func TestVerifC20(t *testing.T) {
	r := enumx.New(t, "C20")
	defer r.Finish()
	if r.ReplayPath != "" {
		b, _ := os.ReadFile(r.ReplayPath)
		if strings.Contains(string(b), `"part": "A"`) {
			var cs c20case
			if err := r.ReplayCase(&cs); err != nil {
				t.Fatal(err)
			}
			_, v := c20replay(cs.Ops)
			fmt.Printf("replay %v -> %v\n", cs.Ops, v)
			r.Eval("replay")
			for _, x := range v {
				r.Violation("part=A "+x.sig, x.desc, cs)
			}
			return
		}
		fmt.Printf("part B replay files are schedx replays: %s\n", b)
		return
	}
	half := time.Until(r.Deadline) / 2
	full := r.Deadline
	r.Deadline = time.Now().Add(half)
	c20partA(t, r)
	r.Deadline = full
	c20partB(t, r)
}

var _ = unsafe.Pointer(nil)
