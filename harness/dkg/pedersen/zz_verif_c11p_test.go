package pedersen

// C11, pedersen part: the same output oracle as the FROST parts (zz_verif_c11_test.go in package dkg), applied to the
// second key generation protocol of the repository, pedersen.RunDKG, for EVERY (n, t) with 2 <= t <= n (in particular the
// thresholds below and above the default ceil(2n/3), which no ceremony test uses) and the unset threshold (0 = default).
// n real nodes: libp2p hosts on loopback, the real dkg/bcast component, the real Board; one ceremony per configuration.
// A ceremony that fails on any node is skipped and counted (never an alarm); a successful one is judged completely:
// same group key and same n public shares on all nodes, each secret share matches its public share, EVERY t-subset of
// public shares recovers the group key and EVERY t-subset of partial signatures aggregates to a signature valid under it.

import (
	"context"
	"encoding/hex"
	"fmt"
	"sort"
	"testing"
	"time"

	"github.com/libp2p/go-libp2p/core/peer"
	"golang.org/x/sync/errgroup"

	"github.com/obolnetwork/charon/cluster"
	"github.com/obolnetwork/charon/dkg/share"
	"github.com/obolnetwork/charon/tbls"
	"github.com/obolnetwork/charon/testutil"
	"github.com/obolnetwork/charon/zzverif/enumx"
)

type c11pCase struct {
	Part string `json:"part"` // "pedersen"
	N    int    `json:"n"`
	T    int    `json:"t"` // configured threshold; 0 = unset (the ceremony uses cluster.Threshold(n))
	V    int    `json:"v"`
}

func (c c11pCase) String() string { return fmt.Sprintf("pedersen n=%d t=%d v=%d", c.N, c.T, c.V) }

func (c c11pCase) effT() int {
	if c.T <= 0 {
		return cluster.Threshold(c.N)
	}
	return c.T
}

var c11pMsg = []byte("c11 pedersen threshold signature message")

func c11pRun(t *testing.T, c c11pCase) (shares [][]share.Share, err error) {
	var (
		peers   []peer.ID
		peerMap = make(map[peer.ID]cluster.NodeIdx)
		session = testutil.RandomArray32()
		nodes   = make([]*TestNode, c.N)
	)
	defer func() {
		for _, nd := range nodes {
			if nd != nil {
				_ = nd.NodeHost.Close()
			}
		}
	}()
	for i := range nodes {
		nodes[i] = NewTestNode(t, i)
		peerMap[nodes[i].NodeHost.ID()] = nodes[i].NodeIdx
		peers = append(peers, nodes[i].NodeHost.ID())
	}
	ConnectTestNodes(t, nodes)
	for i := range nodes {
		nodes[i].InitBoard(t, c.T, peers, peerMap, session[:])
	}
	ctx, cancel := context.WithTimeout(context.Background(), 2*time.Minute)
	defer cancel()
	group, gctx := errgroup.WithContext(ctx)
	shares = make([][]share.Share, c.N)
	for i := range nodes {
		group.Go(func() error {
			s, err := RunDKG(gctx, nodes[i].Config, nodes[i].Board, c.V)
			shares[i] = s
			return err
		})
	}
	return shares, group.Wait()
}

func c11pSubsets(n, k int) [][]int {
	var out [][]int
	if k < 1 || k > n {
		return nil
	}
	var rec func(start int, cur []int)
	rec = func(start int, cur []int) {
		if len(cur) == k {
			out = append(out, append([]int(nil), cur...))
			return
		}
		for i := start; i <= n; i++ {
			rec(i+1, append(cur, i))
		}
	}
	rec(1, nil)
	return out
}

type c11pViol struct{ sig, desc string }

func c11pJudge(c c11pCase, shares [][]share.Share, r *enumx.Run) (viol []c11pViol) {
	bad := func(sig, f string, a ...any) { viol = append(viol, c11pViol{"proto=pedersen " + sig, fmt.Sprintf(f, a...)}) }
	hx := func(k tbls.PublicKey) string { return hex.EncodeToString(k[:6]) }
	n, t := c.N, c.effT()
	for i := 0; i < n; i++ {
		if len(shares[i]) != c.V {
			bad("kind=share-count", "node %d returned %d shares for %d validators", i, len(shares[i]), c.V)
			return viol
		}
	}
	for k := 0; k < c.V; k++ {
		gk, ps := shares[0][k].PubKey, shares[0][k].PublicShares
		complete := true
		for i := 0; i < n; i++ {
			if shares[i][k].PubKey != gk {
				bad("kind=group-key-differs-between-nodes", "validator %d: node 0 holds group key %s, node %d holds %s", k, hx(gk), i, hx(shares[i][k].PubKey))
			}
			m := shares[i][k].PublicShares
			ok := len(m) == n
			for id := 1; id <= n && ok; id++ {
				_, ok = m[id]
			}
			if !ok {
				complete = false
				var ids []int
				for id := range m {
					ids = append(ids, id)
				}
				sort.Ints(ids)
				bad("kind=public-share-set-not-1..n", "validator %d: node %d holds public shares with ids %v, want 1..%d", k, i, ids, n)
				continue
			}
			for id := 1; id <= n && len(ps) == n; id++ {
				if m[id] != ps[id] {
					bad("kind=public-shares-differ-between-nodes", "validator %d: public share %d is %s on node 0 and %s on node %d", k, id, hx(ps[id]), hx(m[id]), i)
				}
			}
		}
		if !complete {
			continue
		}
		sigs := make(map[int]tbls.Signature, n)
		for i := 0; i < n; i++ {
			pk, err := tbls.SecretToPublicKey(shares[i][k].SecretShare)
			if err != nil || pk != ps[i+1] {
				bad("kind=secret-share-does-not-match-public-share", "validator %d: node %d's secret share does not match public share %d (%v)", k, i, i+1, err)
				continue
			}
			r.Count("pedersen_secret_matches_public_share", 1)
			s, err := tbls.Sign(shares[i][k].SecretShare, c11pMsg)
			if err != nil {
				bad("kind=secret-share-invalid", "validator %d: node %d cannot sign: %v", k, i, err)
				continue
			}
			sigs[i+1] = s
		}
		if len(sigs) != n {
			continue
		}
		for _, sub := range c11pSubsets(n, t) {
			pm, sm := map[int]tbls.PublicKey{}, map[int]tbls.Signature{}
			for _, id := range sub {
				pm[id], sm[id] = ps[id], sigs[id]
			}
			if got, err := tbls.RecoverPubkey(pm); err != nil || got != gk {
				bad("kind=public-shares-do-not-recover-group-key", "validator %d: the %d public shares %v do not recover the group key %s (threshold %d of %d)", k, len(sub), sub, hx(gk), t, n)
			}
			if agg, err := tbls.ThresholdAggregate(sm); err != nil || tbls.Verify(gk, c11pMsg, agg) != nil {
				bad("kind=threshold-signature-invalid", "validator %d: partial signatures of the %d shares %v do not aggregate to a signature valid under the group key %s (threshold %d of %d)", k, len(sub), sub, hx(gk), t, n)
			}
			r.Count("pedersen_subsets_of_size_t_checked", 1)
		}
	}
	return viol
}

func TestVerifC11P(t *testing.T) {
	r := enumx.New(t, "C11")
	defer r.Finish()
	judge := func(c c11pCase) {
		shares, err := c11pRun(t, c)
		r.Steps(1)
		if err != nil {
			r.Count("pedersen_ceremonies_failed_skipped", 1)
			r.Note(fmt.Sprintf("%s: ceremony returned an error (skipped): %v", c, err))
			return
		}
		r.Eval(fmt.Sprintf("pedersen:n=%d,t=%d,v=%d", c.N, c.T, c.V))
		r.Count("pedersen_ceremonies_judged", 1)
		viol := c11pJudge(c, shares, r)
		seen := map[string]bool{}
		for _, v := range viol {
			if seen[v.sig] {
				continue
			}
			seen[v.sig] = true
			// confirm on two fresh ceremonies of the same configuration
			ok := true
			for k := 0; k < 2 && ok; k++ {
				s2, err := c11pRun(t, c)
				if err != nil {
					ok = false
					break
				}
				hit := false
				for _, v2 := range c11pJudge(c, s2, r) {
					hit = hit || v2.sig == v.sig
				}
				ok = hit
			}
			if !ok {
				r.Unconfirmed(v.sig + " " + c.String())
				continue
			}
			r.Violation(v.sig, v.desc+" ["+c.String()+"]", c)
		}
	}
	if r.ReplayPath != "" {
		var c c11pCase
		if err := r.ReplayCase(&c); err != nil || c.Part != "pedersen" {
			return // a replay file of the FROST parts
		}
		judge(c)
		return
	}
	maxN := 6
	if enumx.Thorough() {
		maxN = 9
	}
	for n := 3; n <= maxN; n++ {
		for th := 0; th <= n; th++ {
			if th == 1 {
				continue
			}
			for _, v := range []int{1, 2} {
				if v == 2 && n > 5 && !enumx.Thorough() {
					continue
				}
				if !r.Mine() {
					continue
				}
				if r.Expired() {
					return
				}
				judge(c11pCase{Part: "pedersen", N: n, T: th, V: v})
			}
		}
	}
}
