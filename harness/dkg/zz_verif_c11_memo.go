package dkg

// Memoisation of the one pure library call dkg/frostp2p.go makes when it decodes a broadcast: point decompression
// with subgroup check (curve.Point.FromAffineCompressed; see tools/checks.d/C11.py splice_g1memo). The key is the
// complete argument, a hit returns a fresh copy of exactly what the library would compute again. Nothing of
// charon's own code is bypassed; the memo only spares the n nodes of an in-process ceremony (and re-delivered
// copies) decompressing byte-identical points n times.

import (
	gosync "sync"

	"github.com/coinbase/kryptology/pkg/core/curves"
	"github.com/coinbase/kryptology/pkg/core/curves/native/bls12381"
)

type verifG1Res struct {
	v   *bls12381.G1
	err error
}

var (
	verifG1Mu   gosync.Mutex
	verifG1Memo = map[string]verifG1Res{}
)

func verifG1FromCompressed(b []byte) (curves.Point, error) {
	key := string(b)
	verifG1Mu.Lock()
	r, ok := verifG1Memo[key]
	verifG1Mu.Unlock()
	if !ok {
		p, err := curve.Point.FromAffineCompressed(b)
		g1, isG1 := p.(*curves.PointBls12381G1)
		if err == nil && (!isG1 || g1.Value == nil) {
			return p, err // not the expected representation: no memo
		}
		r.err = err
		if err == nil {
			r.v = new(bls12381.G1).Set(g1.Value)
		}
		verifG1Mu.Lock()
		if len(verifG1Memo) > 1<<18 {
			verifG1Memo = map[string]verifG1Res{}
		}
		verifG1Memo[key] = r
		verifG1Mu.Unlock()
	}
	if r.err != nil {
		return nil, r.err
	}
	return &curves.PointBls12381G1{Value: new(bls12381.G1).Set(r.v)}, nil
}
