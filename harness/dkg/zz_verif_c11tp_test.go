package dkg

// C11 part two – the production transport in the loop.
//
// Every node gets what dkg.Run builds for it: a real bcast.Component (bcast.New) and the real frostP2P from
// newFrostP2P (real newBcastCallback / newP2PCallback with their dedup maps and message validation, real
// channels, real frostP2P.Round1 / Round2 that collect and COUNT messages), on an in-memory libp2p host
// (c11Host). The signature-collection phase of a reliable broadcast (p2p.SendReceive) is a synchronous RPC into
// the peer's real handler; every one-way message (the fully signed bcast message of round 1 / round 2 and the
// round 1 p2p shares, sent with the real p2p.Send) is captured by the harness network and handed, byte for
// byte, to the recipient's real p2p stream handler (p2p.RegisterHandler closure -> bcast server.handleMessage ->
// frost callback) under the control of the harness.
//
// Delivery alphabet: every recipient has an arrival list over its 3(n-1) incoming messages; the default is
// every message once, in sender order (two defaults: broadcast stream before p2p stream and the reverse). A
// deviation is
//   dup  – one message handed to the recipient a second time, the copy at any later position of its list;
//   swap – two entries of one recipient's list exchanged (this includes a round 2 broadcast that arrives
//          before the recipient has finished round 1: the controller waits until the sender has produced it);
//   late – one node calls runFrostParallel only after the first k messages for it have been handed to its
//          (already registered) callbacks: messages that arrive before the recipient has entered the round;
//   conc – the message is delivered by two threads at once; the interleavings of the two calls are enumerated
//          by schedx (dkg/frostp2p.go is built with the vsync lock shim: every lock acquisition and every
//          unlock of the callbacks is a scheduling point).
// Beside the deviations there is the family
//   hist – cross-round delivery histories of ONE victim recipient, enumerated from scratch (not as deviations
//          from a default): a first-delivery order of its 3(n-1) messages (every interleaving of the senders'
//          message streams: glued / p2pfirst / fifo, or every permutation: perm) x up to k re-deliveries of the
//          same signed bytes, each copy at every position after the first delivery of that message - a sender's
//          round 1 broadcast again after its round 2 broadcast, the round 2 broadcast again after that, ... while
//          the victim still waits for another peer's message. The other recipients get the default delivery.
// One ceremony = one testing/synctest bubble: after every delivery the controller waits for quiescence
// (synctest.Wait), so arrival orders are exactly the prescribed ones and a ceremony that cannot complete is
// recognised without a timer.

import (
	"bytes"
	"context"
	"encoding/binary"
	"encoding/json"
	"fmt"
	"io"
	"os"
	"regexp"
	"runtime"
	"sort"
	"strings"
	"sync"
	"sync/atomic"
	"testing"
	"testing/synctest"
	"time"

	k1 "github.com/decred/dcrd/dcrec/secp256k1/v4"
	"github.com/libp2p/go-libp2p/core/host"
	"github.com/libp2p/go-libp2p/core/network"
	"github.com/libp2p/go-libp2p/core/peer"
	"github.com/libp2p/go-libp2p/core/protocol"
	"go.uber.org/zap"
	"google.golang.org/protobuf/proto"

	"github.com/obolnetwork/charon/app/log"
	"github.com/obolnetwork/charon/cluster"
	"github.com/obolnetwork/charon/dkg/bcast"
	pb "github.com/obolnetwork/charon/dkg/dkgpb/v1"
	"github.com/obolnetwork/charon/dkg/share"
	"github.com/obolnetwork/charon/p2p"
	"github.com/obolnetwork/charon/tbls"
	"github.com/obolnetwork/charon/zzverif/schedx"
)

// ---- arrival lists and deviations --------------------------------------------------------------------

const (
	c11R1Cast = 0
	c11R1P2P  = 1
	c11R2Cast = 2
)

var c11KindName = [3]string{"r1cast", "r1p2p", "r2cast"}

// c11Dev is one deviation from the default delivery. Indices refer to the recipient's arrival list as it is
// after the deviations before it.
type c11Dev struct {
	Op string `json:"op"` // "dup" | "swap" | "late" | "conc"
	To int    `json:"to"` // recipient node (0-based)
	I  int    `json:"i"`  // index of the message in the recipient's list; late: number of entries delivered before the node starts
	P  int    `json:"p"`  // dup: index at which the second copy is inserted (I < P <= len); swap: the other index (I < P)
}

type c11Item struct {
	Kind int  `json:"kind"` // 0 = round 1 broadcast, 1 = round 1 p2p shares, 2 = round 2 broadcast
	From int  `json:"from"`
	Copy bool `json:"again,omitempty"` // a repeated delivery of the same bytes
}

func (it c11Item) String() string {
	s := fmt.Sprintf("%s<-%d", c11KindName[it.Kind], it.From)
	if it.Copy {
		s += "(again)"
	}
	return s
}

// c11BaseList: the default arrival order of recipient `to`: every message once, in sender order; base 0 = the
// round 1 broadcasts before the round 1 p2p shares, base 1 = the reverse; round 2 broadcasts last.
func c11BaseList(n, to, base int) []c11Item {
	var l []c11Item
	for _, k := range [2][2]int{{c11R1Cast, c11R1P2P}, {c11R1P2P, c11R1Cast}}[base] {
		for s := 0; s < n; s++ {
			if s != to {
				l = append(l, c11Item{Kind: k, From: s})
			}
		}
	}
	for s := 0; s < n; s++ {
		if s != to {
			l = append(l, c11Item{Kind: c11R2Cast, From: s})
		}
	}
	return l
}

func c11ApplyDev(l []c11Item, d c11Dev) ([]c11Item, error) {
	switch d.Op {
	case "dup":
		if d.I < 0 || d.I >= len(l) || d.P <= d.I || d.P > len(l) {
			return nil, fmt.Errorf("bad deviation %+v for a list of %d", d, len(l))
		}
		cp := l[d.I]
		cp.Copy = true
		nl := append([]c11Item{}, l[:d.P]...)
		nl = append(nl, cp)
		return append(nl, l[d.P:]...), nil
	case "swap":
		if d.I < 0 || d.P <= d.I || d.P >= len(l) {
			return nil, fmt.Errorf("bad deviation %+v for a list of %d", d, len(l))
		}
		nl := append([]c11Item{}, l...)
		nl[d.I], nl[d.P] = nl[d.P], nl[d.I]
		return nl, nil
	}
	return nil, fmt.Errorf("unknown deviation %+v", d)
}

// c11Lists returns the arrival list of every recipient and, if the last deviation is "conc", that deviation.
func c11Lists(c c11Case) (lists [][]c11Item, conc *c11Dev, err error) {
	if c.N < 2 || c.N > len(c11K1Keys()) || c.V < 1 || c.T < 1 || c.Base < 0 || c.Base > 1 {
		return nil, nil, fmt.Errorf("bad case %+v", c)
	}
	lists = make([][]c11Item, c.N)
	for r := range lists {
		lists[r] = c11BaseList(c.N, r, c.Base)
	}
	if c.Hist != nil {
		if len(c.Devs) > 0 {
			return nil, nil, fmt.Errorf("a history and deviations in one case: %+v", c)
		}
		if err := c11HistValid(c.N, c.Hist); err != nil {
			return nil, nil, err
		}
		lists[c.Hist.To] = append([]c11Item(nil), c.Hist.List...)
	}
	for k, d := range c.Devs {
		if d.To < 0 || d.To >= c.N {
			return nil, nil, fmt.Errorf("bad deviation %+v", d)
		}
		if d.Op == "late" {
			if d.I < 1 || d.I > len(lists[d.To]) {
				return nil, nil, fmt.Errorf("bad deviation %+v", d)
			}
			continue
		}
		if d.Op == "conc" {
			if k != len(c.Devs)-1 || d.I < 0 || d.I >= len(lists[d.To]) {
				return nil, nil, fmt.Errorf("bad deviation %+v", d)
			}
			dd := d
			conc = &dd
			continue
		}
		if lists[d.To], err = c11ApplyDev(lists[d.To], d); err != nil {
			return nil, nil, err
		}
	}
	return lists, conc, nil
}

// c11Realisable says whether the schedule can happen at all when every node follows the protocol (a node
// produces its round 2 broadcast only after it has received the round 1 broadcast and the round 1 shares of every
// other node): two recipients that each wait for the other's round 2 broadcast before the end of their own
// round 1 cannot both be served. Abstract replay of the controller's loop, no real code involved.
func c11Realisable(c c11Case) bool {
	lists, _, err := c11Lists(c)
	if err != nil {
		return false
	}
	n := c.N
	late := map[int]int{}
	for _, d := range c.Devs {
		if d.Op == "late" {
			late[d.To] = d.I
		}
	}
	cur := make([]int, n)
	got := make([]map[[2]int]bool, n) // distinct round 1 messages received
	for i := range got {
		got[i] = map[[2]int]bool{}
	}
	started := func(i int) bool { return cur[i] >= late[i] }
	r1done := func(i int) bool { return started(i) && len(got[i]) == 2*(n-1) }
	for {
		moved := false
		for r := 0; r < n; r++ {
			if cur[r] >= len(lists[r]) {
				continue
			}
			it := lists[r][cur[r]]
			if (it.Kind == c11R2Cast && !r1done(it.From)) || (it.Kind != c11R2Cast && !started(it.From)) {
				continue
			}
			cur[r]++
			if it.Kind != c11R2Cast {
				got[r][[2]int{it.Kind, it.From}] = true
			}
			moved = true
		}
		if !moved {
			break
		}
	}
	for r := 0; r < n; r++ {
		if cur[r] < len(lists[r]) {
			return false
		}
	}
	return true
}

func c11ListKey(l []c11Item) string {
	var sb strings.Builder
	for _, it := range l {
		fmt.Fprintf(&sb, "%d.%d.%v|", it.Kind, it.From, it.Copy)
	}
	return sb.String()
}

func (c c11Case) tpString() string {
	s := fmt.Sprintf("%s production-transport base=%d maprot=%d", c.cfg(), c.Base, c.MapRot)
	lists, conc, err := c11Lists(c)
	if err != nil {
		return s + " " + err.Error()
	}
	touched := map[int]bool{}
	for _, d := range c.Devs {
		touched[d.To] = true
	}
	if c.Hist != nil {
		s += fmt.Sprintf(" history (first-delivery order %q + %d re-deliveries), the other nodes default delivery;", c.Hist.Order, c11Copies(c.Hist.List))
		touched[c.Hist.To] = true
	}
	var rs []int
	for r := range touched {
		rs = append(rs, r)
	}
	sort.Ints(rs)
	for _, r := range rs {
		s += fmt.Sprintf(" arrival order at node %d: %v", r, lists[r])
	}
	for _, d := range c.Devs {
		if d.Op == "late" {
			s += fmt.Sprintf("; node %d starts the ceremony only after the first %d of them have been handed to its callbacks", d.To, d.I)
		}
	}
	if conc != nil {
		s += fmt.Sprintf("; %v is delivered to node %d by two threads at once, interleaving %v", lists[conc.To][conc.I], conc.To, c.Choices)
	}
	if len(c.Devs) == 0 && c.Hist == nil {
		s += " default delivery"
	}
	return s
}

// ---- in-memory libp2p host --------------------------------------------------------------------------------

type c11Pkt struct {
	kind, from, to int
	proto          protocol.ID
	data           []byte
}

type c11Net struct {
	mu           sync.Mutex
	idx          map[peer.ID]int
	hosts        []*c11Host
	pool         map[[3]int]*c11Pkt // (kind, from, to): every one-way message the nodes have sent
	unclassified int
	resent       int
}

type c11Handler struct {
	match func(protocol.ID) bool
	fn    network.StreamHandler
}

// c11Host implements the part of host.Host that charon's p2p package uses.
type c11Host struct {
	host.Host
	id       peer.ID
	idx      int
	net      *c11Net
	handlers []c11Handler
}

func (h *c11Host) ID() peer.ID { return h.id }

func (h *c11Host) SetStreamHandlerMatch(_ protocol.ID, m func(protocol.ID) bool, fn network.StreamHandler) {
	h.handlers = append(h.handlers, c11Handler{m, fn})
}

func (h *c11Host) handler(pid protocol.ID) network.StreamHandler {
	for _, hd := range h.handlers {
		if hd.match(pid) {
			return hd.fn
		}
	}
	return nil
}

func (h *c11Host) NewStream(_ context.Context, p peer.ID, pids ...protocol.ID) (network.Stream, error) {
	if len(pids) == 0 {
		return nil, fmt.Errorf("no protocol")
	}
	return &c11OutStream{h: h, to: p, pid: pids[0]}, nil
}

// c11OutStream: a stream that is written and closed is a one-way message (captured); a stream that is read is a
// request/response exchange and is served at once by the destination's real handler.
type c11OutStream struct {
	network.Stream
	h      *c11Host
	to     peer.ID
	pid    protocol.ID
	buf    bytes.Buffer
	resp   *bytes.Reader
	closed bool
}

func (s *c11OutStream) Write(b []byte) (int, error)      { return s.buf.Write(b) }
func (s *c11OutStream) Protocol() protocol.ID            { return s.pid }
func (s *c11OutStream) SetDeadline(time.Time) error      { return nil }
func (s *c11OutStream) SetReadDeadline(time.Time) error  { return nil }
func (s *c11OutStream) SetWriteDeadline(time.Time) error { return nil }
func (s *c11OutStream) CloseWrite() error                { return nil }
func (s *c11OutStream) CloseRead() error                 { return nil }
func (s *c11OutStream) Reset() error                     { return nil }

func (s *c11OutStream) Read(b []byte) (int, error) {
	if s.resp == nil {
		var out bytes.Buffer
		n := s.h.net
		n.mu.Lock()
		var fn network.StreamHandler
		if i, ok := n.idx[s.to]; ok {
			fn = n.hosts[i].handler(s.pid)
		}
		n.mu.Unlock()
		if fn == nil {
			return 0, io.EOF
		}
		fn(&c11InStream{r: bytes.NewReader(s.buf.Bytes()), w: &out, pid: s.pid, from: s.h.id})
		s.resp = bytes.NewReader(out.Bytes())
	}
	return s.resp.Read(b)
}

func (s *c11OutStream) Close() error {
	if s.closed {
		return nil
	}
	s.closed = true
	if s.resp == nil && s.buf.Len() > 0 {
		s.h.net.capture(s.h, s.to, s.pid, append([]byte(nil), s.buf.Bytes()...))
	}
	return nil
}

type c11Conn struct {
	network.Conn
	remote peer.ID
}

func (c c11Conn) RemotePeer() peer.ID { return c.remote }

type c11InStream struct {
	network.Stream
	r    *bytes.Reader
	w    *bytes.Buffer
	pid  protocol.ID
	from peer.ID
}

func (s *c11InStream) Read(b []byte) (int, error) { return s.r.Read(b) }
func (s *c11InStream) Write(b []byte) (int, error) {
	if s.w != nil {
		return s.w.Write(b)
	}
	return len(b), nil
}
func (s *c11InStream) Close() error                     { return nil }
func (s *c11InStream) Reset() error                     { return nil }
func (s *c11InStream) CloseWrite() error                { return nil }
func (s *c11InStream) CloseRead() error                 { return nil }
func (s *c11InStream) SetDeadline(time.Time) error      { return nil }
func (s *c11InStream) SetReadDeadline(time.Time) error  { return nil }
func (s *c11InStream) SetWriteDeadline(time.Time) error { return nil }
func (s *c11InStream) Protocol() protocol.ID            { return s.pid }
func (s *c11InStream) Conn() network.Conn               { return c11Conn{remote: s.from} }

// c11Undelim decodes one varint-delimited proto message (the wire format of p2p.Send).
func c11Undelim(data []byte, m proto.Message) error {
	l, k := binary.Uvarint(data)
	if k <= 0 || uint64(len(data)-k) < l {
		return fmt.Errorf("short frame")
	}
	return proto.Unmarshal(data[k:k+int(l)], m)
}

func (n *c11Net) capture(from *c11Host, to peer.ID, pid protocol.ID, data []byte) {
	kind := -1
	switch {
	case pid == round1P2PID:
		kind = c11R1P2P
	case strings.HasPrefix(string(pid), "/charon/dkg/bcast/") && strings.HasSuffix(string(pid), "/msg"):
		var m pb.BCastMessage
		if c11Undelim(data, &m) == nil {
			switch m.GetId() {
			case round1CastID:
				kind = c11R1Cast
			case round2CastID:
				kind = c11R2Cast
			}
		}
	}
	n.mu.Lock()
	defer n.mu.Unlock()
	toIdx, ok := n.idx[to]
	if kind < 0 || !ok {
		n.unclassified++
		return
	}
	key := [3]int{kind, from.idx, toIdx}
	if n.pool[key] != nil {
		n.resent++
		return
	}
	n.pool[key] = &c11Pkt{kind: kind, from: from.idx, to: toIdx, proto: pid, data: data}
}

func (n *c11Net) get(kind, from, to int) *c11Pkt {
	n.mu.Lock()
	defer n.mu.Unlock()
	return n.pool[[3]int{kind, from, to}]
}

// ---- log sink: counts the dedup decisions of the real callbacks ---------------------------------------------

type c11Sink struct{ drops atomic.Int64 }

func (s *c11Sink) Write(p []byte) (int, error) {
	if bytes.Contains(p, []byte("Ignoring duplicate round")) {
		s.drops.Add(1)
	}
	return len(p), nil
}
func (s *c11Sink) Sync() error { return nil }

var c11LogSink c11Sink

// ---- the world of one ceremony -------------------------------------------------------------------------------

var (
	c11KeysOnce sync.Once
	c11Keys     []*k1.PrivateKey
	c11PeerIDs  []peer.ID
)

func c11K1Keys() []*k1.PrivateKey {
	c11KeysOnce.Do(func() {
		for i := 0; i < 8; i++ {
			k, err := k1.GeneratePrivateKey()
			if err != nil {
				panic(err)
			}
			id, err := p2p.PeerIDFromKey(k.PubKey())
			if err != nil {
				panic(err)
			}
			c11Keys = append(c11Keys, k)
			c11PeerIDs = append(c11PeerIDs, id)
		}
	})
	return c11Keys
}

type c11World struct {
	c      c11Case
	net    *c11Net
	tps    []*frostP2P
	lists  [][]c11Item
	cur    []int
	ctx    context.Context
	cancel context.CancelFunc

	mu     sync.Mutex
	done   []bool
	errs   []error
	shares [][]share.Share

	delivered atomic.Int64
	copies    int // repeated deliveries handed over
	earlyR2   int // round 2 broadcasts handed to a recipient that had not finished round 1
	copiesR1  int // hist: copies handed to a recipient that had not finished round 1
	copiesR2  int // hist: copies handed to a recipient that had finished round 1
	down      bool

	drops0      int64 // conc: dedup decisions logged before this execution
	concStarted bool

	late     map[int]int // node -> number of deliveries before it starts
	started  []bool
	buffered int // deliveries to a node that had not yet called runFrostParallel
}

func c11NewWorld(c c11Case, lists [][]c11Item) (*c11World, error) {
	keys := c11K1Keys()
	n := c.N
	net := &c11Net{idx: map[peer.ID]int{}, pool: map[[3]int]*c11Pkt{}}
	ids := append([]peer.ID(nil), c11PeerIDs[:n]...)
	peers := map[peer.ID]cluster.NodeIdx{}
	for i, id := range ids {
		peers[id] = cluster.NodeIdx{PeerIdx: i, ShareIdx: i + 1}
		net.idx[id] = i
		net.hosts = append(net.hosts, &c11Host{id: id, idx: i, net: net})
	}
	ctx, cancel := context.WithCancel(log.WithLogger(context.Background(), zap.NewNop()))
	w := &c11World{c: c, net: net, lists: lists, cur: make([]int, n), ctx: ctx, cancel: cancel,
		done: make([]bool, n), errs: make([]error, n), shares: make([][]share.Share, n), late: map[int]int{}, started: make([]bool, n)}
	for _, d := range c.Devs {
		if d.Op == "late" {
			w.late[d.To] = d.I
		}
	}
	for i := 0; i < n; i++ {
		// what dkg.Run does: dkg.go "caster := bcast.New(...)" / "tp, err := newFrostP2P(...)"
		caster := bcast.New(net.hosts[i], ids, keys[i], []byte("c11-definition-hash"))
		tp, err := newFrostP2P(net.hosts[i], peers, caster, c.T, c.V)
		if err != nil {
			cancel()
			return nil, err
		}
		w.tps = append(w.tps, tp)
	}
	return w, nil
}

// start launches the nodes (except late starters) and waits until all of them are blocked (round 1 sent,
// waiting for messages).
func (w *c11World) start() {
	for i := 0; i < w.c.N; i++ {
		if _, late := w.late[i]; !late {
			w.launch(i)
		}
	}
	synctest.Wait()
}

func (w *c11World) launch(i int) {
	c := w.c
	w.started[i] = true
	{
		go func(i int) {
			var s []share.Share
			var err error
			defer func() {
				if p := recover(); p != nil { // a crashing node is an unsuccessful ceremony
					err = fmt.Errorf("panic in node %d: %v", i, p)
				}
				w.mu.Lock()
				w.done[i], w.errs[i], w.shares[i] = true, err, s
				w.mu.Unlock()
			}()
			s, err = runFrostParallel(w.ctx, w.tps[i], uint32(c.V), uint32(c.N), uint32(c.T), uint32(i+1), "0xc11")
		}(i)
	}
}

func (w *c11World) status() (allDone, failed bool) {
	w.mu.Lock()
	defer w.mu.Unlock()
	allDone = true
	for i := range w.done {
		if !w.done[i] {
			allDone = false
		}
		if w.errs[i] != nil {
			failed = true
		}
	}
	return allDone, failed
}

// deliver hands the bytes of the packet to the recipient's real stream handler, in the calling goroutine.
func (w *c11World) deliver(p *c11Pkt) {
	w.delivered.Add(1)
	if fn := w.net.hosts[p.to].handler(p.proto); fn != nil {
		fn(&c11InStream{r: bytes.NewReader(p.data), pid: p.proto, from: w.net.hosts[p.from].id})
	}
}

// note counts what is handed over (before the delivery).
func (w *c11World) note(it c11Item, to int) {
	inRound1 := w.net.get(c11R2Cast, to, (to+1)%w.c.N) == nil // the recipient has not broadcast its own round 2 message
	if it.Copy {
		w.copies++
		if w.c.Hist != nil && inRound1 {
			w.copiesR1++
		} else if w.c.Hist != nil {
			w.copiesR2++
		}
	}
	if !w.started[to] {
		w.buffered++
	}
	if it.Kind == c11R2Cast && inRound1 {
		w.earlyR2++
	}
}

// progress delivers, round-robin over the recipients, the next entry of every recipient's list that has
// already been sent, each followed by quiescence, until nothing is deliverable (or a node has failed). The
// entry holdIdx of recipient holdTo (if holdTo >= 0) is not passed.
func (w *c11World) progress(holdTo, holdIdx int) {
	for {
		moved := false
		for r := 0; r < w.c.N; r++ {
			if k, late := w.late[r]; late && !w.started[r] && w.cur[r] >= k {
				w.launch(r)
				synctest.Wait()
				moved = true
			}
			if w.cur[r] >= len(w.lists[r]) || (r == holdTo && w.cur[r] == holdIdx) {
				continue
			}
			it := w.lists[r][w.cur[r]]
			pkt := w.net.get(it.Kind, it.From, r)
			if pkt == nil {
				continue
			}
			w.cur[r]++
			w.note(it, r)
			w.deliver(pkt)
			synctest.Wait()
			moved = true
			if _, failed := w.status(); failed {
				return
			}
		}
		if !moved {
			return
		}
	}
}

func c11Drain(tp *frostP2P) bool {
	got := false
	for {
		select {
		case <-tp.round1CastsRecv:
		case <-tp.round1P2PRecv:
		case <-tp.round2CastsRecv:
		default:
			return got
		}
		got = true
	}
}

// shutdown ends every goroutine of the ceremony.
func (w *c11World) shutdown() {
	if w.down {
		return
	}
	w.down = true
	w.cancel()
	for k := 0; k < 8; k++ {
		synctest.Wait()
		drained := false // a sender blocked on a full channel (only a broken callback gets there) is released
		for _, tp := range w.tps {
			drained = c11Drain(tp) || drained
		}
		if !drained {
			break
		}
	}
}

func (w *c11World) finish() c11Outcome {
	allDone, failed := w.status()
	out := c11Outcome{shares: make([][]share.Share, w.c.N), errs: make([]error, w.c.N)}
	w.mu.Lock()
	copy(out.shares, w.shares)
	copy(out.errs, w.errs)
	w.mu.Unlock()
	out.stalled = !allDone && !failed
	w.shutdown()
	out.delivered = int(w.delivered.Load())
	out.copies, out.earlyR2, out.buffered = w.copies, w.earlyR2, w.buffered
	out.copiesR1, out.copiesR2 = w.copiesR1, w.copiesR2
	w.net.mu.Lock()
	out.netOdd = w.net.unclassified + w.net.resent
	w.net.mu.Unlock()
	return out
}

// c11TPCeremony runs one ceremony over the production transport under the case's delivery schedule.
func c11TPCeremony(c c11Case) (out c11Outcome) {
	lists, conc, err := c11Lists(c)
	if err != nil {
		return c11Outcome{harness: err}
	}
	if c11T == nil {
		return c11Outcome{harness: fmt.Errorf("no testing.T")}
	}
	if conc != nil {
		return c11ConcFixed(c)
	}
	if c.MapRot >= 0 {
		runtime.VerifSetMapRot(true, uint64(c.MapRot))
		defer runtime.VerifSetMapRot(false, 0)
	}
	drops := c11LogSink.drops.Load()
	ran := false
	synctest.Test(c11T, func(*testing.T) {
		w, err := c11NewWorld(c, lists)
		if err != nil {
			out = c11Outcome{harness: err}
			return
		}
		w.start()
		w.progress(-1, 0)
		out = w.finish()
		ran = true
	})
	if !ran && out.harness == nil {
		out.harness = fmt.Errorf("bubble did not complete")
	}
	out.dupDrops = int(c11LogSink.drops.Load() - drops)
	return out
}

// ---- "conc": two threads inside the same callback, interleavings by schedx ---------------------------------------

// c11ConcScenario: everything up to the message is delivered (Setup), two registered threads hand the same
// bytes to the recipient's real handler, the rest is delivered and the ceremony judged (Check). onOutcome gets
// the outcome of every completed execution and returns what the oracle found.
func c11ConcScenario(c c11Case, onOutcome func(out c11Outcome) []c11viol) (*schedx.Scenario, error) {
	lists, conc, err := c11Lists(c)
	if err != nil || conc == nil {
		return nil, fmt.Errorf("not a conc case: %+v (%v)", c, err)
	}
	d := *conc
	return &schedx.Scenario{
		Name:     fmt.Sprintf("conc/%s/base%d/to%d/i%d/%d", c.cfg(), c.Base, d.To, d.I, len(c.Devs)),
		Params:   map[string]any{"case": c},
		MaxSteps: 400,
		Setup: func(x *schedx.Exec) {
			w, err := c11NewWorld(c, lists)
			if err != nil {
				x.Data = err
				return
			}
			x.Data = w
			x.Cleanup(w.shutdown)
			w.drops0 = c11LogSink.drops.Load()
			w.start()
			w.progress(d.To, d.I)
			it := lists[d.To][d.I]
			pkt := w.net.get(it.Kind, it.From, d.To)
			if _, failed := w.status(); failed || pkt == nil || w.cur[d.To] != d.I {
				return // no threads: Check reports what happened
			}
			w.note(it, d.To)
			w.copies++
			w.concStarted = true
			for _, name := range []string{"original", "copy"} {
				x.Go(name, func(*schedx.T) { w.deliver(pkt) })
			}
		},
		Check: func(x *schedx.Exec) []schedx.Violation {
			w, ok := x.Data.(*c11World)
			if !ok {
				onOutcome(c11Outcome{harness: fmt.Errorf("world: %v", x.Data)})
				return nil
			}
			if w.concStarted && len(x.Stuck) == 0 {
				w.cur[d.To] = d.I + 1
				if _, failed := w.status(); !failed {
					w.progress(-1, 0)
				}
			}
			out := w.finish()
			out.dupDrops = int(c11LogSink.drops.Load() - w.drops0)
			if !w.concStarted {
				if err := out.firstErr(); err == nil {
					out.harness = fmt.Errorf("the message to be delivered concurrently was never produced")
				}
			}
			var vs []schedx.Violation
			for _, v := range onOutcome(out) {
				vs = append(vs, schedx.Violation{Signature: v.sig, Description: v.desc})
			}
			return vs
		},
	}, nil
}

type c11SchedxReplay struct {
	Property string         `json:"property"`
	Scenario string         `json:"scenario"`
	Env      map[string]int `json:"env"`
	Choices  []int          `json:"choices"`
}

// c11ConcFixed runs the conc case once under the interleaving c.Choices (confirmation and replay).
func c11ConcFixed(c c11Case) (out c11Outcome) {
	out.harness = fmt.Errorf("the interleaving %v could not be replayed", c.Choices)
	sc, err := c11ConcScenario(c, func(o c11Outcome) []c11viol { out = o; return nil })
	if err != nil {
		return c11Outcome{harness: err}
	}
	f, err := os.CreateTemp("", "c11-conc-*.json")
	if err != nil {
		return c11Outcome{harness: err}
	}
	defer os.Remove(f.Name())
	choices := c.Choices
	if choices == nil {
		choices = []int{}
	}
	json.NewEncoder(f).Encode(c11SchedxReplay{Property: "C11", Scenario: sc.Name, Env: map[string]int{}, Choices: choices})
	f.Close()
	prev, had := os.LookupEnv("VERIF_REPLAY")
	os.Setenv("VERIF_REPLAY", f.Name())
	defer func() {
		if had {
			os.Setenv("VERIF_REPLAY", prev)
		} else {
			os.Unsetenv("VERIF_REPLAY")
		}
	}()
	// schedx panics on a choice sequence that does not fit; that is a harness problem, not a verdict.
	func() {
		defer func() {
			if p := recover(); p != nil {
				out = c11Outcome{harness: fmt.Errorf("replay of the interleaving: %v", p)}
			}
		}()
		e := schedx.NewExplorer(c11T, "C11")
		e.Shard, e.NSh = 0, 1
		e.Bounds = []int{-1}
		stdout := os.Stdout
		if null, err := os.OpenFile(os.DevNull, os.O_WRONLY, 0); err == nil { // Explorer.replay prints the trace
			os.Stdout = null
			defer func() { os.Stdout = stdout; null.Close() }()
		}
		e.Explore([]*schedx.Scenario{sc})
	}()
	return out
}

// ---- "hist": cross-round delivery histories of one victim recipient ------------------------------------------

// c11Hist is the written-out arrival list of the victim To: every one of its 3(n-1) incoming messages exactly
// once without the Copy mark (the first delivery) and any number of copies, each after its first delivery.
type c11Hist struct {
	To    int       `json:"to"`
	Order string    `json:"first_delivery_order"` // family of the first-delivery order (glued|p2pfirst|fifo|perm); List is what runs
	List  []c11Item `json:"arrival_list"`
}

func c11Copies(l []c11Item) (k int) {
	for _, it := range l {
		if it.Copy {
			k++
		}
	}
	return k
}

func c11HistValid(n int, h *c11Hist) error {
	if h.To < 0 || h.To >= n {
		return fmt.Errorf("bad history: victim %d of %d nodes", h.To, n)
	}
	first := map[[2]int]bool{}
	for _, it := range h.List {
		k := [2]int{it.Kind, it.From}
		switch {
		case it.Kind < c11R1Cast || it.Kind > c11R2Cast || it.From < 0 || it.From >= n || it.From == h.To:
			return fmt.Errorf("bad history: entry %+v", it)
		case it.Copy && !first[k]:
			return fmt.Errorf("bad history: %v before the first delivery of that message", it)
		case !it.Copy && first[k]:
			return fmt.Errorf("bad history: %v delivered a first time twice", it)
		}
		first[k] = true
	}
	if len(first) != 3*(n-1) {
		return fmt.Errorf("bad history: %d of %d messages", len(first), 3*(n-1))
	}
	return nil
}

// c11Merges: every interleaving of the streams; a stream is a sequence of blocks, a block stays together.
func c11Merges(streams [][][]c11Item) [][]c11Item {
	var (
		out [][]c11Item
		cur []c11Item
		pos = make([]int, len(streams))
		rec func()
	)
	rec = func() {
		done := true
		for s := range streams {
			if pos[s] == len(streams[s]) {
				continue
			}
			done = false
			l := len(cur)
			cur = append(cur, streams[s][pos[s]]...)
			pos[s]++
			rec()
			pos[s]--
			cur = cur[:l]
		}
		if done {
			out = append(out, append([]c11Item(nil), cur...))
		}
	}
	rec()
	return out
}

// c11HistOrders: the first-delivery orders of a family for victim `to`.
//
//	glued    – every interleaving of the senders' streams [round 1 broadcast + its p2p shares directly after it, round 2 broadcast]
//	p2pfirst – all p2p shares (sender order), then every interleaving of the streams [round 1 broadcast, round 2 broadcast]
//	fifo     – every interleaving of the streams [round 1 broadcast, round 1 p2p shares, round 2 broadcast]
//	perm     – every permutation of the 3(n-1) messages
func c11HistOrders(n, to int, fam string) [][]c11Item {
	var (
		streams [][][]c11Item
		prefix  []c11Item
	)
	for s := 0; s < n; s++ {
		if s == to {
			continue
		}
		r1c, r1p, r2c := c11Item{Kind: c11R1Cast, From: s}, c11Item{Kind: c11R1P2P, From: s}, c11Item{Kind: c11R2Cast, From: s}
		switch fam {
		case "glued":
			streams = append(streams, [][]c11Item{{r1c, r1p}, {r2c}})
		case "p2pfirst":
			prefix = append(prefix, r1p)
			streams = append(streams, [][]c11Item{{r1c}, {r2c}})
		case "fifo":
			streams = append(streams, [][]c11Item{{r1c}, {r1p}, {r2c}})
		case "perm":
			streams = append(streams, [][]c11Item{{r1c}}, [][]c11Item{{r1p}}, [][]c11Item{{r2c}})
		default:
			return nil
		}
	}
	out := c11Merges(streams)
	for i := range out {
		out[i] = append(append([]c11Item(nil), prefix...), out[i]...)
	}
	return out
}

// c11HistLists: the first-delivery order itself and every list with 1..k copies (exact: only those with exactly
// k), each copy at any position after the first delivery of its message; a list that arises in several ways is
// returned once. Options (substrings of opts): notail = no copy after the last first delivery; castsonly = only
// broadcasts are copied; onesender = all copies of a list are broadcasts of one sender (every sender in turn).
func c11HistLists(order []c11Item, k int, exact bool, opts string) [][]c11Item {
	notail, castsonly, onesender := strings.Contains(opts, "notail"), strings.Contains(opts, "castsonly"), strings.Contains(opts, "onesender")
	sel := []int{-1}
	if onesender {
		sel = nil
		seenS := map[int]bool{}
		for _, it := range order {
			if !seenS[it.From] {
				seenS[it.From] = true
				sel = append(sel, it.From)
			}
		}
		sort.Ints(sel)
	}
	seen := map[string]bool{c11ListKey(order): true}
	var out [][]c11Item
	if !exact || k == 0 {
		out = append(out, order)
	}
	for _, only := range sel {
		level := [][]c11Item{order}
		for j := 1; j <= k; j++ {
			var next [][]c11Item
			for _, l := range level {
				last := 0
				for i, it := range l {
					if !it.Copy {
						last = i
					}
				}
				for i, it := range l {
					if it.Copy || ((castsonly || onesender) && it.Kind == c11R1P2P) || (only >= 0 && it.From != only) {
						continue
					}
					hi := len(l)
					if notail {
						hi = last // inserted at an index <= last: before the last first delivery
					}
					cp := it
					cp.Copy = true
					for p := i + 1; p <= hi; p++ {
						nl := make([]c11Item, 0, len(l)+1)
						nl = append(append(append(nl, l[:p]...), cp), l[p:]...)
						key := c11ListKey(nl)
						if seen[key] {
							continue
						}
						seen[key] = true
						next = append(next, nl)
						if !exact || j == k {
							out = append(out, nl)
						}
					}
				}
			}
			level = next
		}
	}
	return out
}

// c11HistStats: what a history contains (static, from the list) - the non-vacuity counters of the hist dimensions.
func c11HistStats(n int, h *c11Hist) map[string]int {
	st := map[string]int{}
	type sender struct {
		r1c, r2, r1AfterR2, r2AfterThat bool
		copies                          int
	}
	snd := make([]sender, n)
	firstLeft := map[[2]int]bool{} // first deliveries still outstanding
	for _, it := range h.List {
		if !it.Copy {
			firstLeft[[2]int{it.Kind, it.From}] = true
		}
	}
	copies := 0
	for _, it := range h.List {
		s := &snd[it.From]
		if !it.Copy {
			delete(firstLeft, [2]int{it.Kind, it.From})
			switch it.Kind {
			case c11R1Cast:
				s.r1c = true
			case c11R2Cast:
				s.r2 = true
				if !s.r1c {
					st["round2_cast_first_delivered_before_same_senders_round1_cast"]++
				}
			}
			continue
		}
		copies++
		s.copies++
		switch it.Kind {
		case c11R1P2P:
			st["copies_of_p2p_shares"]++
		default:
			st["copies_of_broadcasts"]++
		}
		if it.Kind != c11R2Cast && s.r2 {
			st["round1_message_again_after_same_senders_round2_cast"]++
			if it.Kind == c11R1Cast {
				s.r1AfterR2 = true
			}
		}
		if it.Kind == c11R2Cast {
			st["round2_cast_again"]++
			if s.r1AfterR2 {
				s.r2AfterThat = true
			}
		}
		// what the victim still waits for when the copy arrives
		var r1Left, r2Left [][2]int
		for k := range firstLeft {
			if k[0] == c11R2Cast {
				r2Left = append(r2Left, k)
			} else {
				r1Left = append(r1Left, k)
			}
		}
		switch {
		case len(r1Left) == 1 && r1Left[0][0] == c11R1Cast && r1Left[0][1] != it.From:
			st["copy_while_victim_waits_only_for_another_peers_round1_cast"]++
		case len(r1Left) == 0 && len(r2Left) == 1 && r2Left[0][1] != it.From:
			st["copy_while_victim_waits_only_for_another_peers_round2_cast"]++
		}
	}
	two := 0
	for i := range snd {
		if snd[i].copies > 0 {
			two++
		}
		if snd[i].r1AfterR2 {
			st["lists_with_r1_r2_r1_of_one_sender"]++
		}
		if snd[i].r2AfterThat {
			st["lists_with_r1_r2_r1_r2_of_one_sender"]++
		}
	}
	if two >= 2 {
		st["lists_with_copies_of_two_senders"]++
	}
	st[fmt.Sprintf("lists_with_%d_copies", copies)]++
	return st
}

// ---- accounting ------------------------------------------------------------------------------------------------

var c11Digits = regexp.MustCompile(`[0-9]+`)

func c11ErrClass(err error) string {
	s := err.Error()
	if i := strings.Index(s, " {"); i > 0 {
		s = s[:i]
	}
	s = c11Digits.ReplaceAllString(s, "#")
	if len(s) > 90 {
		s = s[:90]
	}
	return s
}

func (c c11Case) tpFamily() string {
	switch {
	case c.Hist != nil:
		return "hist-" + c.Hist.Order
	case len(c.Devs) == 0:
		return "default"
	case len(c.Devs) == 1:
		return c.Devs[0].Op
	}
	var ops []string
	for _, d := range c.Devs {
		ops = append(ops, d.Op)
	}
	return strings.Join(ops, "+")
}

// classifyTP does the bookkeeping of one production-transport ceremony and says whether it is to be judged
// (every node returned without an error).
func (s *c11State) classifyTP(c c11Case, out c11Outcome) bool {
	r := s.r
	r.Steps(out.delivered)
	if out.harness != nil {
		r.Eval("")
		r.NotExhaustive(fmt.Sprintf("harness problem in case [%v]: %v", c, out.harness))
		return false
	}
	fam := c.tpFamily()
	r.Count("tp_messages_handed_to_real_handlers", out.delivered)
	r.Count("tp_repeated_deliveries", out.copies)
	r.Count("tp_duplicates_dropped_by_real_dedup", out.dupDrops)
	r.Count("tp_round2_cast_arrived_during_round1", out.earlyR2)
	r.Count("tp_messages_arrived_before_recipient_started", out.buffered)
	if out.netOdd > 0 {
		r.Count("tp_unexpected_sends", out.netOdd)
	}
	bad := ""
	switch err := out.firstErr(); {
	case err != nil:
		bad = "failed-loudly: " + c11ErrClass(err)
		r.Count("tp_ceremonies_failed_loudly", 1)
	case out.stalled && !c11Realisable(c):
		bad = "schedule-not-realisable" // e.g. two recipients that each wait for the other's round 2 broadcast
		r.Count("tp_schedules_not_realisable", 1)
	case out.stalled:
		bad = "did-not-complete"
		r.Count("tp_ceremonies_did_not_complete", 1)
	}
	if bad != "" {
		// The property is conditional on a successful ceremony: a loud failure / a ceremony that never returns is
		// legal under a deviation and only counted. Under the default delivery it means the harness is broken.
		r.Eval(c.cfg() + ":tp-" + fam + ":" + bad)
		r.Outcome("tp-" + bad)
		if len(c.Devs) == 0 && c.Hist == nil {
			r.NotExhaustive(fmt.Sprintf("default delivery over the production transport did not succeed (%s) in case [%v]", bad, c))
		}
		if c.Hist != nil {
			r.Count("tp_hist_ceremonies_not_ok", 1)
		}
		return false
	}
	r.Eval(c.cfg() + ":tp-" + fam)
	r.Outcome("tp-ceremony-ok")
	r.Count("tp_ceremonies_ok", 1)
	if out.copies > 0 {
		r.Count("tp_ceremonies_ok_with_repeated_delivery", 1)
	}
	if out.earlyR2 > 0 {
		r.Count("tp_ceremonies_ok_with_early_round2_cast", 1)
	}
	if out.buffered > 0 {
		r.Count("tp_ceremonies_ok_with_late_starter", 1)
	}
	if c.Hist != nil {
		// non-vacuity of the hist dimensions: what the histories that ran to a judged end contained
		r.Count("tp_hist_ceremonies_ok", 1)
		r.Count("tp_hist_ceremonies_ok_order_"+c.Hist.Order, 1)
		r.Count("tp_hist_ceremonies_ok_n"+fmt.Sprint(c.N), 1)
		r.Count("tp_hist_duplicates_dropped_by_real_dedup", out.dupDrops)
		r.Count("tp_hist_copies_handed_over_while_victim_in_round1", out.copiesR1)
		r.Count("tp_hist_copies_handed_over_after_victim_left_round1", out.copiesR2)
		for k, v := range c11HistStats(c.N, c.Hist) {
			r.Count("tp_hist_"+k, v)
		}
	}
	return true
}

// evalTP: one non-concurrent production-transport case.
func (s *c11State) evalTP(c c11Case, seen map[tbls.PublicKey]string) {
	out := c11Ceremony(c)
	if s.classifyTP(c, out) {
		s.judge(c, out, seen)
	}
}

func (s *c11State) explorer() *schedx.Explorer {
	if s.ex == nil {
		e := schedx.NewExplorer(s.r.TB, "C11")
		e.Shard, e.NSh = 0, 1
		e.Deadline = s.r.Deadline
		e.Bounds = []int{1} // quick: at most one preemption; thorough: every interleaving
		if s.thorough {
			e.Bounds = []int{-1}
		}
		if dir, err := os.MkdirTemp("", "c11-schedx-"); err == nil {
			e.ReplayDir, s.exDir = dir, dir
		}
		s.ex = e
	}
	return s.ex
}

// evalConc explores every interleaving of the two concurrent deliveries of one conc case.
func (s *c11State) evalConc(c c11Case, seen map[tbls.PublicKey]string) {
	r := s.r
	e := s.explorer()
	sc, err := c11ConcScenario(c, func(out c11Outcome) []c11viol {
		if !s.classifyTP(c, out) {
			return nil
		}
		cnt := map[string]int{}
		viol := c11Judge(c, out.shares, cnt)
		viol = append(viol, c11Indep(c, out.shares, seen, cnt)...)
		s.flush(cnt)
		var fresh []c11viol
		done := map[string]bool{}
		for _, v := range viol {
			if done[v.sig] {
				continue
			}
			done[v.sig] = true
			if s.confirmed[v.sig] {
				r.Violation(v.sig, fmt.Sprintf("%s [case %v]", v.desc, c), c) // counted only
				continue
			}
			fresh = append(fresh, v)
		}
		return fresh
	})
	if err != nil {
		r.NotExhaustive(err.Error())
		return
	}
	nv, ex0, un0, dv0, nn0 := len(e.Rep.Violations), e.Rep.Executions, e.Rep.Unconfirmed, e.Rep.ReplayDiverg, len(e.Rep.Notes)
	e.Explore([]*schedx.Scenario{sc})
	r.Count("tp_conc_interleavings", e.Rep.Executions-ex0)
	r.Count("tp_conc_messages", 1)
	for _, v := range e.Rep.Violations[nv:] {
		cc := c
		if b, err := os.ReadFile(v.Replay); err == nil {
			var rf c11SchedxReplay
			if json.Unmarshal(b, &rf) == nil {
				cc.Choices = rf.Choices
			}
			os.Remove(v.Replay)
		}
		s.confirmed[v.Signature] = true
		r.Violation(v.Signature, fmt.Sprintf("%s [case %v] (same verdict in 5 of 5 re-runs of the same interleaving)", v.Description, cc), cc)
	}
	for k := un0; k < e.Rep.Unconfirmed; k++ {
		r.Unconfirmed(fmt.Sprintf("conc case [%v]", c))
	}
	if e.Rep.ReplayDiverg > dv0 {
		r.Count("tp_conc_schedule_divergences", e.Rep.ReplayDiverg-dv0)
	}
	for _, n := range e.Rep.Notes[nn0:] {
		if !strings.HasPrefix(n, "budget reached") {
			r.Note("schedx: " + n)
		}
	}
	if !e.Rep.Exhaustive {
		r.Expired()
	}
}

// ---- enumeration ---------------------------------------------------------------------------------------------------

// c11SingleDevs: every dup and every swap of one recipient's list l.
func c11SingleDevs(to int, l []c11Item, ops string) []c11Dev {
	var out []c11Dev
	if strings.Contains(ops, "dup") {
		for i := range l {
			for p := i + 1; p <= len(l); p++ {
				out = append(out, c11Dev{Op: "dup", To: to, I: i, P: p})
			}
		}
	}
	if strings.Contains(ops, "swap") {
		for i := range l {
			for p := i + 1; p < len(l); p++ {
				out = append(out, c11Dev{Op: "swap", To: to, I: i, P: p})
			}
		}
	}
	return out
}

type c11TPUnit struct {
	N, T, V, Base int
	Fam           string // default | dup | swap | late | conc | pair-same | pair-cross | hist
	To, To2       int
	// hist: first-delivery order family, number of copies (Exact: exactly K, else 0..K), options, and the part of
	// the first-delivery orders this unit takes (order index mod Chunks == Chunk)
	Ord           string
	K             int
	Exact         bool
	Opt           string
	Chunk, Chunks int
}

// c11TPCases returns the cases of a unit.
func c11TPCases(u c11TPUnit) []c11Case {
	mk := func(fam string, base int, devs ...c11Dev) c11Case {
		return c11Case{N: u.N, T: u.T, V: u.V, TP: true, Base: base, Devs: devs, Family: "tp-" + fam}
	}
	var cases []c11Case
	switch u.Fam {
	case "default":
		for rep := 0; rep < 3; rep++ { // map rotation 0, 1, stock
			for base := 0; base < 2; base++ {
				cases = append(cases, mk("default", base))
			}
		}
	case "dup", "swap":
		for _, d := range c11SingleDevs(u.To, c11BaseList(u.N, u.To, u.Base), u.Fam) {
			cases = append(cases, mk(u.Fam, u.Base, d))
		}
	case "late":
		for k := 1; k <= 2*(u.N-1); k++ { // every round 1 message can be there before the node starts
			cases = append(cases, mk("late", u.Base, c11Dev{Op: "late", To: u.To, I: k}))
		}
	case "conc":
		for i := range c11BaseList(u.N, u.To, u.Base) {
			cases = append(cases, mk("conc", u.Base, c11Dev{Op: "conc", To: u.To, I: i}))
		}
	case "pair-same":
		base := c11BaseList(u.N, u.To, u.Base)
		seen := map[string]bool{c11ListKey(base): true}
		firsts := c11SingleDevs(u.To, base, "dup swap")
		for _, d1 := range firsts { // lists with at most one deviation are covered by the other units
			l1, _ := c11ApplyDev(base, d1)
			seen[c11ListKey(l1)] = true
		}
		for _, d1 := range firsts {
			l1, _ := c11ApplyDev(base, d1)
			for _, d2 := range c11SingleDevs(u.To, l1, "dup swap") {
				l2, _ := c11ApplyDev(l1, d2)
				if k := c11ListKey(l2); !seen[k] {
					seen[k] = true
					cases = append(cases, mk("pair", u.Base, d1, d2))
				}
			}
		}
	case "hist":
		for oi, order := range c11HistOrders(u.N, u.To, u.Ord) {
			if u.Chunks > 1 && oi%u.Chunks != u.Chunk {
				continue
			}
			for _, l := range c11HistLists(order, u.K, u.Exact, u.Opt) {
				c := mk("hist", 0)
				c.Hist = &c11Hist{To: u.To, Order: u.Ord, List: l}
				cases = append(cases, c)
			}
		}
	case "pair-cross":
		for _, d1 := range c11SingleDevs(u.To, c11BaseList(u.N, u.To, u.Base), "dup swap") {
			for _, d2 := range c11SingleDevs(u.To2, c11BaseList(u.N, u.To2, u.Base), "dup swap") {
				cases = append(cases, mk("pair", u.Base, d1, d2))
			}
		}
	}
	for i := range cases {
		cases[i].MapRot = [3]int{0, 1, -1}[i%3]
		if cases[i].Family == "tp-conc" {
			cases[i].MapRot = 0 // schedx pins rotation 0 and the source order of select
		}
	}
	return cases
}

// c11TPUnits: the stated bounds of part two.
func c11TPUnits(thorough bool) []c11TPUnit {
	var us []c11TPUnit
	add := func(n, t, v int, fams string) {
		us = append(us, c11TPUnit{N: n, T: t, V: v, Fam: "default"})
		for base := 0; base < 2; base++ {
			for to := 0; to < n; to++ {
				for _, f := range []string{"dup", "swap", "late", "conc", "pair-same"} {
					if strings.Contains(fams, f) {
						us = append(us, c11TPUnit{N: n, T: t, V: v, Base: base, Fam: f, To: to})
					}
				}
				for to2 := to + 1; to2 < n && strings.Contains(fams, "pair-cross"); to2++ {
					us = append(us, c11TPUnit{N: n, T: t, V: v, Base: base, Fam: "pair-cross", To: to, To2: to2})
				}
			}
		}
	}
	for n := 3; n <= 4; n++ {
		for t := 2; t <= n; t++ {
			for v := 1; v <= 2; v++ {
				var fams string
				switch {
				case !thorough && n == 3 && v == 1:
					fams = "dup swap late conc"
				case !thorough && n == 3:
					fams = "dup swap late"
				case !thorough && v == 1 && t == 3:
					fams = "dup swap late conc"
				case !thorough && v == 1:
					fams = "dup swap late"
				case !thorough:
					fams = "" // n=4, v=2: default delivery only in the quick tier
				case n == 3 && v == 1:
					fams = "dup swap late conc pair-same pair-cross"
				case n == 3:
					fams = "dup swap late conc"
				case v == 1:
					fams = "dup swap late conc"
				default:
					fams = "dup swap late"
				}
				add(n, t, v, fams)
			}
		}
	}
	if thorough {
		for t := 2; t <= 3; t++ {
			add(3, t, 3, "dup swap late")
		}
		for t := 2; t <= 5; t++ {
			add(5, t, 1, "dup swap late")
		}
	}
	// hist: one victim per ceremony (every node in turn unless victims are named); units of roughly 120 ceremonies
	// (whole first-delivery orders)
	hist := func(n, t, v int, ord string, k int, exact bool, opt string, victims ...int) {
		orders := c11HistOrders(n, 0, ord)
		if len(orders) == 0 {
			return
		}
		per := len(c11HistLists(orders[0], k, exact, opt)) // the same for every order up to a few lists (castsonly, onesender)
		chunks := (len(orders)*per + 119) / 120
		if chunks > len(orders) {
			chunks = len(orders)
		}
		if chunks < 1 {
			chunks = 1
		}
		if len(victims) == 0 {
			victims = c11Identity(n)
		}
		for _, to := range victims {
			for ch := 0; ch < chunks; ch++ {
				us = append(us, c11TPUnit{N: n, T: t, V: v, Fam: "hist", To: to, Ord: ord, K: k, Exact: exact, Opt: opt, Chunk: ch, Chunks: chunks})
			}
		}
	}
	if !thorough {
		hist(3, 2, 1, "glued", 2, false, "notail")
		hist(3, 2, 1, "p2pfirst", 2, false, "notail castsonly")
	} else {
		hist(3, 2, 1, "fifo", 2, false, "notail") // contains glued
		hist(3, 2, 1, "p2pfirst", 2, false, "notail")
		hist(3, 2, 1, "p2pfirst", 3, true, "notail castsonly")
		// the large products for ONE victim only (node 0), to stay inside the time budget of the tier
		hist(3, 2, 1, "perm", 1, false, "notail castsonly", 0)
		for _, tv := range [][2]int{{3, 1}, {2, 2}} {
			hist(3, tv[0], tv[1], "glued", 2, false, "notail", 0)
			hist(3, tv[0], tv[1], "p2pfirst", 2, false, "notail castsonly", 0)
		}
		hist(4, 3, 1, "glued", 1, false, "notail", 0)
		hist(4, 3, 1, "p2pfirst", 1, false, "notail castsonly", 0)
		hist(4, 2, 1, "p2pfirst", 2, true, "notail onesender", 0)
	}
	return us
}

func (u c11TPUnit) cost() int {
	per := u.V * u.N * u.N * (2*u.T + 4)
	k := len(c11TPCases(u))
	if u.Fam == "conc" {
		k *= 8
	}
	return k * per
}

// c11PartTwo enumerates the production-transport cases of this shard.
func c11PartTwo(st *c11State) {
	r := st.r
	var done bool
	r.TB.Run("production-transport", func(t *testing.T) {
		log.InitConsoleForT(t, &c11LogSink) // the callbacks' handler context carries the global logger
		prevT := c11T
		c11T = t
		defer func() { c11T = prevT }()
		units := c11TPUnits(st.thorough)
		costs := make(map[c11TPUnit]int, len(units))
		for _, u := range units {
			costs[u] = u.cost()
		}
		sort.SliceStable(units, func(i, j int) bool { return costs[units[i]] > costs[units[j]] })
		if w := r.NSh; w > 1 {
			for b := w; b < len(units); b += 2 * w { // snake order, as in part one
				e := b + w
				if e > len(units) {
					e = len(units)
				}
				for i, j := b, e-1; i < j; i, j = i+1, j-1 {
					units[i], units[j] = units[j], units[i]
				}
			}
		}
		for _, u := range units {
			if p := os.Getenv("VERIF_C11_PART"); (p == "hist" && u.Fam != "hist") || (p == "nohist" && u.Fam == "hist") {
				continue // developer knob (the run is marked as capped): only / all but the hist family
			}
			if !r.Mine() {
				continue
			}
			if r.Expired() {
				break
			}
			seen := map[tbls.PublicKey]string{}
			for _, c := range c11TPCases(u) {
				if r.Expired() {
					break
				}
				if u.Fam == "conc" {
					st.evalConc(c, seen)
				} else {
					st.evalTP(c, seen)
				}
				if st.tpSampled < 2 && len(c.Devs) > 0 && u.Fam != "conc" {
					st.tpSampled++
					r.Sample(map[string]any{"case": c, "meaning": c.String()})
				}
				if st.histSampled < 1 && c.Hist != nil && c11Copies(c.Hist.List) == 2 {
					st.histSampled++
					r.Sample(map[string]any{"case": c, "meaning": c.String()})
				}
			}
		}
		done = true
	})
	if !done {
		r.NotExhaustive("part two (production transport) did not run to its end")
	}
	if st.exDir != "" {
		os.RemoveAll(st.exDir)
	}
}

// TestVerifRaceC11 is the race pass (thorough tier, -race build WITHOUT the vsync shim): the bodies of the
// "conc" cases free-running - the same bytes handed to the recipient's real handler by two plain goroutines -
// for every message of an n=3 ceremony and both default orders. It decides nothing about the property; it
// discharges the assumption of the interleaving exploration that the callbacks have no unsynchronised access
// between lock operations.
func TestVerifRaceC11(t *testing.T) {
	c11T = t
	log.InitConsoleForT(t, &c11LogSink)
	ok, bad := 0, 0
	for base := 0; base < 2; base++ {
		for to := 0; to < 3; to++ {
			for i := range c11BaseList(3, to, base) {
				c := c11Case{N: 3, T: 2, V: 1, TP: true, Base: base, MapRot: -1, Family: "tp-race"}
				lists, _, err := c11Lists(c)
				if err != nil {
					t.Fatal(err)
				}
				synctest.Test(t, func(*testing.T) {
					w, err := c11NewWorld(c, lists)
					if err != nil {
						t.Log(err)
						return
					}
					w.start()
					w.progress(to, i)
					it := lists[to][i]
					if pkt := w.net.get(it.Kind, it.From, to); pkt != nil {
						go w.deliver(pkt)
						go w.deliver(pkt)
						synctest.Wait()
						w.cur[to] = i + 1
						w.progress(-1, 0)
					}
					out := w.finish()
					if out.firstErr() == nil && !out.stalled {
						ok++
					} else {
						bad++
					}
				})
			}
		}
	}
	t.Logf("race pass: %d ceremonies with a concurrently repeated delivery completed, %d did not", ok, bad)
}

// TestVerifC11HistSizes prints the sizes of the hist products of both tiers (no ceremony is run; not part of the check).
func TestVerifC11HistSizes(t *testing.T) {
	for _, thorough := range []bool{false, true} {
		type key struct {
			N, T, V, K int
			Ord, Opt   string
			Exact      bool
		}
		sizes, units, orders := map[key]int{}, map[key]int{}, map[key]int{}
		var keys []key
		total, cost := 0, 0
		for _, u := range c11TPUnits(thorough) {
			if u.Fam != "hist" {
				continue
			}
			k := key{u.N, u.T, u.V, u.K, u.Ord, u.Opt, u.Exact}
			if _, ok := sizes[k]; !ok {
				keys = append(keys, k)
				orders[k] = len(c11HistOrders(u.N, 0, u.Ord))
			}
			n := len(c11TPCases(u))
			sizes[k] += n
			units[k]++
			total += n
			cost += u.cost()
		}
		for _, k := range keys {
			t.Logf("thorough=%v n=%d t=%d v=%d %s k=%d exact=%v [%s]: %d first-delivery orders, %d ceremonies (all victims of the tier) in %d units",
				thorough, k.N, k.T, k.V, k.Ord, k.K, k.Exact, k.Opt, orders[k], sizes[k], units[k])
		}
		t.Logf("thorough=%v: %d hist ceremonies, cost units %d", thorough, total, cost)
	}
}
