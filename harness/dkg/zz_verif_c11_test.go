package dkg

// C11 – key generation ceremony yields one consistent threshold key per validator.
//
// Subject: the real runFrostParallel, run by n goroutines in-process over a harness fTransport. The
// transport is an ordered barrier: callers are admitted (their contribution incorporated) in a
// prescribed order and released in that order; messages travel through the real frostp2p wire
// conversion (round1CastToProto/makeRound1Response/...). Enumerated: configurations (n,t,v) and the
// barrier orders of both rounds. Oracle: the property statement, judged with the real tbls primitives.
// The ceremony is randomised; the oracle is a relation that must hold for any randomness, so a
// candidate must fail again in 3 of 3 fresh runs of the same case before it is reported.
// Map iteration order is pinned (rotation 0 / 1, runtime overlay) or left stock-random, cyclically over
// the cases. Thorough tier only: the same oracle on the result of the complete dkg.Run (lock files and
// keystores on disk) for (n,t) in {(3,2),(4,3)}.
//
// Part two (zz_verif_c11tp_test.go): the same oracle with the PRODUCTION transport in the loop (real
// bcast.Component and newFrostP2P on an in-memory host) under an exhaustively enumerated delivery alphabet
// (duplicates, reorderings, late starters, concurrently repeated deliveries, cross-round delivery histories).

import (
	"context"
	"encoding/hex"
	"encoding/json"
	"fmt"
	"math/rand"
	"os"
	"path"
	"runtime"
	"sort"
	"strings"
	"sync"
	"testing"
	"time"

	"github.com/coinbase/kryptology/pkg/dkg/frost"
	"github.com/coinbase/kryptology/pkg/sharing"
	"go.uber.org/zap"
	"golang.org/x/sync/errgroup"
	"google.golang.org/protobuf/proto"

	"github.com/obolnetwork/charon/app/k1util"
	"github.com/obolnetwork/charon/app/log"
	"github.com/obolnetwork/charon/cluster"
	pb "github.com/obolnetwork/charon/dkg/dkgpb/v1"
	"github.com/obolnetwork/charon/dkg/share"
	dkgsync "github.com/obolnetwork/charon/dkg/sync"
	"github.com/obolnetwork/charon/eth2util/keystore"
	"github.com/obolnetwork/charon/p2p"
	"github.com/obolnetwork/charon/tbls"
	"github.com/obolnetwork/charon/tbls/tblsconv"
	"github.com/obolnetwork/charon/testutil"
	"github.com/obolnetwork/charon/testutil/relay"
	"github.com/obolnetwork/charon/zzverif/enumx"
	"github.com/obolnetwork/charon/zzverif/schedx"
)

// ---- case ------------------------------------------------------------------------------------

// c11Case is one ceremony: configuration and the arrival(=release) order of the nodes (0-based node
// index; share index = node index + 1) at the round 1 and round 2 barriers.
type c11Case struct {
	N      int    `json:"n"`
	T      int    `json:"t"`
	V      int    `json:"v"`
	Order1 []int  `json:"order1"`
	Order2 []int  `json:"order2"`
	MapRot int    `json:"maprot"` // map iteration rotation pinned during the ceremony (runtime overlay); -1 = stock random order
	Family string `json:"family"`
	// AllSubsets: for n>=7 check every size-t / size-(t-1) subset instead of the n cyclic windows
	// (n<=6 always checks every subset).
	AllSubsets bool `json:"all_subsets,omitempty"`
	// Full: the whole dkg.Run (libp2p on loopback, lock files and keystores on disk) instead of
	// runFrostParallel over the harness transport; the orders are not controlled then.
	Full bool `json:"full_dkg,omitempty"`
	// TP: part two - the production transport (real newFrostP2P, real bcast component, real p2p handlers on an
	// in-memory host) instead of the harness barrier; see zz_verif_c11tp_test.go. Order1/Order2 are unused then.
	TP      bool     `json:"production_transport,omitempty"`
	Base    int      `json:"base_order,omitempty"`       // 0 = casts first, 1 = p2p first
	Devs    []c11Dev `json:"deviations,omitempty"`       // applied in this order to the recipients' arrival lists
	Choices []int    `json:"schedule_choices,omitempty"` // "conc" deviation: the interleaving (schedx choice sequence)
	// Hist: family "hist" - the complete arrival list of one victim recipient, written out (a cross-round delivery
	// history: a first-delivery order plus re-deliveries); the other recipients get the default delivery. No Devs then.
	Hist *c11Hist `json:"history,omitempty"`
}

func (c c11Case) cfg() string { return fmt.Sprintf("n=%d,t=%d,v=%d", c.N, c.T, c.V) }

func (c c11Case) String() string {
	if c.TP {
		return c.tpString()
	}
	return fmt.Sprintf("%s order1=%v order2=%v maprot=%d", c.cfg(), c.Order1, c.Order2, c.MapRot)
}

// ---- harness transport: ordered barrier over the real wire conversion ---------------------------

type c11Transport struct {
	mu   sync.Mutex
	cond *sync.Cond
	n, v int

	pos1, pos2 []int // node index -> position in the arrival order of the round

	arrived1, released1 int
	r1casts             []*pb.FrostRound1Casts          // in arrival order
	r1p2p               map[uint32][]*pb.FrostRound1P2P // target share index -> messages in arrival order of the sources

	arrived2, released2 int
	r2casts             []*pb.FrostRound2Casts

	aborted error
}

func c11Positions(order []int, n int) ([]int, error) {
	if len(order) != n {
		return nil, fmt.Errorf("order %v is not a permutation of %d nodes", order, n)
	}
	pos := make([]int, n)
	for i := range pos {
		pos[i] = -1
	}
	for p, node := range order {
		if node < 0 || node >= n || pos[node] != -1 {
			return nil, fmt.Errorf("order %v is not a permutation of %d nodes", order, n)
		}
		pos[node] = p
	}
	return pos, nil
}

func c11NewTransport(c c11Case) (*c11Transport, error) {
	p1, err := c11Positions(c.Order1, c.N)
	if err != nil {
		return nil, err
	}
	p2, err := c11Positions(c.Order2, c.N)
	if err != nil {
		return nil, err
	}
	tp := &c11Transport{n: c.N, v: c.V, pos1: p1, pos2: p2, r1p2p: map[uint32][]*pb.FrostRound1P2P{}}
	tp.cond = sync.NewCond(&tp.mu)
	return tp, nil
}

// abort releases every waiter with err (a node failed, or the watchdog fired).
func (tp *c11Transport) abort(err error) {
	tp.mu.Lock()
	if tp.aborted == nil {
		tp.aborted = err
	}
	tp.mu.Unlock()
	tp.cond.Broadcast()
}

// barrier admits the caller when it is its turn (a caller that arrives too early waits), incorporates its
// contribution, waits until all n have arrived and releases the callers in the same prescribed order.
func (tp *c11Transport) barrier(me int, arrived, released *int, incorporate func()) error {
	tp.mu.Lock()
	defer tp.mu.Unlock()
	for *arrived != me && tp.aborted == nil { // too early: wait for my turn
		tp.cond.Wait()
	}
	if tp.aborted != nil {
		return tp.aborted
	}
	incorporate()
	*arrived++
	tp.cond.Broadcast()
	for !(*arrived == tp.n && *released == me) && tp.aborted == nil {
		tp.cond.Wait()
	}
	if tp.aborted != nil {
		return tp.aborted
	}
	*released++
	tp.cond.Broadcast()
	return nil
}

// c11NodeTP is the transport endpoint of one node (it knows its own identity, like frostP2P does).
type c11NodeTP struct {
	tp   *c11Transport
	node int // 0-based; share index = node+1
}

// checkKey mirrors the addressing checks of frostp2p's receive callbacks.
func (e c11NodeTP) checkKey(k msgKey, bcast bool) error {
	self := uint32(e.node + 1)
	switch {
	case k.SourceID != self:
		return fmt.Errorf("invalid source ID %d from node with share index %d", k.SourceID, self)
	case int(k.ValIdx) >= e.tp.v:
		return fmt.Errorf("invalid validator index %d", k.ValIdx)
	case bcast && k.TargetID != 0:
		return fmt.Errorf("invalid cast target ID %d", k.TargetID)
	case !bcast && (k.TargetID == 0 || int(k.TargetID) > e.tp.n):
		return fmt.Errorf("unknown target %d", k.TargetID)
	case !bcast && k.TargetID == self:
		return fmt.Errorf("unexpected p2p message to self")
	}
	return nil
}

func (e c11NodeTP) Round1(_ context.Context, castR1 map[msgKey]frost.Round1Bcast, p2pR1 map[msgKey]sharing.ShamirShare,
) (map[msgKey]frost.Round1Bcast, map[msgKey]sharing.ShamirShare, error) {
	tp := e.tp
	// Serialise outside the lock, the way frostP2P.Round1 does.
	casts := new(pb.FrostRound1Casts)
	for key, cast := range castR1 {
		if err := e.checkKey(key, true); err != nil {
			return nil, nil, err
		}
		casts.Casts = append(casts.Casts, round1CastToProto(key, cast))
	}
	perTarget := map[uint32]*pb.FrostRound1P2P{}
	for key, sh := range p2pR1 {
		if err := e.checkKey(key, false); err != nil {
			return nil, nil, err
		}
		m := perTarget[key.TargetID]
		if m == nil {
			m = new(pb.FrostRound1P2P)
			perTarget[key.TargetID] = m
		}
		m.Shares = append(m.Shares, shamirShareToProto(key, sh))
	}

	err := tp.barrier(tp.pos1[e.node], &tp.arrived1, &tp.released1, func() {
		tp.r1casts = append(tp.r1casts, casts)
		for target := uint32(1); target <= uint32(tp.n); target++ {
			if m := perTarget[target]; m != nil {
				tp.r1p2p[target] = append(tp.r1p2p[target], m)
			}
		}
	})
	if err != nil {
		return nil, nil, err
	}
	// All n contributions are in: nothing is appended any more; decode outside the lock (every node
	// decodes its own copy concurrently, like the real transport).
	mine := tp.r1p2p[uint32(e.node+1)]
	if len(mine) != tp.n-1 { // the real transport would wait forever for the missing peer
		return nil, nil, fmt.Errorf("round 1: %d p2p messages for share index %d, want %d", len(mine), e.node+1, tp.n-1)
	}
	castMsgs := make([]*pb.FrostRound1Casts, len(tp.r1casts))
	for i, m := range tp.r1casts {
		castMsgs[i] = proto.Clone(m).(*pb.FrostRound1Casts)
	}
	return makeRound1Response(castMsgs, mine)
}

func (e c11NodeTP) Round2(_ context.Context, castR2 map[msgKey]frost.Round2Bcast) (map[msgKey]frost.Round2Bcast, error) {
	tp := e.tp
	casts := new(pb.FrostRound2Casts)
	for key, cast := range castR2 {
		if err := e.checkKey(key, true); err != nil {
			return nil, err
		}
		casts.Casts = append(casts.Casts, round2CastToProto(key, cast))
	}

	if err := tp.barrier(tp.pos2[e.node], &tp.arrived2, &tp.released2, func() { tp.r2casts = append(tp.r2casts, casts) }); err != nil {
		return nil, err
	}
	castMsgs := make([]*pb.FrostRound2Casts, len(tp.r2casts))
	for i, m := range tp.r2casts {
		castMsgs[i] = proto.Clone(m).(*pb.FrostRound2Casts)
	}
	return makeRound2Response(castMsgs)
}

// ---- one ceremony ----------------------------------------------------------------------------------

type c11Outcome struct {
	shares  [][]share.Share // [node][validator]
	errs    []error         // per node
	harness error           // harness-side problem (bad case, watchdog): never a violation
	// part two only
	stalled   bool // no node failed, nothing is deliverable any more and some node has not returned
	delivered int  // handler invocations
	dupDrops  int  // "Ignoring duplicate" decisions of the real callbacks during this ceremony
	copies    int  // repeated deliveries (same bytes) handed to a real handler
	earlyR2   int  // round 2 broadcasts handed to a recipient that was still in round 1
	netOdd    int  // sends the harness network could not classify / saw twice
	buffered  int  // messages handed to the callbacks of a node that had not yet started the ceremony
	copiesR1  int  // hist: repeated deliveries handed over while the recipient was still in round 1
	copiesR2  int  // hist: repeated deliveries handed over after the recipient had left round 1
}

// firstErr returns the root cause if there is one (not the "peer failed" echo seen by the other nodes).
func (o c11Outcome) firstErr() error {
	var echo error
	for _, e := range o.errs {
		switch {
		case e == nil:
		case strings.Contains(e.Error(), c11PeerFailed):
			echo = e
		default:
			return e
		}
	}
	return echo
}

const c11PeerFailed = "ceremony aborted because peer"

var errC11Watchdog = fmt.Errorf("harness watchdog: ceremony did not finish")

func c11Ceremony(c c11Case) c11Outcome {
	if c.Full {
		return c11FullDKG(c)
	}
	if c.TP {
		return c11TPCeremony(c)
	}
	tp, err := c11NewTransport(c)
	if err != nil {
		return c11Outcome{harness: err}
	}
	if c.N < 1 || c.V < 1 || c.T < 0 {
		return c11Outcome{harness: fmt.Errorf("bad case %v", c)}
	}
	if c.MapRot >= 0 {
		runtime.VerifSetMapRot(true, uint64(c.MapRot))
		defer runtime.VerifSetMapRot(false, 0)
	}
	ctx, cancel := context.WithCancel(log.WithLogger(context.Background(), zap.NewNop()))
	defer cancel()
	wd := time.AfterFunc(4*time.Minute, func() { tp.abort(errC11Watchdog) })
	defer wd.Stop()

	out := c11Outcome{shares: make([][]share.Share, c.N), errs: make([]error, c.N)}
	var wg sync.WaitGroup
	for i := 0; i < c.N; i++ {
		wg.Add(1)
		go func(i int) {
			defer wg.Done()
			defer func() {
				if p := recover(); p != nil { // a crashing node is an unsuccessful ceremony
					out.errs[i] = fmt.Errorf("panic in node %d: %v", i, p)
					tp.abort(fmt.Errorf("%s %d failed", c11PeerFailed, i))
				}
			}()
			s, err := runFrostParallel(ctx, c11NodeTP{tp: tp, node: i}, uint32(c.V), uint32(c.N), uint32(c.T), uint32(i+1), "0xc11")
			if err != nil {
				out.errs[i] = err
				tp.abort(fmt.Errorf("%s %d failed", c11PeerFailed, i))
				return
			}
			out.shares[i] = s
		}(i)
	}
	wg.Wait()
	tp.mu.Lock()
	if tp.aborted == errC11Watchdog {
		out.harness = errC11Watchdog
	}
	tp.mu.Unlock()
	return out
}

// ---- oracle -----------------------------------------------------------------------------------------

type c11viol struct{ sig, desc string }

var c11Msg = []byte("C11 fixed 32-byte signing root....")[:32]

// c11Subsets returns the size-k subsets of share indices 1..n that are checked: all of them for n<=6 (or
// when all is set), the n cyclic windows (which include "first k" and "last k") for n>=7.
func c11Subsets(n, k int, all bool) [][]int {
	if k < 1 || k > n {
		return nil
	}
	var out [][]int
	if n <= 6 || all {
		var rec func(start int, cur []int)
		rec = func(start int, cur []int) {
			if len(cur) == k {
				out = append(out, append([]int(nil), cur...))
				return
			}
			for i := start; i <= n; i++ {
				rec(i+1, append(cur, i))
			}
		}
		rec(1, nil)
		return out
	}
	seen := map[string]bool{}
	for s := 0; s < n; s++ {
		var sub []int
		for j := 0; j < k; j++ {
			sub = append(sub, (s+j)%n+1)
		}
		sort.Ints(sub)
		key := fmt.Sprint(sub)
		if !seen[key] {
			seen[key] = true
			out = append(out, sub)
		}
	}
	return out
}

func c11hex(k tbls.PublicKey) string { return hex.EncodeToString(k[:6]) }

// c11Judge checks the property statement on the outputs of a successful ceremony.
func c11Judge(c c11Case, shares [][]share.Share, cnt map[string]int) (viol []c11viol) {
	bad := func(sig, f string, a ...any) { viol = append(viol, c11viol{sig, fmt.Sprintf(f, a...)}) }
	n := c.N
	for i := 0; i < n; i++ {
		if len(shares[i]) != c.V {
			bad("kind=share-count", "node %d returned %d shares for %d validators", i, len(shares[i]), c.V)
			return viol
		}
	}
	for k := 0; k < c.V; k++ {
		gk := shares[0][k].PubKey
		ps := shares[0][k].PublicShares
		// all nodes hold the same group public key and the same n public shares
		for i := 1; i < n; i++ {
			if shares[i][k].PubKey != gk {
				bad("kind=group-key-differs-between-nodes", "validator %d: node 0 holds group key %s, node %d holds %s", k, c11hex(gk), i, c11hex(shares[i][k].PubKey))
			}
		}
		complete := true
		for i := 0; i < n; i++ {
			m := shares[i][k].PublicShares
			ok := len(m) == n
			for id := 1; id <= n && ok; id++ {
				_, ok = m[id]
			}
			if !ok {
				complete = false
				var ids []int
				for id := range m {
					ids = append(ids, id)
				}
				sort.Ints(ids)
				bad("kind=public-share-set-not-1..n", "validator %d: node %d holds public shares with ids %v, want 1..%d", k, i, ids, n)
				continue
			}
			for id := 1; id <= n && i > 0 && len(ps) == n; id++ {
				if m[id] != ps[id] {
					bad("kind=public-shares-differ-between-nodes", "validator %d: public share %d is %s on node 0 and %s on node %d", k, id, c11hex(ps[id]), c11hex(m[id]), i)
				}
			}
		}
		cnt["node_outputs_compared"] += n - 1
		// each node's secret share matches the public share published for it (share index = node index + 1)
		for i := 0; i < n; i++ {
			pk, err := tbls.SecretToPublicKey(shares[i][k].SecretShare)
			if err != nil {
				bad("kind=secret-share-invalid", "validator %d: secret share of node %d has no public key: %v", k, i, err)
				continue
			}
			for j := 0; j < n; j++ {
				pub, ok := shares[j][k].PublicShares[i+1]
				if !ok {
					continue // reported above
				}
				if pub != pk {
					bad("kind=secret-share-does-not-match-public-share", "validator %d: node %d's secret share has public key %s but public share %d in node %d's map is %s", k, i, c11hex(pk), i+1, j, c11hex(pub))
				} else {
					cnt["secret_matches_public_share"]++
				}
			}
		}
		if !complete {
			continue
		}
		// partial signatures of every node over a fixed message
		sigs := make(map[int]tbls.Signature, n)
		for i := 0; i < n; i++ {
			s, err := tbls.Sign(shares[i][k].SecretShare, c11Msg)
			if err != nil {
				bad("kind=secret-share-invalid", "validator %d: node %d cannot sign: %v", k, i, err)
				continue
			}
			sigs[i+1] = s
		}
		if len(sigs) != n {
			continue
		}
		recovers := func(sub []int) bool {
			m := make(map[int]tbls.PublicKey, len(sub))
			for _, id := range sub {
				m[id] = ps[id]
			}
			got, err := tbls.RecoverPubkey(m)
			return err == nil && got == gk
		}
		signs := func(sub []int) bool {
			m := make(map[int]tbls.Signature, len(sub))
			for _, id := range sub {
				m[id] = sigs[id]
			}
			agg, err := tbls.ThresholdAggregate(m)
			return err == nil && tbls.Verify(gk, c11Msg, agg) == nil
		}
		// any t public shares reconstruct the group key; any t secret shares sign validly under it
		for _, sub := range c11Subsets(n, c.T, c.AllSubsets) {
			if !recovers(sub) {
				bad("kind=public-shares-do-not-recover-group-key", "validator %d: public shares %v do not recover the group key %s", k, sub, c11hex(gk))
			}
			if !signs(sub) {
				bad("kind=threshold-signature-invalid", "validator %d: partial signatures of shares %v do not aggregate to a signature valid under the group key %s", k, sub, c11hex(gk))
			}
			cnt["subsets_of_size_t_checked"]++
		}
		// threshold t: t-1 shares do not
		for _, sub := range c11Subsets(n, c.T-1, c.AllSubsets) {
			if recovers(sub) {
				bad("kind=group-key-recovered-below-threshold", "validator %d: only %d public shares %v recover the group key (threshold %d)", k, len(sub), sub, c.T)
			}
			if signs(sub) {
				bad("kind=signature-valid-below-threshold", "validator %d: only %d partial signatures %v aggregate to a valid group signature (threshold %d)", k, len(sub), sub, c.T)
			} else {
				cnt["subsets_below_t_rejected"]++
			}
		}
	}
	return viol
}

// c11Indep: independent key generations (other ceremonies, other validators) never yield the same group key.
func c11Indep(c c11Case, shares [][]share.Share, seen map[tbls.PublicKey]string, cnt map[string]int) (viol []c11viol) {
	for k := 0; k < c.V && k < len(shares[0]); k++ {
		gk := shares[0][k].PubKey
		if prev, ok := seen[gk]; ok {
			viol = append(viol, c11viol{"kind=group-key-repeated", fmt.Sprintf("validator %d of ceremony [%v] has the same group key %s as %s", k, c, c11hex(gk), prev)})
			continue
		}
		cnt["group_keys_compared_distinct"] += len(seen)
		seen[gk] = fmt.Sprintf("validator %d of ceremony [%v]", k, c)
	}
	return viol
}

// c11Fresh runs the case as two fresh ceremonies and returns everything the oracle finds (used for
// confirmation and replay). ok=false: a ceremony did not succeed.
func c11Fresh(c c11Case) (viol []c11viol, ok bool, why string) {
	seen := map[tbls.PublicKey]string{}
	cnt := map[string]int{}
	for rep := 0; rep < 2; rep++ {
		out := c11Ceremony(c)
		if out.harness != nil {
			return nil, false, out.harness.Error()
		}
		if err := out.firstErr(); err != nil {
			return nil, false, err.Error()
		}
		if out.stalled {
			return nil, false, "ceremony stalled"
		}
		viol = append(viol, c11Judge(c, out.shares, cnt)...)
		viol = append(viol, c11Indep(c, out.shares, seen, cnt)...)
	}
	return viol, true, ""
}

// ---- thorough-tier extension: the whole dkg.Run ----------------------------------------------------------

var c11T *testing.T

// c11FullDKG runs the complete dkg.Run of every node in-process the way dkg_test.go does (real libp2p on
// loopback through a local relay, data directories in a temp dir) and returns what every node wrote to
// disk (lock file, keystores) in the shape of the ceremony output. Everything that goes wrong here is a
// harness/environment problem (ports, timing), never a violation; it is retried.
func c11FullDKG(c c11Case) c11Outcome {
	if c11T == nil {
		return c11Outcome{harness: fmt.Errorf("no testing.T")}
	}
	var last error
	for attempt := 0; attempt < 3; attempt++ {
		var out c11Outcome
		done := false
		c11T.Run(fmt.Sprintf("fulldkg-n%d-t%d-v%d-try%d", c.N, c.T, c.V, attempt), func(t *testing.T) {
			out = c11FullOnce(t, c)
			done = true
		})
		switch {
		case done && out.harness == nil:
			return out
		case done:
			last = out.harness
		default:
			last = fmt.Errorf("a test fixture aborted the run (bind error or relay start-up)")
		}
	}
	return c11Outcome{harness: fmt.Errorf("full dkg.Run did not complete in 3 attempts: %v", last)}
}

func c11FullOnce(t *testing.T, c c11Case) c11Outcome {
	fail := func(f string, a ...any) c11Outcome { return c11Outcome{harness: fmt.Errorf(f, a...)} }
	lock, keys, _ := cluster.NewForT(t, c.V, c.T, c.N, 1, rand.New(rand.NewSource(1)), func(d *cluster.Definition) {
		d.DKGAlgorithm = "frost"
		d.TargetGasLimit = 30000000
	})
	def := lock.Definition
	if err := def.VerifySignatures(nil); err != nil {
		return fail("definition fixture: %v", err)
	}
	b, err := json.Marshal(def)
	if err != nil {
		return fail("definition fixture: %v", err)
	}
	var defClone cluster.Definition
	if err := json.Unmarshal(b, &defClone); err != nil {
		return fail("definition fixture: %v", err)
	}
	dir := t.TempDir()
	ctx, cancel := context.WithCancel(log.WithLogger(context.Background(), zap.NewNop()))
	defer cancel()
	relayAddr := relay.StartRelay(ctx, t)
	conf := Config{
		P2P: p2p.Config{Relays: []string{relayAddr}},
		Log: log.DefaultConfig(),
		TestConfig: TestConfig{
			Def: &defClone,
			StoreKeysFunc: func(secrets []tbls.PrivateKey, dir string) error {
				return keystore.StoreKeysInsecure(secrets, dir, keystore.ConfirmInsecureKeys)
			},
			SyncOpts: []func(*dkgsync.Client){dkgsync.WithPeriod(50 * time.Millisecond)},
		},
		ShutdownDelay:  time.Second,
		PublishTimeout: 30 * time.Second,
		Timeout:        60 * time.Second,
	}
	var eg errgroup.Group
	for i := 0; i < c.N; i++ {
		conf := conf
		conf.DataDir = path.Join(dir, fmt.Sprintf("node%d", i))
		conf.P2P.TCPAddrs = []string{testutil.AvailableAddr(t).String()}
		if err := os.MkdirAll(conf.DataDir, 0o755); err != nil {
			return fail("data dir: %v", err)
		}
		if err := k1util.Save(keys[i], p2p.KeyPath(conf.DataDir)); err != nil {
			return fail("p2p key: %v", err)
		}
		eg.Go(func() error {
			err := Run(ctx, conf)
			if err != nil {
				cancel()
			}
			return err
		})
		if i == 0 {
			time.Sleep(100 * time.Millisecond)
		}
	}
	done := make(chan error, 1)
	go func() { done <- eg.Wait() }()
	select {
	case err := <-done:
		if err != nil {
			return fail("dkg.Run returned an error: %v", err)
		}
	case <-time.After(5 * time.Minute):
		cancel()
		return fail("dkg.Run did not finish in 5 minutes")
	}

	out := c11Outcome{shares: make([][]share.Share, c.N), errs: make([]error, c.N)}
	for i := 0; i < c.N; i++ {
		dataDir := path.Join(dir, fmt.Sprintf("node%d", i))
		keyFiles, err := keystore.LoadFilesUnordered(path.Join(dataDir, "validator_keys"))
		if err != nil {
			return fail("node %d keystores: %v", i, err)
		}
		secrets, err := keyFiles.SequencedKeys()
		if err != nil {
			return fail("node %d keystores: %v", i, err)
		}
		raw, err := os.ReadFile(path.Join(dataDir, "cluster-lock.json"))
		if err != nil {
			return fail("node %d lock: %v", i, err)
		}
		var lk cluster.Lock
		if err := json.Unmarshal(raw, &lk); err != nil {
			return fail("node %d lock: %v", i, err)
		}
		if len(secrets) != len(lk.Validators) {
			return fail("node %d: %d keystores for %d validators in the lock", i, len(secrets), len(lk.Validators))
		}
		for k, val := range lk.Validators {
			gk, err := tblsconv.PubkeyFromBytes(val.PubKey)
			if err != nil {
				return fail("node %d lock validator %d: %v", i, k, err)
			}
			ps := map[int]tbls.PublicKey{}
			for j, psb := range val.PubShares {
				pk, err := tblsconv.PubkeyFromBytes(psb)
				if err != nil {
					return fail("node %d lock validator %d share %d: %v", i, k, j+1, err)
				}
				ps[j+1] = pk
			}
			out.shares[i] = append(out.shares[i], share.Share{PubKey: gk, SecretShare: secrets[k], PublicShares: ps})
		}
	}
	return out
}

// ---- enumeration -----------------------------------------------------------------------------------------

func c11Perms(n int) [][]int {
	var out [][]int
	var rec func(cur []int, used int)
	rec = func(cur []int, used int) {
		if len(cur) == n {
			out = append(out, append([]int(nil), cur...))
			return
		}
		for i := 0; i < n; i++ {
			if used&(1<<i) == 0 {
				rec(append(cur, i), used|1<<i)
			}
		}
	}
	rec(nil, 0)
	return out
}

func c11Identity(n int) []int {
	o := make([]int, n)
	for i := range o {
		o[i] = i
	}
	return o
}

func c11Reversed(n int) []int {
	o := make([]int, n)
	for i := range o {
		o[i] = n - 1 - i
	}
	return o
}

// c11Orders: all permutations for n<=4 (identity first); all rotations of the identity and of the
// reversed order for n>=5.
func c11Orders(n int) ([][]int, string) {
	if n <= 4 {
		return c11Perms(n), "perm"
	}
	var out [][]int
	for _, base := range [][]int{c11Identity(n), c11Reversed(n)} {
		for k := 0; k < n; k++ {
			o := make([]int, n)
			for i := range o {
				o[i] = base[(i+k)%n]
			}
			out = append(out, o)
		}
	}
	return out, "rot"
}

func c11SameOrder(a, b []int) bool {
	for i := range a {
		if a[i] != b[i] {
			return false
		}
	}
	return len(a) == len(b)
}

// c11Unit returns the cases of one work unit: half 0 = every order at round 1 (round 2 identity);
// half 1 = every non-identity order at round 2 (round 1 identity) plus reversed/reversed.
func c11Unit(n, t, v, half int) []c11Case {
	orders, kind := c11Orders(n)
	id := c11Identity(n)
	var cases []c11Case
	for _, o := range orders {
		switch {
		case half == 0:
			cases = append(cases, c11Case{N: n, T: t, V: v, Order1: o, Order2: id, Family: "r1-" + kind})
		case !c11SameOrder(o, id):
			cases = append(cases, c11Case{N: n, T: t, V: v, Order1: id, Order2: o, Family: "r2-" + kind})
		}
	}
	if half == 1 {
		cases = append(cases, c11Case{N: n, T: t, V: v, Order1: c11Reversed(n), Order2: c11Reversed(n), Family: "rev-rev"})
	}
	for i := range cases {
		cases[i].MapRot = [3]int{0, 1, -1}[i%3]
	}
	cases[0].AllSubsets = true // the subset relations do not depend on the order: every subset once per unit
	return cases
}

type c11State struct {
	r         *enumx.Run
	confirmed map[string]bool
	attempts  map[string]int
	sampled   int
	// part two
	thorough    bool
	tpSampled   int
	histSampled int
	ex          *schedx.Explorer
	exDir       string
}

func (s *c11State) flush(cnt map[string]int) {
	for k, v := range cnt {
		s.r.Count(k, v)
	}
}

// eval runs one case, judges it and confirms candidates by fresh re-runs.
func (s *c11State) eval(c c11Case, seen map[tbls.PublicKey]string) {
	r := s.r
	out := c11Ceremony(c)
	r.Steps(c.N)
	if out.harness != nil {
		r.Eval("")
		r.NotExhaustive(fmt.Sprintf("harness problem in case [%v]: %v", c, out.harness))
		return
	}
	if err := out.firstErr(); err != nil {
		// The property is conditional on a successful ceremony.
		r.Eval(c.cfg() + ":ceremony-error")
		r.Outcome("ceremony-error")
		r.Count("ceremonies_failed_with_error", 1)
		r.Note(fmt.Sprintf("ceremony %s returned an error (skipped, not a violation): %v", c.cfg(), err))
		return
	}
	r.Eval(c.cfg() + ":" + c.Family)
	r.Outcome("ceremony-ok")
	r.Count("ceremonies_ok", 1)
	s.judge(c, out, seen)
}

// judge applies the oracle to a successful ceremony and confirms candidates by fresh re-runs of the case.
func (s *c11State) judge(c c11Case, out c11Outcome, seen map[tbls.PublicKey]string) {
	r := s.r
	cnt := map[string]int{}
	viol := c11Judge(c, out.shares, cnt)
	viol = append(viol, c11Indep(c, out.shares, seen, cnt)...)
	s.flush(cnt)
	if s.sampled < 2 && c.V > 1 {
		s.sampled++
		var keys []string
		for k := 0; k < c.V; k++ {
			keys = append(keys, c11hex(out.shares[0][k].PubKey))
		}
		r.Sample(map[string]any{"case": c, "group_keys": keys, "result": "consistent"})
	}
	done := map[string]bool{}
	for _, x := range viol {
		if done[x.sig] {
			continue
		}
		done[x.sig] = true
		desc := fmt.Sprintf("%s [case %v]", x.desc, c)
		if s.confirmed[x.sig] {
			r.Violation(x.sig, desc, c) // counted only; the first one was confirmed and reported
			continue
		}
		if s.attempts[x.sig] >= 3 {
			continue
		}
		s.attempts[x.sig]++
		again := 0
		for k := 0; k < 3; k++ {
			v2, ok, _ := c11Fresh(c)
			r.Steps(2 * c.N)
			if !ok {
				break
			}
			for _, y := range v2 {
				if y.sig == x.sig {
					again++
					break
				}
			}
		}
		if again == 3 {
			s.confirmed[x.sig] = true
			r.Violation(x.sig, desc+" (failed again in 3 of 3 fresh runs of the same case)", c)
		} else {
			r.Unconfirmed(fmt.Sprintf("%s: %s (reproduced %d/3)", x.sig, desc, again))
		}
	}
}

func c11Replay(r *enumx.Run) {
	c11T = r.TB
	var c c11Case
	if err := r.ReplayCase(&c); err != nil {
		r.TB.Logf("cannot read replay: %v", err)
		r.Note("cannot read replay: " + err.Error())
		return
	}
	count := map[string]int{}
	desc := map[string]string{}
	for k := 0; k < 3; k++ {
		viol, ok, why := c11Fresh(c)
		r.Eval(c.cfg() + ":" + c.Family)
		r.Steps(2 * c.N)
		if !ok {
			r.Note("replayed ceremony did not succeed: " + why)
			return
		}
		seen := map[string]bool{}
		for _, x := range viol {
			if !seen[x.sig] {
				seen[x.sig] = true
				count[x.sig]++
				desc[x.sig] = x.desc
			}
		}
	}
	for sig, n := range count {
		if n == 3 {
			r.Violation(sig, fmt.Sprintf("%s [case %v] (3 of 3 fresh runs)", desc[sig], c), c)
		} else {
			r.Unconfirmed(fmt.Sprintf("%s reproduced %d/3 in replay", sig, n))
		}
	}
	r.TB.Logf("replay of [%v]: %v", c, count)
}

func TestVerifC11(t *testing.T) {
	r := enumx.New(t, "C11")
	defer r.Finish()
	if r.ReplayPath != "" {
		c11Replay(r)
		return
	}
	maxN, maxV := 5, 2
	if enumx.Thorough() {
		maxN, maxV = 8, 4
	}
	st := &c11State{r: r, confirmed: map[string]bool{}, attempts: map[string]int{}, thorough: enumx.Thorough()}
	c11T = t
	part := os.Getenv("VERIF_C11_PART") // developer knob: run only one part (the run is then marked as capped)
	if part != "" {
		r.NotExhaustive("VERIF_C11_PART=" + part + ": only that part was run")
	}
	if part == "" || part == "1" { // "2", "hist", "nohist": part two (all of it / only / all but the hist family)
		c11PartOne(st, maxN, maxV)
	}
	if part != "1" && !r.Expired() {
		c11PartTwo(st)
	}
}

// c11PartOne: runFrostParallel over the harness barrier transport (and, thorough, the complete dkg.Run).
func c11PartOne(st *c11State, maxN, maxV int) {
	r := st.r
	if enumx.Thorough() {
		// Extension: the complete dkg.Run (two independent ceremonies each), same oracle on what the nodes
		// wrote to disk.
		for _, nt := range [][2]int{{3, 2}, {4, 3}} {
			if !r.Mine() {
				continue
			}
			seen := map[tbls.PublicKey]string{}
			for rep := 0; rep < 2 && !r.Expired(); rep++ {
				st.eval(c11Case{N: nt[0], T: nt[1], V: 2, MapRot: -1, Family: "full-dkg", Full: true}, seen)
			}
		}
	}
	// Work units (configuration x half of the order families), most expensive first and in snake order
	// over the shards, so that round-robin sharding is balanced. The list is identical in every shard.
	type unit struct{ n, t, v, half, cost int }
	var units []unit
	for n := 3; n <= maxN; n++ {
		for th := 2; th <= n; th++ {
			for v := 1; v <= maxV; v++ {
				for half := 0; half < 2; half++ {
					cases := len(c11Unit(n, th, v, half))
					units = append(units, unit{n, th, v, half, cases * v * n * n * (2*th + 4)})
				}
			}
		}
	}
	sort.SliceStable(units, func(i, j int) bool { return units[i].cost > units[j].cost })
	if w := r.NSh; w > 1 {
		for b := w; b < len(units); b += 2 * w { // reverse every second band
			e := b + w
			if e > len(units) {
				e = len(units)
			}
			for i, j := b, e-1; i < j; i, j = i+1, j-1 {
				units[i], units[j] = units[j], units[i]
			}
		}
	}
	for _, u := range units {
		if !r.Mine() {
			continue
		}
		if r.Expired() {
			return
		}
		seen := map[tbls.PublicKey]string{} // group keys of this unit's ceremonies
		for _, c := range c11Unit(u.n, u.t, u.v, u.half) {
			if r.Expired() {
				return
			}
			st.eval(c, seen)
		}
	}
}
