package bcast

// C13 – DKG reliable broadcast delivers a payload only if every member signed exactly it; no two members
// deliver different payloads for the same sender and message id.
// Engine statex: breadth-first search over the handler calls a faulty member can make against the real
// servers of the honest members (built with the real New), interleaved with honest broadcasts that run the
// real client code (DESIGN.md §5 C13). A state is reached by replaying its event history on fresh components.

import (
	"context"
	"crypto/sha256"
	"fmt"
	"os"
	"reflect"
	"runtime"
	"sort"
	"strings"
	"sync"
	"testing"
	"unsafe"

	k1 "github.com/decred/dcrd/dcrec/secp256k1/v4"
	"github.com/libp2p/go-libp2p/core/host"
	"github.com/libp2p/go-libp2p/core/network"
	"github.com/libp2p/go-libp2p/core/peer"
	"github.com/libp2p/go-libp2p/core/protocol"
	"google.golang.org/protobuf/proto"
	"google.golang.org/protobuf/types/known/anypb"
	"google.golang.org/protobuf/types/known/timestamppb"

	pb "github.com/obolnetwork/charon/dkg/dkgpb/v1"
	"github.com/obolnetwork/charon/p2p"
	"github.com/obolnetwork/charon/zzverif/enumx"
	"github.com/obolnetwork/charon/zzverif/schedx"
)

type c13host struct {
	host.Host
	id peer.ID
}

func (h c13host) ID() peer.ID { return h.id }
func (h c13host) SetStreamHandlerMatch(protocol.ID, func(protocol.ID) bool, network.StreamHandler) {
}

const (
	c13id  = "msg"
	c13id2 = "msg2"
)

// The two ceremony sessions are RELATED identifiers (the class of C08's related queries): 33 bytes each, equal in their first 32
// bytes (the size of the definition hash that charon uses as session id) and different in the last one, so that a session binding
// that truncates, pads or otherwise narrows the identifier merges them. VERIF_C13_SESSIONS=short restores two unrelated short ids.
var (
	c13sess1 = append([]byte("0123456789abcdef0123456789abcdef"), 0x01)
	c13sess2 = append([]byte("0123456789abcdef0123456789abcdef"), 0x02)
)

func init() {
	if os.Getenv("VERIF_C13_SESSIONS") == "short" {
		c13sess1, c13sess2 = []byte("session-one"), []byte("session-two")
	}
}

type c13deliv struct {
	Recv, Sender int
	ID           string
	Payload      int64
}

type c13sigKey struct {
	Signer  int
	Sess    int
	ID      string
	Payload int64
	For     int // the member at whose request (for whose broadcast) the signature was made
}

// c13event: kind "HB" honest broadcast by member A; "SR" sig request of the faulty member to A for (ID,Payload);
// "MSG" message of the faulty member to A with signature list Sigs (each entry a c13sigKey, or Signer=-1 for junk).
type c13event struct {
	Kind    string      `json:"kind"`
	A       int         `json:"a"`
	ID      string      `json:"id"`
	Payload int64       `json:"payload"`
	Sigs    []c13sigKey `json:"sigs,omitempty"`
	As      int         `json:"as,omitempty"` // SR/MSG are sent under this member's identity (always the faulty one)
}

func (e c13event) String() string {
	switch e.Kind {
	case "HB":
		return fmt.Sprintf("member%d broadcasts payload %d", e.A, e.Payload)
	case "SR":
		return fmt.Sprintf("faulty->member%d sigRequest(%s,%d)", e.A, e.ID, e.Payload)
	}
	var s []string
	for _, k := range e.Sigs {
		s = append(s, fmt.Sprintf("%d/s%d/%s/%d/for%d", k.Signer, k.Sess, k.ID, k.Payload, k.For))
	}
	return fmt.Sprintf("faulty->member%d message(%s,%d,[%s])", e.A, e.ID, e.Payload, strings.Join(s, " "))
}

type c13world struct {
	n       int
	faulty  int
	keys    []*k1.PrivateKey
	peers   []peer.ID
	comps   []*Component
	deliv   []c13deliv
	comps2  []*Component    // the same members in another ceremony session
	ownB    map[string]bool // "member/hashhex": member broadcast that payload itself (it signs locally)
	known   map[c13sigKey][]byte
	didHB   map[int]bool
	rejects int
}

func c13payload(p int64) *timestamppb.Timestamp { return &timestamppb.Timestamp{Seconds: p} }

func c13hash(sess []byte, id string, p int64) []byte {
	a, _ := anypb.New(c13payload(p))
	h, _ := newHashAny(sess)(id, a)
	return h
}

var c13keys []*k1.PrivateKey

func c13newWorld(t *testing.T, n, faulty int) *c13world {
	for len(c13keys) < 8 {
		var b [32]byte
		h := sha256.Sum256([]byte(fmt.Sprintf("c13-key-%d", len(c13keys))))
		copy(b[:], h[:])
		c13keys = append(c13keys, k1.PrivKeyFromBytes(b[:]))
	}
	w := &c13world{n: n, faulty: faulty, keys: c13keys[:n], ownB: map[string]bool{}, known: map[c13sigKey][]byte{}, didHB: map[int]bool{}}
	for _, k := range w.keys {
		id, err := p2p.PeerIDFromKey(k.PubKey())
		if err != nil {
			t.Fatal(err)
		}
		w.peers = append(w.peers, id)
	}
	for i := 0; i < n; i++ {
		i := i
		c := New(c13host{id: w.peers[i]}, w.peers, w.keys[i], c13sess1)
		for _, id := range []string{c13id, c13id2} {
			id := id
			c.RegisterMessageIDFuncs(id,
				func(_ context.Context, pID peer.ID, msgID string, msg proto.Message) error {
					ts, ok := msg.(*timestamppb.Timestamp)
					if !ok {
						return fmt.Errorf("unexpected type")
					}
					sender := -1
					for k, p := range w.peers {
						if p == pID {
							sender = k
						}
					}
					w.deliv = append(w.deliv, c13deliv{Recv: i, Sender: sender, ID: msgID, Payload: ts.GetSeconds()})
					return nil
				},
				func(_ context.Context, _ peer.ID, a *anypb.Any) error {
					if !a.MessageIs(&timestamppb.Timestamp{}) {
						return fmt.Errorf("bad type")
					}
					return nil
				})
		}
		w.comps = append(w.comps, c)
	}
	// What the faulty member can always produce (all obtained through the real code, so that the harness does not
	// depend on what exactly is signed): its own signature for its own broadcasts of any payload/id, and the
	// signatures everybody gave it in another ceremony session.
	ck := fmt.Sprintf("%d/%d", n, faulty)
	if pre, ok := c13preKnown[ck]; ok {
		for k, v := range pre {
			w.known[k] = v
		}
		return w
	}
	noop := func(context.Context, peer.ID, string, proto.Message) error { return nil }
	okMsg := func(context.Context, peer.ID, *anypb.Any) error { return nil }
	for i := 0; i < n; i++ {
		c2 := New(c13host{id: w.peers[i]}, w.peers, w.keys[i], c13sess2)
		c2.RegisterMessageIDFuncs(c13id, noop, okMsg)
		c2.RegisterMessageIDFuncs(c13id2, noop, okMsg)
		w.comps2 = append(w.comps2, c2)
	}
	ask := func(c *Component, id string, p int64) []byte {
		a, _ := anypb.New(c13payload(p))
		// a scratch server with the same real functions: asking must not disturb the dedup state of the member
		srv := &server{msgIDFuncs: c.srv.msgIDFuncs, signFunc: c.srv.signFunc, verifyFunc: c.srv.verifyFunc, hashFunc: c.srv.hashFunc, dedup: map[dedupKey][]byte{}}
		resp, ok, err := srv.handleSigRequest(context.Background(), w.peers[faulty], &pb.BCastSigRequest{Id: id, Message: a})
		if err != nil || !ok {
			t.Fatalf("harness: cannot obtain signature: %v", err)
		}
		return resp.(*pb.BCastSigResponse).GetSignature()
	}
	for _, id := range []string{c13id, c13id2} {
		for _, p := range []int64{1, 2} {
			for sgn := 0; sgn < n; sgn++ {
				w.known[c13sigKey{sgn, 2, id, p, faulty}] = ask(w.comps2[sgn], id, p)
			}
		}
		for _, p := range []int64{1, 2, 10, 11, 12, 13, 14, 15} {
			w.known[c13sigKey{faulty, 1, id, p, faulty}] = ask(w.comps[faulty], id, p)
		}
	}
	pre := map[c13sigKey][]byte{}
	for k, v := range w.known {
		pre[k] = v
	}
	c13preKnown[ck] = pre
	return w
}

// signatures the faulty member holds from the start (deterministic; computed once per configuration)
var c13preKnown = map[string]map[c13sigKey][]byte{}

// honest broadcast: the real client code, with the transport replaced by direct calls into the real handlers.
func (w *c13world) honestBroadcast(h int, payload int64) error {
	c := w.comps[h]
	hashF := newHashAny(c13sess1)
	sign := c.newK1Signer()
	w.ownB[fmt.Sprintf("%d/%x", h, c13hash(c13sess1, c13id, payload))] = true
	sendRecv := func(ctx context.Context, _ host.Host, to peer.ID, req, resp proto.Message, _ protocol.ID, _ ...p2p.SendRecvOption) error {
		ti := w.idx(to)
		// (the faulty member answers honest requests correctly: it wants the broadcast to complete)
		out, ok, err := w.comps[ti].srv.handleSigRequest(ctx, w.peers[h], proto.Clone(req))
		if err != nil {
			return err
		} else if ok {
			proto.Merge(resp, out)
		}
		return nil
	}
	send := func(ctx context.Context, _ host.Host, _ protocol.ID, to peer.ID, msg proto.Message, _ ...p2p.SendRecvOption) error {
		ti := w.idx(to)
		m := msg.(*pb.BCastMessage)
		if ti == w.faulty {
			// the faulty member observes the complete signature set of the honest broadcast
			var ts timestamppb.Timestamp
			_ = m.GetMessage().UnmarshalTo(&ts)
			for s, sig := range m.GetSignatures() {
				w.known[c13sigKey{s, 1, m.GetId(), ts.GetSeconds(), h}] = sig
			}
			return nil
		}
		_, _, err := w.comps[ti].srv.handleMessage(ctx, w.peers[h], proto.Clone(msg))
		return err
	}
	cl := newClient(c13host{id: w.peers[h]}, w.peers, sendRecv, send, hashF, sign, c.newPeerK1Verifier(hashF))
	return cl.Broadcast(context.Background(), c13id, c13payload(payload))
}

func (w *c13world) idx(p peer.ID) int {
	for i, x := range w.peers {
		if x == p {
			return i
		}
	}
	return -1
}

func (w *c13world) apply(e c13event) {
	ctx := context.Background()
	switch e.Kind {
	case "HB":
		if w.didHB[e.A] {
			return
		}
		w.didHB[e.A] = true
		_ = w.honestBroadcast(e.A, e.Payload) // the honest member's payload is fixed per member
	case "SR":
		a, _ := anypb.New(c13payload(e.Payload))
		resp, ok, err := w.comps[e.A].srv.handleSigRequest(ctx, w.peers[w.faulty], &pb.BCastSigRequest{Id: e.ID, Message: a})
		if err != nil || !ok {
			w.rejects++
			return
		}
		w.known[c13sigKey{e.A, 1, e.ID, e.Payload, w.faulty}] = resp.(*pb.BCastSigResponse).GetSignature()
	case "MSG":
		a, _ := anypb.New(c13payload(e.Payload))
		var sigs [][]byte
		for _, k := range e.Sigs {
			if k.Signer < 0 {
				sigs = append(sigs, make([]byte, 65))
				continue
			}
			sigs = append(sigs, w.known[k])
		}
		if _, _, err := w.comps[e.A].srv.handleMessage(ctx, w.peers[w.faulty], &pb.BCastMessage{Id: e.ID, Message: a, Signatures: sigs}); err != nil {
			w.rejects++
		}
	}
}

// key is the canonical dump of the real servers' private state plus what the faulty member knows.
func (w *c13world) key() string {
	var parts []string
	for i, c := range w.comps {
		if i == w.faulty {
			continue
		}
		var d []string
		for k, h := range c.srv.dedup {
			d = append(d, fmt.Sprintf("%d/%s=%x", w.idx(k.PeerID), k.MsgID, h[:4]))
		}
		sort.Strings(d)
		parts = append(parts, fmt.Sprintf("m%d{%s}%s%s", i, strings.Join(d, ","), c13otherState(c.srv), c13compState(c)))
	}
	var dl []string
	for _, d := range w.deliv {
		dl = append(dl, fmt.Sprintf("%d<%d:%s=%d", d.Recv, d.Sender, d.ID, d.Payload))
	}
	sort.Strings(dl)
	var kn []string
	for k := range w.known {
		if k.Sess == 1 && k.Signer != w.faulty {
			kn = append(kn, fmt.Sprintf("%d/%s/%d/%d", k.Signer, k.ID, k.Payload, k.For))
		}
	}
	sort.Strings(kn)
	var hb []string
	for h := range w.didHB {
		hb = append(hb, fmt.Sprint(h))
	}
	sort.Strings(hb)
	return strings.Join(parts, "") + "|D:" + strings.Join(dl, ",") + "|K:" + strings.Join(kn, ",") + "|HB:" + strings.Join(hb, ",")
}

// menu lists the faulty member's possible next actions and the pending honest broadcasts.
func (w *c13world) menu(allPerms bool) []c13event {
	var out []c13event
	payloadsOf := func() []int64 {
		ps := []int64{1, 2}
		for h := range w.didHB {
			ps = append(ps, int64(10+h))
		}
		sort.Slice(ps, func(i, j int) bool { return ps[i] < ps[j] })
		return ps
	}
	for h := 0; h < w.n; h++ {
		if h != w.faulty && !w.didHB[h] {
			out = append(out, c13event{Kind: "HB", A: h, ID: c13id, Payload: int64(10 + h)})
		}
	}
	for m := 0; m < w.n; m++ {
		if m == w.faulty {
			continue
		}
		for _, id := range []string{c13id, c13id2} {
			for _, p := range []int64{1, 2} {
				if id == c13id2 && p == 2 {
					continue
				}
				out = append(out, c13event{Kind: "SR", A: m, ID: id, Payload: p})
			}
		}
		for _, p := range payloadsOf() {
			// the best lists the faulty member can assemble for (msg, p): signatures given to itself (its own
			// broadcast), or a complete set it observed in the broadcast of the honest member whose payload p is (relay)
			fors := []int{w.faulty}
			if p >= 10 {
				fors = append(fors, int(p-10))
			}
			add := func(l []c13sigKey) {
				out = append(out, c13event{Kind: "MSG", A: m, ID: c13id, Payload: p, Sigs: append([]c13sigKey(nil), l...)})
			}
			var base []c13sigKey
			missing := 0
			for fi, f := range fors {
				b := make([]c13sigKey, w.n)
				miss := 0
				for sg := 0; sg < w.n; sg++ {
					k := c13sigKey{sg, 1, c13id, p, f}
					if _, ok := w.known[k]; ok {
						b[sg] = k
					} else {
						b[sg] = c13sigKey{Signer: -1}
						miss++
					}
				}
				if fi == 0 {
					base, missing = b, miss
				}
				if fi == 0 || miss == 0 {
					add(b)
				}
				if fi > 0 && miss == 0 {
					// relayed set with the faulty member's own entry replaced by a signature for itself
					l := append([]c13sigKey(nil), b...)
					l[w.faulty] = c13sigKey{w.faulty, 1, c13id, p, w.faulty}
					add(l)
				}
			}
			// WHOLE lists that are genuine and complete for something else, presented with this payload under this id: the set
			// the members gave for another payload of the same id (after that broadcast was completed: a replay of its
			// signature list with other content), for the same payload under the other id, or in the other session
			for _, alt := range []func(sg int) c13sigKey{
				func(sg int) c13sigKey { return c13sigKey{sg, 1, c13id, 3 - p, w.faulty} },
				func(sg int) c13sigKey { return c13sigKey{sg, 1, c13id2, p, w.faulty} },
				func(sg int) c13sigKey { return c13sigKey{sg, 2, c13id, p, w.faulty} },
				func(sg int) c13sigKey { return c13sigKey{sg, 2, c13id, 3 - p, w.faulty} },
			} {
				if p >= 10 {
					break
				}
				l := make([]c13sigKey, w.n)
				complete := true
				for sg := 0; sg < w.n; sg++ {
					l[sg] = alt(sg)
					if _, ok := w.known[l[sg]]; !ok {
						complete = false
						break
					}
				}
				if complete {
					add(l)
				}
			}
			// substitutions at each position: other session, other id, other payload, another signer's signature,
			// a signature the same signer gave for somebody else's broadcast of the same payload
			for sg := 0; sg < w.n; sg++ {
				subs := []c13sigKey{{sg, 2, c13id, p, w.faulty}, {sg, 1, c13id2, p, w.faulty}, {sg, 1, c13id, 3 - p, w.faulty}, {w.faulty, 1, c13id, p, w.faulty}, {(sg + 1) % w.n, 1, c13id, p, w.faulty}}
				for o := 0; o < w.n; o++ {
					if o != w.faulty {
						subs = append(subs, c13sigKey{sg, 1, c13id, p, o})
					}
				}
				for _, sub := range subs {
					if sub == base[sg] {
						continue
					}
					if _, ok := w.known[sub]; !ok {
						continue
					}
					if missing == 0 || base[sg].Signer < 0 {
						l := append([]c13sigKey(nil), base...)
						l[sg] = sub
						add(l)
					}
				}
			}
			if missing == 0 {
				// permutations / wrong lengths of a complete genuine set
				if allPerms && w.n <= 3 {
					for _, perm := range c13perms(w.n) {
						l := make([]c13sigKey, w.n)
						ident := true
						for i, j := range perm {
							l[i] = base[j]
							ident = ident && i == j
						}
						if !ident {
							add(l)
						}
					}
				} else {
					for i := 0; i+1 < w.n; i++ {
						l := append([]c13sigKey(nil), base...)
						l[i], l[i+1] = l[i+1], l[i]
						add(l)
					}
				}
				add(base[:w.n-1])
				add(append(append([]c13sigKey(nil), base...), base[0]))
			}
		}
	}
	return out
}

func c13perms(n int) [][]int {
	var out [][]int
	var rec func(cur []int, used int)
	rec = func(cur []int, used int) {
		if len(cur) == n {
			out = append(out, append([]int(nil), cur...))
			return
		}
		for i := 0; i < n; i++ {
			if used&(1<<i) == 0 {
				rec(append(cur, i), used|1<<i)
			}
		}
	}
	rec(nil, 0)
	return out
}

type c13viol struct{ sig, desc string }

// c13otherState renders every state-carrying field of a server other than the dedup map (which key() renders itself)
// and the registration tables: empty for the unchanged code, so that states which differ only in state a change added
// to the server are not merged.
func c13otherState(srv *server) string {
	sv := reflect.ValueOf(srv).Elem()
	var out []string
	for i := 0; i < sv.NumField(); i++ {
		name := sv.Type().Field(i).Name
		if name == "dedup" || name == "msgIDFuncs" {
			continue
		}
		f := sv.Field(i)
		f = reflect.NewAt(f.Type(), unsafe.Pointer(f.UnsafeAddr())).Elem()
		switch f.Kind() {
		case reflect.Map:
			var e []string
			it := f.MapRange()
			for it.Next() {
				e = append(e, fmt.Sprintf("%v=%v", it.Key().Interface(), it.Value().Interface()))
			}
			sort.Strings(e)
			out = append(out, name+"{"+strings.Join(e, ",")+"}")
		case reflect.Slice, reflect.Bool, reflect.Int, reflect.Int8, reflect.Int16, reflect.Int32, reflect.Int64, reflect.Uint, reflect.Uint8, reflect.Uint16,
			reflect.Uint32, reflect.Uint64, reflect.String, reflect.Array:
			out = append(out, fmt.Sprintf("%s=%v", name, f.Interface()))
		}
	}
	if len(out) == 0 {
		return ""
	}
	return "+" + strings.Join(out, ";")
}

// c13compState renders the state-carrying fields of the Component itself (other than the allow-list, the peers and the
// server, which is rendered separately): empty for the unchanged code.
func c13compState(c *Component) string {
	sv := reflect.ValueOf(c).Elem()
	var out []string
	for i := 0; i < sv.NumField(); i++ {
		name := sv.Type().Field(i).Name
		if name == "allowedMsgIDs" || name == "peers" || name == "srv" || name == "secret" {
			continue
		}
		f := sv.Field(i)
		f = reflect.NewAt(f.Type(), unsafe.Pointer(f.UnsafeAddr())).Elem()
		if f.Type().PkgPath() == "sync" && f.Type().Name() == "Map" {
			var e []string
			f.Addr().Interface().(*sync.Map).Range(func(k, v any) bool { e = append(e, fmt.Sprintf("%v=%v", k, v)); return true })
			sort.Strings(e)
			out = append(out, name+"{"+strings.Join(e, ",")+"}")
			continue
		}
		switch f.Kind() {
		case reflect.Map:
			var e []string
			it := f.MapRange()
			for it.Next() {
				e = append(e, fmt.Sprintf("%v=%v", it.Key().Interface(), it.Value().Interface()))
			}
			sort.Strings(e)
			out = append(out, name+"{"+strings.Join(e, ",")+"}")
		case reflect.Slice, reflect.Bool, reflect.Int, reflect.Int8, reflect.Int16, reflect.Int32, reflect.Int64, reflect.Uint, reflect.Uint8, reflect.Uint16,
			reflect.Uint32, reflect.Uint64, reflect.String, reflect.Array:
			out = append(out, fmt.Sprintf("%s=%v", name, f.Interface()))
		}
	}
	if len(out) == 0 {
		return ""
	}
	return "+C:" + strings.Join(out, ";")
}

// c13copyState copies the mutable state of a server into a fresh one generically (by reflection over ALL fields, so
// that state a change adds to the server is carried along as well): maps and slices are deep-copied, scalars assigned;
// locks, functions, interfaces, channels and pointers keep the fresh instance's values.
func c13copyState(dst, src *server) {
	dv, sv := reflect.ValueOf(dst).Elem(), reflect.ValueOf(src).Elem()
	for i := 0; i < sv.NumField(); i++ {
		sf, df := sv.Field(i), dv.Field(i)
		sf = reflect.NewAt(sf.Type(), unsafe.Pointer(sf.UnsafeAddr())).Elem()
		df = reflect.NewAt(df.Type(), unsafe.Pointer(df.UnsafeAddr())).Elem()
		switch sf.Kind() {
		case reflect.Map:
			if sf.Type().Elem().Kind() == reflect.Func || sf.Type().Elem().Kind() == reflect.Struct && sf.Type().Elem().NumField() > 0 && sf.Type().Elem().Field(0).Type.Kind() == reflect.Func {
				continue // registration tables (functions): identical in every world
			}
			if sf.IsNil() {
				continue
			}
			m := reflect.MakeMapWithSize(sf.Type(), sf.Len())
			it := sf.MapRange()
			for it.Next() {
				v := it.Value()
				if v.Kind() == reflect.Slice && !v.IsNil() {
					c := reflect.MakeSlice(v.Type(), v.Len(), v.Len())
					reflect.Copy(c, v)
					v = c
				}
				m.SetMapIndex(it.Key(), v)
			}
			df.Set(m)
		case reflect.Slice:
			if !sf.IsNil() {
				c := reflect.MakeSlice(sf.Type(), sf.Len(), sf.Len())
				reflect.Copy(c, sf)
				df.Set(c)
			}
		case reflect.Bool, reflect.Int, reflect.Int8, reflect.Int16, reflect.Int32, reflect.Int64, reflect.Uint, reflect.Uint8, reflect.Uint16,
			reflect.Uint32, reflect.Uint64, reflect.Float32, reflect.Float64, reflect.String, reflect.Array:
			df.Set(sf)
		}
	}
}

// clone copies a world: fresh real components plus a copy of each server's mutable state (the first transitions of
// every run and every 64th later one are cross-checked against a full replay of the history).
func (w *c13world) clone(t *testing.T) *c13world {
	nw := c13newWorld(t, w.n, w.faulty)
	for i := range w.comps {
		c13copyState(nw.comps[i].srv, w.comps[i].srv)
	}
	nw.deliv = append(nw.deliv, w.deliv...)
	for k, v := range w.known {
		nw.known[k] = v
	}
	for k, v := range w.didHB {
		nw.didHB[k] = v
	}
	for k, v := range w.ownB {
		nw.ownB[k] = v
	}
	return nw
}

// memberSigned: did member m sign the payload with this hash for this id in this session? A member signs at a
// peer's request (recorded, per requesting peer and id, in its server's private dedup map) or when it
// broadcasts the payload itself.
func (w *c13world) memberSigned(m int, id string, hash []byte) bool {
	if w.ownB[fmt.Sprintf("%d/%x", m, hash)] {
		return true
	}
	for k, h := range w.comps[m].srv.dedup {
		if k.MsgID == id && string(h) == string(hash) {
			return true
		}
	}
	return false
}

// check is the property statement evaluated on the deliveries made so far.
func (w *c13world) check() []c13viol {
	var out []c13viol
	for _, d := range w.deliv {
		// every member, the receiver included, signed exactly that payload for that id in this session
		h := c13hash(c13sess1, d.ID, d.Payload)
		for m := 0; m < w.n; m++ {
			if m == w.faulty {
				continue
			}
			if !w.memberSigned(m, d.ID, h) {
				out = append(out, c13viol{"kind=delivered-without-every-member-signing",
					fmt.Sprintf("member %d delivered payload %d for id %s from sender %d, but member %d never signed that payload for that id in this session", d.Recv, d.Payload, d.ID, d.Sender, m)})
			}
		}
	}
	for i, a := range w.deliv {
		for _, b := range w.deliv[i+1:] {
			if a.Sender == b.Sender && a.ID == b.ID && a.Payload != b.Payload {
				kind := "kind=two-payloads-delivered-for-one-sender-and-id"
				if a.Sender == w.faulty && (w.didHB[int(a.Payload)-10] || w.didHB[int(b.Payload)-10]) && (a.Payload >= 10 || b.Payload >= 10) {
					kind += " via=relay-of-another-members-signed-payload"
				}
				out = append(out, c13viol{kind, fmt.Sprintf("member %d delivered payload %d and member %d delivered payload %d, both attributed to sender %d and id %s",
					a.Recv, a.Payload, b.Recv, b.Payload, a.Sender, a.ID)})
			}
		}
	}
	return out
}

type c13case struct {
	N      int        `json:"n"`
	Faulty int        `json:"faulty"`
	Events []c13event `json:"events"`
}

func c13replay(t *testing.T, cs c13case) (*c13world, []c13viol) {
	w := c13newWorld(t, cs.N, cs.Faulty)
	for _, e := range cs.Events {
		w.apply(e)
	}
	return w, w.check()
}

// ---- Part B: concurrent signature requests (schedx) -------------------------------------------------------------------

type c13bdata struct {
	w    *c13world
	mu   sync.Mutex        // harness-side record: two request threads may return concurrently when the code under test lets them
	sigs map[string][]byte // "member/payload" -> signature obtained by the faulty member
}

func c13scenarioB(n int) *schedx.Scenario {
	sc := &schedx.Scenario{Name: fmt.Sprintf("concurrent-sig-requests-n%d", n), Params: map[string]any{"n": n}}
	sc.Setup = func(x *schedx.Exec) {
		w := c13newWorld(x.TB, n, 0)
		d := &c13bdata{w: w, sigs: map[string][]byte{}}
		x.Data = d
		for m := 1; m < n; m++ {
			for _, p := range []int64{1, 2} {
				m, p := m, p
				x.Go(fmt.Sprintf("req-m%d-p%d", m, p), func(t *schedx.T) {
					a, _ := anypb.New(c13payload(p))
					resp, ok, err := w.comps[m].srv.handleSigRequest(x.Ctx, w.peers[0], &pb.BCastSigRequest{Id: c13id, Message: a})
					if err == nil && ok {
						d.mu.Lock()
						d.sigs[fmt.Sprintf("%d/%d", m, p)] = resp.(*pb.BCastSigResponse).GetSignature()
						d.mu.Unlock()
					}
					x.Obs("m%d/p%d=%v", m, p, err == nil)
				})
			}
		}
	}
	sc.StateKey = func(x *schedx.Exec) string { return x.Data.(*c13bdata).w.key() }
	sc.Outcome = func(x *schedx.Exec) string {
		var o []string
		for k := range x.Data.(*c13bdata).sigs {
			o = append(o, k)
		}
		sort.Strings(o)
		return strings.Join(o, ",")
	}
	sc.Check = func(x *schedx.Exec) []schedx.Violation {
		d := x.Data.(*c13bdata)
		w := d.w
		// the faulty member now tries to complete a broadcast of payload 1 towards the odd members and of payload 2
		// towards the even members with whatever signatures it obtained
		for m := 1; m < n; m++ {
			p := int64(1 + (m+1)%2)
			var sigs [][]byte
			okAll := true
			for sgn := 0; sgn < n; sgn++ {
				if sgn == 0 {
					sigs = append(sigs, w.known[c13sigKey{0, 1, c13id, p, 0}])
					continue
				}
				sg, ok := d.sigs[fmt.Sprintf("%d/%d", sgn, p)]
				okAll = okAll && ok
				sigs = append(sigs, sg)
			}
			if !okAll {
				continue
			}
			a, _ := anypb.New(c13payload(p))
			_, _, _ = w.comps[m].srv.handleMessage(x.Ctx, w.peers[0], &pb.BCastMessage{Id: c13id, Message: a, Signatures: sigs})
		}
		var out []schedx.Violation
		for _, v := range w.check() {
			out = append(out, schedx.Violation{Signature: "part=B " + v.sig + " via=concurrent-signature-requests", Description: v.desc})
		}
		return out
	}
	return sc
}

func c13partB(t *testing.T, r *enumx.Run) {
	e := schedx.NewExplorer(t, "C13")
	e.Deadline = r.Deadline
	e.Bounds = []int{0, 1, 2}
	if enumx.Thorough() {
		e.Bounds = []int{0, 1, 2, 3}
	}
	scs := []*schedx.Scenario{c13scenarioB(3)}
	if enumx.Thorough() {
		scs = append(scs, c13scenarioB(4))
	}
	e.Explore(scs)
	r.Steps(e.Rep.Transitions)
	for i := 0; i < e.Rep.Executions; i++ {
		r.Eval("")
	}
	r.States(e.NumStates())
	r.Count("partB_executions", e.Rep.Executions)
	r.Count("partB_replay_divergences", e.Rep.ReplayDiverg)
	for _, v := range e.Rep.Violations {
		r.Violation(v.Signature, v.Description, map[string]any{"part": "B", "schedx_replay": v.Replay})
	}
	if !e.Rep.Exhaustive {
		r.NotExhaustive("part B: " + strings.Join(e.Rep.Notes, "; "))
	}
	r.Note(fmt.Sprintf("part B: executions=%d bound_completed=%v", e.Rep.Executions, e.Rep.BoundCompleted))
}

func TestVerifC13(t *testing.T) {
	r := enumx.New(t, "C13")
	defer r.Finish()
	if r.ReplayPath != "" {
		var cs c13case
		if err := r.ReplayCase(&cs); err != nil {
			t.Fatal(err)
		}
		w, v := c13replay(t, cs)
		for _, e := range cs.Events {
			fmt.Println("  ", e)
		}
		fmt.Printf("deliveries: %+v\nviolations: %v\n", w.deliv, v)
		r.Eval("replay")
		for _, x := range v {
			r.Violation(x.sig, x.desc, cs)
		}
		return
	}
	type cfg struct{ n, faulty, depth, capSt int }
	cfgs := []cfg{{3, 0, 6, 60000}, {3, 2, 6, 60000}, {4, 1, 5, 60000}}
	if enumx.Thorough() {
		cfgs = []cfg{{3, 0, 9, 1500000}, {3, 1, 9, 1500000}, {3, 2, 9, 1500000}, {4, 0, 7, 1500000}, {4, 1, 7, 1500000}, {4, 3, 7, 1500000}, {5, 2, 6, 1500000}, {6, 3, 5, 1500000}}
	}
	for _, c := range cfgs {
		if !r.Mine() {
			continue
		}
		type node struct {
			parent int32
			ev     c13event
			depth  int
		}
		nodes := []node{{parent: -1}}
		worlds := map[int32]*c13world{}
		xchecks := 0
		seen := map[string]bool{}
		hist := func(i int32) []c13event {
			var h []c13event
			for j := i; j > 0; j = nodes[j].parent {
				h = append([]c13event{nodes[j].ev}, h...)
			}
			return h
		}
		w0 := c13newWorld(t, c.n, c.faulty)
		seen[w0.key()] = true
		worlds[0] = w0
		frontier := []int32{0}
		trans, delivered, capped := 0, 0, false
		type succ struct {
			ev       c13event
			cs       c13case
			w2       *c13world
			viol     []c13viol
			key      string
			mismatch bool
		}
		// expand computes every successor of one node. Successors are computed by replaying the WHOLE history on fresh
		// real components: state a change keeps anywhere (component fields, closures of the verifier, ...) is carried
		// along truthfully, which a field-wise copy of the servers cannot guarantee (the independent change C13/b of
		// round four kept a memo on the Component, outside the server the copy knew about). The field-wise clone stays
		// as a cross-check on the first successors of every node. Worlds are independent, so nodes expand in parallel.
		expand := func(ni int32, w *c13world, xcheck bool) []succ {
			h := hist(ni)
			var out []succ
			for k, ev := range w.menu(true) {
				cs := c13case{c.n, c.faulty, append(append([]c13event(nil), h...), ev)}
				w2, viol := c13replay(t, cs)
				sc := succ{ev: ev, cs: cs, w2: w2, viol: viol, key: w2.key()}
				if xcheck && k < 2 {
					w3 := w.clone(t)
					w3.apply(ev)
					sc.mismatch = w3.key() != sc.key
				}
				out = append(out, sc)
			}
			return out
		}
		workers := runtime.GOMAXPROCS(0)
	bfs:
		for len(frontier) > 0 {
			var next []int32
			for lo := 0; lo < len(frontier); lo += 4 * workers {
				hi := min(lo+4*workers, len(frontier))
				if r.Expired() || len(nodes) >= c.capSt {
					capped = true
					break bfs
				}
				chunk := frontier[lo:hi]
				res := make([][]succ, len(chunk))
				var wg sync.WaitGroup
				sem := make(chan struct{}, workers)
				for ci, ni := range chunk {
					if nodes[ni].depth >= c.depth {
						continue
					}
					w := worlds[ni]
					delete(worlds, ni)
					wg.Add(1)
					sem <- struct{}{}
					go func(ci int, ni int32, w *c13world, xc bool) {
						defer wg.Done()
						defer func() { <-sem }()
						res[ci] = expand(ni, w, xc)
					}(ci, ni, w, xchecks < 300 || int(ni)%16 == 0)
					xchecks++
				}
				wg.Wait()
				for ci, ni := range chunk {
					for _, sc := range res[ci] {
						cs, w2, viol := sc.cs, sc.w2, sc.viol
						if sc.mismatch {
							r.Note("HARNESS: clone+apply differs from replay for " + fmt.Sprint(cs.Events))
							r.Count("clone_mismatch", 1)
						}
						trans++
						r.Steps(1)
						for _, v := range viol {
							// confirm: identical verdict on 3 further replays
							ok := true
							for k := 0; k < 3; k++ {
								_, v2 := c13replay(t, cs)
								f := false
								for _, y := range v2 {
									f = f || y.sig == v.sig
								}
								ok = ok && f
							}
							if !ok {
								r.Unconfirmed(v.sig)
								continue
							}
							var tr []string
							for _, e := range cs.Events {
								tr = append(tr, e.String())
							}
							r.Violation(fmt.Sprintf("%s n=%d", v.sig, c.n), fmt.Sprintf("%s [n=%d faulty=%d trace: %s]", v.desc, c.n, c.faulty, strings.Join(tr, " | ")), cs)
						}
						k := sc.key
						if seen[k] {
							continue
						}
						seen[k] = true
						if len(w2.deliv) > 0 {
							delivered++
						}
						if len(viol) > 0 {
							continue // do not expand beyond a violating state
						}
						nodes = append(nodes, node{parent: ni, ev: sc.ev, depth: nodes[ni].depth + 1})
						next = append(next, int32(len(nodes)-1))
						worlds[int32(len(nodes)-1)] = w2
					}
				}
			}
			frontier = next
		}
		if capped {
			r.NotExhaustive(fmt.Sprintf("n=%d faulty=%d: capped at %d states", c.n, c.faulty, len(nodes)))
		}
		r.States(len(seen))
		for i := 0; i < len(seen); i++ {
			r.Eval("")
		}
		r.Count("states_with_a_delivery", delivered)
		r.Outcome(fmt.Sprintf("n=%d:delivered-states=%d", c.n, delivered))
		r.Note(fmt.Sprintf("n=%d faulty=%d depth<=%d: states=%d transitions=%d states_with_delivery=%d capped=%v", c.n, c.faulty, c.depth, len(seen), trans, delivered, capped))
		if len(nodes) > 1 {
			var tr []string
			for _, e := range hist(int32(len(nodes) - 1)) {
				tr = append(tr, e.String())
			}
			r.Sample(map[string]any{"n": c.n, "faulty": c.faulty, "trace": tr})
		}
	}
	c13partB(t, r)
}
