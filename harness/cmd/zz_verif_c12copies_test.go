package cmd

// C12 part (c) – several copies of one artifact as input (run from c12aRunCase in zz_verif_c12_test.go, i.e. inside
// TestVerifC12a, on every cluster that the real `charon create cluster` wrote).
//
// `charon combine` reads one cluster-lock.json PER node directory and one key share per node and validator. Part (a)
// only ever hands it identical copies and genuine shares. Here the real combine.Combine (verification enabled, as the
// command runs by default) gets
//
//   - the node directories with exactly ONE lock copy edited in raw JSON - the stored config_hash / definition_hash /
//     lock_hash, signature_aggregate and node_signatures are left as they are (except for the two edits that alter just
//     those) - at EVERY position of the (sorted) directory list, and, as a control, the same edit in ALL directories, for
//     9 edits: name, threshold, fee recipient of validator 0, the first two public shares of validator 0 exchanged,
//     validator 0's public key (replaced by its first public share, a valid key), builder-registration gas limit, last
//     validator removed, stored lock_hash, signature_aggregate;
//   - controls: all copies re-indented, all copies re-encoded through a generic JSON tree (other member order) - equal
//     content in every directory;
//   - ONE bad key share at every position: validator 0's share of that directory replaced by a foreign key, by a copy of
//     the next directory's share, or (two validators) exchanged with the directory's share of the other validator.
//
// Sets of directories: all n; thorough tier additionally the first threshold-size subset (nodes 0..t-1).
//
// Oracle (the statement: a changed hashed or signed field makes verification fail; recombining yields the private key of
// the lock's validator public key): with an altered lock copy - one or all - Combine must return an error; with equal
// re-formatted copies it must succeed and write the lock's keys; with a bad share it must return an error or write the
// private keys of the lock's validator public keys (n-1 good shares can be enough) - never another key.

import (
	"bytes"
	"context"
	"encoding/json"
	"fmt"
	"os"
	"path/filepath"
	"reflect"
	"strconv"
	"testing"

	"github.com/obolnetwork/charon/cluster"
	"github.com/obolnetwork/charon/cmd/combine"
	"github.com/obolnetwork/charon/eth2util"
	"github.com/obolnetwork/charon/eth2util/keystore"
	"github.com/obolnetwork/charon/tbls"
	"github.com/obolnetwork/charon/zzverif/enumx"
)

type c12cEdit struct {
	name  string
	apply func(tree map[string]any) error
}

func c12cObj(v any, what string) (map[string]any, error) {
	m, ok := v.(map[string]any)
	if !ok {
		return nil, fmt.Errorf("lock layout: %s is not an object", what)
	}
	return m, nil
}

func c12cArr(v any, what string) ([]any, error) {
	a, ok := v.([]any)
	if !ok || len(a) == 0 {
		return nil, fmt.Errorf("lock layout: %s is not a non-empty array", what)
	}
	return a, nil
}

// c12cFlipLastHex changes the last character of a hex string into another hex digit.
func c12cFlipLastHex(v any, what string) (string, error) {
	s, ok := v.(string)
	if !ok || len(s) < 3 {
		return "", fmt.Errorf("lock layout: %s is not a hex string", what)
	}
	c := s[len(s)-1]
	n := byte('1')
	if c == '1' {
		n = '2'
	}
	return s[:len(s)-1] + string(n), nil
}

func c12cVal0(tree map[string]any) (map[string]any, error) {
	vals, err := c12cArr(tree["distributed_validators"], "distributed_validators")
	if err != nil {
		return nil, err
	}
	return c12cObj(vals[0], "distributed_validators[0]")
}

func c12cEdits() []c12cEdit {
	def := func(tree map[string]any) (map[string]any, error) {
		return c12cObj(tree["cluster_definition"], "cluster_definition")
	}
	return []c12cEdit{
		{"name", func(tree map[string]any) error {
			d, err := def(tree)
			if err != nil {
				return err
			}
			s, ok := d["name"].(string)
			if !ok {
				return fmt.Errorf("lock layout: name")
			}
			d["name"] = s + "x"
			return nil
		}},
		{"threshold", func(tree map[string]any) error {
			d, err := def(tree)
			if err != nil {
				return err
			}
			num, ok := d["threshold"].(json.Number)
			if !ok {
				return fmt.Errorf("lock layout: threshold")
			}
			t, err := strconv.Atoi(string(num))
			if err != nil {
				return err
			}
			nt := t - 1 // a lower threshold (what an attacker would want); 2 -> 3 keeps it a threshold at all
			if nt < 2 {
				nt = t + 1
			}
			d["threshold"] = json.Number(strconv.Itoa(nt))
			return nil
		}},
		{"fee-recipient", func(tree map[string]any) error {
			d, err := def(tree)
			if err != nil {
				return err
			}
			vs, err := c12cArr(d["validators"], "cluster_definition.validators")
			if err != nil {
				return err
			}
			v0, err := c12cObj(vs[0], "cluster_definition.validators[0]")
			if err != nil {
				return err
			}
			s, err := c12cFlipLastHex(v0["fee_recipient_address"], "fee_recipient_address")
			if err != nil {
				return err
			}
			v0["fee_recipient_address"] = s
			return nil
		}},
		{"public-shares-swapped", func(tree map[string]any) error {
			v0, err := c12cVal0(tree)
			if err != nil {
				return err
			}
			ps, err := c12cArr(v0["public_shares"], "public_shares")
			if err != nil || len(ps) < 2 {
				return fmt.Errorf("lock layout: public_shares")
			}
			ps[0], ps[1] = ps[1], ps[0]
			return nil
		}},
		{"validator-public-key", func(tree map[string]any) error {
			v0, err := c12cVal0(tree)
			if err != nil {
				return err
			}
			ps, err := c12cArr(v0["public_shares"], "public_shares")
			if err != nil {
				return err
			}
			v0["distributed_public_key"] = ps[0]
			return nil
		}},
		{"registration-gas-limit", func(tree map[string]any) error {
			v0, err := c12cVal0(tree)
			if err != nil {
				return err
			}
			reg, err := c12cObj(v0["builder_registration"], "builder_registration")
			if err != nil {
				return err
			}
			msg, err := c12cObj(reg["message"], "builder_registration.message")
			if err != nil {
				return err
			}
			num, ok := msg["gas_limit"].(json.Number)
			if !ok {
				return fmt.Errorf("lock layout: gas_limit")
			}
			g, err := strconv.Atoi(string(num))
			if err != nil {
				return err
			}
			msg["gas_limit"] = json.Number(strconv.Itoa(g + 1))
			return nil
		}},
		{"last-validator-removed", func(tree map[string]any) error {
			vals, err := c12cArr(tree["distributed_validators"], "distributed_validators")
			if err != nil {
				return err
			}
			tree["distributed_validators"] = vals[:len(vals)-1]
			return nil
		}},
		{"lock-hash", func(tree map[string]any) error {
			s, err := c12cFlipLastHex(tree["lock_hash"], "lock_hash")
			if err != nil {
				return err
			}
			tree["lock_hash"] = s
			return nil
		}},
		{"signature-aggregate", func(tree map[string]any) error {
			s, err := c12cFlipLastHex(tree["signature_aggregate"], "signature_aggregate")
			if err != nil {
				return err
			}
			tree["signature_aggregate"] = s
			return nil
		}},
	}
}

func c12cParse(b []byte) (map[string]any, error) {
	dec := json.NewDecoder(bytes.NewReader(b))
	dec.UseNumber()
	var tree map[string]any
	if err := dec.Decode(&tree); err != nil {
		return nil, err
	}
	return tree, nil
}

// c12cStage builds a combine input directory: the given node directories with lockBytes as (regular, never linked) lock file
// and links to the genuine key shares.
func c12cStage(clusterDir, dst string, nodes []int, lockBytes []byte) error {
	for _, i := range nodes {
		nd := filepath.Join(dst, fmt.Sprintf("node%d", i))
		if err := os.MkdirAll(nd, 0o755); err != nil {
			return err
		}
		if err := os.WriteFile(filepath.Join(nd, "cluster-lock.json"), lockBytes, 0o600); err != nil {
			return err
		}
		if err := c12cLinkKeys(clusterDir, dst, i); err != nil {
			return err
		}
	}
	return nil
}

func c12cLinkKeys(clusterDir, dst string, i int) error {
	src := filepath.Join(nodeDir(clusterDir, i), "validator_keys")
	vk := filepath.Join(dst, fmt.Sprintf("node%d", i), "validator_keys")
	if err := os.RemoveAll(vk); err != nil {
		return err
	}
	if err := os.MkdirAll(vk, 0o755); err != nil {
		return err
	}
	files, err := os.ReadDir(src)
	if err != nil {
		return err
	}
	for _, f := range files {
		if err := c12aCopyFile(filepath.Join(src, f.Name()), filepath.Join(vk, f.Name())); err != nil {
			return err
		}
	}
	return nil
}

func c12cSetLock(dst string, i int, b []byte) error {
	p := filepath.Join(dst, fmt.Sprintf("node%d", i), "cluster-lock.json")
	if err := os.Remove(p); err != nil {
		return err
	}
	return os.WriteFile(p, b, 0o600)
}

func c12cPos(idx, n int) string {
	switch {
	case idx < 0:
		return "all"
	case idx == 0:
		return "first"
	case idx == n-1:
		return "last"
	}
	return "inner"
}

// c12cCopies runs part (c) on one created cluster. Violations are appended to viols (confirmed by the caller, which re-runs
// the whole case three times with fresh keys); a harness problem is returned as error and never judged.
func c12cCopies(t *testing.T, ctx context.Context, dir, clusterDir string, c c12aCase, lock cluster.Lock, lockBytes []byte,
	shares [][]tbls.PrivateKey, viols *[]c12viol, st *c12aStats,
) error {
	if st.cnt == nil {
		st.cnt = map[string]int{}
	}
	n, thr, nv := len(lock.Operators), lock.Threshold, len(lock.Validators)
	bad := func(sig, f string, a ...any) {
		*viols = append(*viols, c12viol{"part=c " + sig, fmt.Sprintf("[%s] ", c) + fmt.Sprintf(f, a...)})
	}
	type set struct {
		name  string
		nodes []int
	}
	all := make([]int, n)
	for i := range all {
		all[i] = i
	}
	sets := []set{{"full", all}}
	if enumx.Thorough() && thr < n {
		sets = append(sets, set{"first-t", all[:thr]})
	}
	// the altered copies
	type altered struct {
		name string
		b    []byte
	}
	var alts []altered
	var origCanon cluster.Lock
	if err := json.Unmarshal(lockBytes, &origCanon); err != nil {
		return err
	}
	for _, e := range c12cEdits() {
		tree, err := c12cParse(lockBytes)
		if err != nil {
			return err
		}
		if err := e.apply(tree); err != nil {
			return fmt.Errorf("edit %s: %w", e.name, err)
		}
		b, err := json.Marshal(tree)
		if err != nil {
			return err
		}
		var l cluster.Lock
		if err := json.Unmarshal(b, &l); err == nil {
			if reflect.DeepEqual(origCanon, l) { // (Lock.MarshalJSON recomputes hashes, so the decoded values are compared)
				return fmt.Errorf("edit %s does not change the decoded lock", e.name)
			}
			st.cnt["copies_edits_decoding_to_a_different_lock"]++
		} else {
			st.cnt["copies_edits_not_decodable"]++
		}
		alts = append(alts, altered{e.name, b})
	}
	var indented bytes.Buffer
	if err := json.Indent(&indented, lockBytes, "", "      "); err != nil {
		return err
	}
	tree, err := c12cParse(lockBytes)
	if err != nil {
		return err
	}
	reencoded, err := json.Marshal(tree)
	if err != nil {
		return err
	}
	if bytes.Equal(reencoded, lockBytes) || bytes.Equal(indented.Bytes(), lockBytes) {
		return fmt.Errorf("controls do not differ from the written file")
	}

	run := 0
	combineOn := func(in string) (error, string) {
		run++
		out := filepath.Join(dir, fmt.Sprintf("copies-out%d", run))
		defer os.RemoveAll(out)
		err := func() (err error) {
			// a panic inside the code under test must not end the shard (everything judged so far would be lost): like in part (b)
			// it is counted as a rejection - nothing was written - and noted
			defer func() {
				if p := recover(); p != nil {
					st.cnt["copies_combine_panicked_counted_as_rejected"]++
					err = fmt.Errorf("panic in combine.Combine: %v", p)
				}
			}()
			return combine.Combine(ctx, in, out, false, false, "", eth2util.Network{}, combine.WithInsecureKeysForT(t))
		}()
		if err != nil {
			return err, ""
		}
		return nil, c12aCheckCombined(out, lock)
	}

	for _, s := range sets {
		in := filepath.Join(dir, "copies-in-"+s.name)
		if err := c12cStage(clusterDir, in, s.nodes, lockBytes); err != nil {
			return err
		}
		// sanity of the staging itself: untouched copies combine (otherwise nothing below says anything)
		if err, why := combineOn(in); err != nil || why != "" {
			os.RemoveAll(in)
			return fmt.Errorf("staged genuine copies do not combine (set %s): %v %s", s.name, err, why)
		}
		// ---- controls: equal content in every directory, other formatting ----
		for _, ctl := range []altered{{"re-indented", indented.Bytes()}, {"re-encoded", reencoded}} {
			for _, i := range s.nodes {
				if err := c12cSetLock(in, i, ctl.b); err != nil {
					return err
				}
			}
			st.evalKeys = append(st.evalKeys, fmt.Sprintf("copies set=%s control=%s", s.name, ctl.name))
			if err, why := combineOn(in); err != nil {
				bad("kind=equal-copies-not-combined control="+ctl.name+" set="+s.name, "combine of nodes %v fails although every directory holds the same %s lock file: %v", s.nodes, ctl.name, err)
			} else if why != "" {
				bad("kind=equal-copies-wrong-key control="+ctl.name+" set="+s.name, "combine of nodes %v with %s lock files: %s", s.nodes, ctl.name, why)
			} else {
				st.cnt["copies_controls_combined"]++
			}
		}
		for _, i := range s.nodes {
			if err := c12cSetLock(in, i, lockBytes); err != nil {
				return err
			}
		}
		// ---- one altered lock copy at every position, and in all directories ----
		for _, a := range alts {
			for idx := -1; idx < len(s.nodes); idx++ {
				targets := s.nodes
				if idx >= 0 {
					targets = []int{s.nodes[idx]}
				}
				for _, i := range targets {
					if err := c12cSetLock(in, i, a.b); err != nil {
						return err
					}
				}
				pos := c12cPos(idx, len(s.nodes))
				st.evalKeys = append(st.evalKeys, fmt.Sprintf("copies set=%s edit=%s at=%d", s.name, a.name, idx))
				err, why := combineOn(in)
				if err != nil {
					st.cnt["copies_altered_lock_rejected"]++
					st.cnt["copies_altered_lock_rejected:"+pos]++
				} else {
					where := fmt.Sprintf("directory %d of %d (node%d)", idx+1, len(s.nodes), targets[0])
					if idx < 0 {
						where = fmt.Sprintf("all %d directories", len(s.nodes))
					}
					keys := "it wrote the keys of the genuine lock"
					if why != "" {
						keys = why
					}
					bad(fmt.Sprintf("kind=altered-lock-copy-accepted edit=%s pos=%s set=%s", a.name, pos, s.name),
						"combine (verification enabled) of nodes %v succeeds although the lock file in %s has an altered %s (stored hashes and signatures untouched): %s",
						s.nodes, where, a.name, keys)
				}
				for _, i := range targets {
					if err := c12cSetLock(in, i, lockBytes); err != nil {
						return err
					}
				}
			}
		}
		// ---- one bad key share at every position ----
		for idx, i := range s.nodes {
			if shares[i] == nil || len(shares[i]) != nv {
				continue
			}
			next := s.nodes[(idx+1)%len(s.nodes)]
			type shareEdit struct {
				name string
				mk   func() ([]tbls.PrivateKey, error)
			}
			edits := []shareEdit{
				{"foreign-key", func() ([]tbls.PrivateKey, error) {
					sk, err := tbls.GenerateSecretKey()
					return append([]tbls.PrivateKey{sk}, shares[i][1:]...), err
				}},
				{"copy-of-next-directory", func() ([]tbls.PrivateKey, error) {
					if shares[next] == nil || next == i {
						return nil, nil
					}
					return append([]tbls.PrivateKey{shares[next][0]}, shares[i][1:]...), nil
				}},
			}
			if nv >= 2 {
				edits = append(edits, shareEdit{"share-of-the-other-validator", func() ([]tbls.PrivateKey, error) {
					o := append([]tbls.PrivateKey(nil), shares[i]...)
					o[0], o[1] = o[1], o[0]
					return o, nil
				}})
			}
			for _, e := range edits {
				secrets, err := e.mk()
				if err != nil {
					return err
				}
				if secrets == nil {
					continue
				}
				vk := filepath.Join(in, fmt.Sprintf("node%d", i), "validator_keys")
				if err := os.RemoveAll(vk); err != nil {
					return err
				}
				if err := os.MkdirAll(vk, 0o755); err != nil {
					return err
				}
				if err := keystore.StoreKeysInsecure(secrets, vk, keystore.ConfirmInsecureKeys); err != nil {
					return err
				}
				pos := c12cPos(idx, len(s.nodes))
				st.evalKeys = append(st.evalKeys, fmt.Sprintf("copies set=%s share=%s at=%d", s.name, e.name, idx))
				cerr, why := combineOn(in)
				switch {
				case cerr != nil:
					st.cnt["copies_bad_share_rejected"]++
					st.cnt["copies_bad_share_rejected:"+e.name]++
				case why == "":
					st.cnt["copies_bad_share_lock_keys_written_anyway"]++
					st.cnt["copies_bad_share_lock_keys_written_anyway:"+e.name]++
				default:
					bad(fmt.Sprintf("kind=bad-share-wrong-key-written share=%s pos=%s set=%s", e.name, pos, s.name),
						"combine of nodes %v succeeds with validator 0's key share in directory %d of %d (node%d) replaced (%s) and does not write the lock's keys: %s",
						s.nodes, idx+1, len(s.nodes), i, e.name, why)
				}
				if err := c12cLinkKeys(clusterDir, in, i); err != nil {
					return err
				}
			}
		}
		os.RemoveAll(in)
	}
	st.cnt["copies_combines_run"] += run
	return nil
}
