package cmd

// C12 part (a) – everything written by `charon create cluster` is mutually consistent.
//
// The real runCreateCluster is driven into a temp dir for every configuration of an explicit product
// (nodes x threshold x validators x network x deposit amounts [x compounding x split-existing-keys]); the
// files on disk are then judged by relations taken from the property statement:
//   - every node's cluster-lock.json decodes, passes VerifyHashes + VerifySignatures, and survives
//     decode->encode->decode with unchanged hashes;
//   - the key share in node{i}/validator_keys/keystore-*-{v}.json is the secret of lock.Validators[v].PubShares[i];
//   - deposit-data*.json of every node verify (signature, roots, fork version, withdrawal credentials) for the
//     lock's validator keys and for every deposit amount of the lock, and agree with the lock's deposit data;
//   - the builder registration of every validator verifies for the validator key / fee recipient of the lock;
//   - the real combine.Combine, run on a directory holding exactly a size-t subset of the node directories
//     (all subsets for n <= 5, the n cyclic windows above, plus the full set), succeeds and writes the private
//     keys of the lock's validator public keys; the same holds for tbls.RecoverSecret on the subset's shares;
//   - whenever Combine succeeds, its output keys belong to the validator public keys of the lock it was given
//     (checked with a lock whose group keys were exchanged, loaded with --no-verify).
// Key material is random per run; every relation holds for any keys. Part (b) lives in package cluster.

import (
	"context"
	"encoding/hex"
	"encoding/json"
	"fmt"
	"io"
	"os"
	"path/filepath"
	"sort"
	"strings"
	"testing"

	eth2p0 "github.com/attestantio/go-eth2-client/spec/phase0"

	"github.com/obolnetwork/charon/cluster"
	"github.com/obolnetwork/charon/cmd/combine"
	"github.com/obolnetwork/charon/eth2util"
	"github.com/obolnetwork/charon/eth2util/deposit"
	"github.com/obolnetwork/charon/eth2util/keystore"
	"github.com/obolnetwork/charon/eth2util/registration"
	"github.com/obolnetwork/charon/tbls"
	"github.com/obolnetwork/charon/tbls/tblsconv"
	"github.com/obolnetwork/charon/zzverif/enumx"
)

type c12aCase struct {
	Part        string `json:"part"`
	N           int    `json:"nodes"`
	Threshold   int    `json:"threshold"` // 0 = default ceil(2n/3)
	NumDVs      int    `json:"validators"`
	Network     string `json:"network"`
	Deposits    []int  `json:"deposit_amounts_eth"` // nil = default
	Compounding bool   `json:"compounding"`
	Split       bool   `json:"split_existing_keys"`
}

func (c c12aCase) String() string {
	dep := "default"
	if len(c.Deposits) > 0 {
		var p []string
		for _, d := range c.Deposits {
			p = append(p, fmt.Sprint(d))
		}
		dep = strings.Join(p, "+")
	}
	thr := "default"
	if c.Threshold > 0 {
		thr = fmt.Sprint(c.Threshold)
	}
	s := fmt.Sprintf("n=%d t=%s v=%d net=%s dep=%s", c.N, thr, c.NumDVs, c.Network, dep)
	if c.Compounding {
		s += " compounding"
	}
	if c.Split {
		s += " split"
	}
	return s
}

type c12viol struct{ sig, desc string }

type c12aStats struct {
	locks, keyshares, deposits, regs, combines, direct, foreignRejected, roundtrips int
	createErr                                                                       error
	evalKeys                                                                        []string
	cnt                                                                             map[string]int // part (c) counters
}

func c12aAddr(kind byte, v int) string {
	return fmt.Sprintf("0x%02x%032x%06x", kind, 0, 0xa001+v)
}

func c12aSubsets(n, t int) [][]int {
	var out [][]int
	if t >= n {
		all := make([]int, n)
		for i := range all {
			all[i] = i
		}
		return [][]int{all}
	}
	if n <= 5 {
		var rec func(start int, cur []int)
		rec = func(start int, cur []int) {
			if len(cur) == t {
				out = append(out, append([]int(nil), cur...))
				return
			}
			for i := start; i < n; i++ {
				rec(i+1, append(cur, i))
			}
		}
		rec(0, nil)
	} else {
		for s := 0; s < n; s++ {
			var cur []int
			for j := 0; j < t; j++ {
				cur = append(cur, (s+j)%n)
			}
			sort.Ints(cur)
			out = append(out, cur)
		}
	}
	all := make([]int, n)
	for i := range all {
		all[i] = i
	}
	return append(out, all)
}

func c12aCopyFile(src, dst string) error {
	if err := os.Link(src, dst); err == nil {
		return nil
	}
	b, err := os.ReadFile(src)
	if err != nil {
		return err
	}
	return os.WriteFile(dst, b, 0o600)
}

// c12aStage builds a combine input directory holding the given node directories (lock + validator_keys).
// lockOverride, if non-nil, replaces the lock file content.
func c12aStage(clusterDir, dst string, nodes []int, lockOverride []byte) error {
	for _, i := range nodes {
		src := nodeDir(clusterDir, i)
		nd := filepath.Join(dst, fmt.Sprintf("node%d", i))
		if err := os.MkdirAll(filepath.Join(nd, "validator_keys"), 0o755); err != nil {
			return err
		}
		if lockOverride != nil {
			if err := os.WriteFile(filepath.Join(nd, "cluster-lock.json"), lockOverride, 0o600); err != nil {
				return err
			}
		} else if err := c12aCopyFile(filepath.Join(src, "cluster-lock.json"), filepath.Join(nd, "cluster-lock.json")); err != nil {
			return err
		}
		files, err := os.ReadDir(filepath.Join(src, "validator_keys"))
		if err != nil {
			return err
		}
		for _, f := range files {
			if err := c12aCopyFile(filepath.Join(src, "validator_keys", f.Name()), filepath.Join(nd, "validator_keys", f.Name())); err != nil {
				return err
			}
		}
	}
	return nil
}

func c12aLoadKeys(dir string) ([]tbls.PrivateKey, error) {
	files, err := keystore.LoadFilesUnordered(dir)
	if err != nil {
		return nil, err
	}
	return files.SequencedKeys()
}

func c12aPub(sk tbls.PrivateKey) string {
	pk, err := tbls.SecretToPublicKey(sk)
	if err != nil {
		return "err:" + err.Error()
	}
	return hex.EncodeToString(pk[:])
}

// c12aRunCase creates one cluster and judges everything that was written. harnessErr != nil means the
// harness could not do its job (never a violation).
func c12aRunCase(t *testing.T, base string, c c12aCase) (viols []c12viol, st c12aStats, harnessErr error) {
	bad := func(sig, f string, a ...any) {
		viols = append(viols, c12viol{"part=a " + sig, fmt.Sprintf("[%s] ", c) + fmt.Sprintf(f, a...)})
	}
	ctx := context.Background()
	dir, err := os.MkdirTemp(base, "cluster")
	if err != nil {
		return nil, st, err
	}
	defer os.RemoveAll(dir)
	clusterDir := filepath.Join(dir, "out")

	conf := clusterConfig{
		Name:           "c12",
		ClusterDir:     clusterDir,
		NumNodes:       c.N,
		Threshold:      c.Threshold,
		NumDVs:         c.NumDVs,
		Network:        c.Network,
		DepositAmounts: c.Deposits,
		Compounding:    c.Compounding,
		InsecureKeys:   true,
		TargetGasLimit: 36000000,
	}
	for v := 0; v < c.NumDVs; v++ {
		conf.FeeRecipientAddrs = append(conf.FeeRecipientAddrs, c12aAddr(0xfe, v))
		conf.WithdrawalAddrs = append(conf.WithdrawalAddrs, c12aAddr(0xdd, v))
	}
	if c.Split {
		splitDir := filepath.Join(dir, "split")
		if err := os.MkdirAll(splitDir, 0o755); err != nil {
			return nil, st, err
		}
		var secrets []tbls.PrivateKey
		for v := 0; v < c.NumDVs; v++ {
			sk, err := tbls.GenerateSecretKey()
			if err != nil {
				return nil, st, err
			}
			secrets = append(secrets, sk)
		}
		if err := keystore.StoreKeysInsecure(secrets, splitDir, keystore.ConfirmInsecureKeys); err != nil {
			return nil, st, err
		}
		conf.SplitKeys, conf.SplitKeysDir, conf.NumDVs = true, splitDir, 0
	}

	if err := runCreateCluster(ctx, io.Discard, conf); err != nil {
		st.createErr = err
		return nil, st, nil
	}

	// ---- lock of every node --------------------------------------------------------------------------
	var lock cluster.Lock
	var lockBytes []byte
	for i := 0; i < c.N; i++ {
		b, err := os.ReadFile(filepath.Join(nodeDir(clusterDir, i), "cluster-lock.json"))
		if err != nil {
			bad("kind=lock-missing", "node%d has no cluster-lock.json: %v", i, err)
			return viols, st, nil
		}
		var l cluster.Lock
		if err := json.Unmarshal(b, &l); err != nil {
			bad("kind=lock-verify-failed stage=decode", "node%d lock does not decode: %v", i, err)
			return viols, st, nil
		}
		if err := l.VerifyHashes(); err != nil {
			bad("kind=lock-verify-failed stage=hashes", "node%d lock fails VerifyHashes: %v", i, err)
		} else if err := l.VerifySignatures(nil); err != nil {
			bad("kind=lock-verify-failed stage=signatures", "node%d lock fails VerifySignatures: %v", i, err)
		} else {
			st.locks++
		}
		if i == 0 {
			lock, lockBytes = l, b
		} else if string(b) != string(lockBytes) {
			bad("kind=lock-differs-between-nodes", "node%d has a different cluster-lock.json than node0", i)
		}
	}
	st.evalKeys = append(st.evalKeys, "lock")
	if len(viols) > 0 {
		return viols, st, nil
	}
	// decode -> encode -> decode
	{
		b2, err := json.Marshal(lock)
		var l2 cluster.Lock
		if err == nil {
			err = json.Unmarshal(b2, &l2)
		}
		switch {
		case err != nil:
			bad("kind=roundtrip-unstable", "re-encoding the written lock fails: %v", err)
		case hex.EncodeToString(l2.LockHash) != hex.EncodeToString(lock.LockHash) ||
			hex.EncodeToString(l2.DefinitionHash) != hex.EncodeToString(lock.DefinitionHash) ||
			hex.EncodeToString(l2.ConfigHash) != hex.EncodeToString(lock.ConfigHash):
			bad("kind=roundtrip-unstable", "decode->encode->decode changed the hashes of the written lock")
		case l2.VerifyHashes() != nil || l2.VerifySignatures(nil) != nil:
			bad("kind=roundtrip-unstable", "the re-encoded lock no longer verifies")
		default:
			st.roundtrips++
		}
	}
	n, nv, thr := len(lock.Operators), len(lock.Validators), lock.Threshold
	if n != c.N || thr < 1 || thr > n || nv == 0 {
		// The lock verified, so its own shape is what the rest is judged against; a shape other than the
		// requested one would make the subsets below meaningless.
		return viols, st, fmt.Errorf("unexpected lock shape n=%d t=%d v=%d", n, thr, nv)
	}

	// ---- key shares ------------------------------------------------------------------------------------
	shares := make([][]tbls.PrivateKey, n) // [node][validator]
	for i := 0; i < n; i++ {
		keys, err := c12aLoadKeys(filepath.Join(nodeDir(clusterDir, i), "validator_keys"))
		if err != nil {
			bad("kind=keyshare-unreadable", "node%d key shares cannot be loaded: %v", i, err)
			continue
		}
		if len(keys) != nv {
			bad("kind=keyshare-count", "node%d holds %d key shares, the lock has %d validators", i, len(keys), nv)
			continue
		}
		shares[i] = keys
		for v, sk := range keys {
			which := "other"
			if v == nv-1 {
				which = "last"
			}
			if got, want := c12aPub(sk), hex.EncodeToString(lock.Validators[v].PubShares[i]); got != want {
				bad("kind=keyshare-mismatch validator="+which, "node%d keystore %d holds the secret of %s, the lock's public share [%d][%d] is %s", i, v, got, v, i, want)
			} else {
				st.keyshares++
			}
		}
	}
	st.evalKeys = append(st.evalKeys, "keyshares")

	// ---- deposit data ------------------------------------------------------------------------------------
	network, err := eth2util.ForkVersionToNetwork(lock.ForkVersion)
	if err != nil {
		return viols, st, err
	}
	amounts := deposit.DedupAmounts(lock.DepositAmounts)
	if len(amounts) == 0 {
		amounts = deposit.DefaultDepositAmounts(lock.Compounding)
	}
	valIdx := map[string]int{}
	for v, val := range lock.Validators {
		valIdx[hex.EncodeToString(val.PubKey)] = v
	}
	for i := 0; i < n; i++ {
		nd := nodeDir(clusterDir, i)
		sets, err := deposit.ReadDepositDataFiles(nd)
		if err != nil {
			bad("kind=deposit-data-unreadable", "node%d deposit data files: %v", i, err)
			continue
		}
		seen := map[string]bool{} // validator/amount
		for _, set := range sets {
			for _, dd := range set {
				pkHex := hex.EncodeToString(dd.PublicKey[:])
				v, ok := valIdx[pkHex]
				if !ok {
					bad("kind=deposit-data-invalid what=foreign-pubkey", "node%d deposit data for %s which is not a validator of the lock", i, pkHex)
					continue
				}
				msg := eth2p0.DepositMessage{PublicKey: dd.PublicKey, WithdrawalCredentials: dd.WithdrawalCredentials, Amount: dd.Amount}
				root, err := deposit.GetMessageSigningRoot(msg, network)
				if err != nil {
					return viols, st, err
				}
				if err := tbls.Verify(tbls.PublicKey(dd.PublicKey), root[:], tbls.Signature(dd.Signature)); err != nil {
					bad("kind=deposit-data-invalid what=signature", "node%d deposit data validator %d amount %d: signature does not verify: %v", i, v, dd.Amount, err)
					continue
				}
				wantCreds, err := c12aCreds(lock.ValidatorAddresses[v].WithdrawalAddress, lock.Compounding)
				if err != nil {
					return viols, st, err
				}
				if hex.EncodeToString(dd.WithdrawalCredentials) != wantCreds {
					bad("kind=deposit-data-invalid what=withdrawal-credentials", "node%d deposit data validator %d: credentials %x, the lock's withdrawal address gives %s", i, v, dd.WithdrawalCredentials, wantCreds)
					continue
				}
				// agrees with the deposit data inside the lock
				inLock := false
				for _, pdd := range lock.Validators[v].PartialDepositData {
					if pdd.Amount == int(dd.Amount) && hex.EncodeToString(pdd.Signature) == hex.EncodeToString(dd.Signature[:]) &&
						hex.EncodeToString(pdd.PubKey) == pkHex && hex.EncodeToString(pdd.WithdrawalCredentials) == hex.EncodeToString(dd.WithdrawalCredentials) {
						inLock = true
					}
				}
				if !inLock {
					bad("kind=deposit-data-invalid what=not-in-lock", "node%d deposit data validator %d amount %d is not the deposit data recorded in the lock", i, v, dd.Amount)
					continue
				}
				seen[fmt.Sprintf("%d/%d", v, dd.Amount)] = true
				st.deposits++
			}
		}
		for v := range lock.Validators {
			if len(lock.Validators[v].PartialDepositData) != len(amounts) {
				bad("kind=deposit-data-invalid what=lock-amounts", "validator %d has %d deposit data in the lock, the lock's deposit amounts are %v", v, len(lock.Validators[v].PartialDepositData), amounts)
			}
			for _, a := range amounts {
				if !seen[fmt.Sprintf("%d/%d", v, a)] {
					bad("kind=deposit-data-invalid what=missing-amount", "node%d has no valid deposit data for validator %d amount %d gwei", i, v, a)
				}
				// the file named after the amount holds that amount
				if vs := c12aRawDeposit(deposit.GetDepositFilePath(nd, a), a, hex.EncodeToString(lock.ForkVersion), network); vs != "" {
					bad("kind=deposit-data-invalid what=file-fields", "node%d %s: %s", i, filepath.Base(deposit.GetDepositFilePath(nd, a)), vs)
				}
			}
		}
	}
	st.evalKeys = append(st.evalKeys, "deposit-data")

	// ---- builder registrations ----------------------------------------------------------------------------
	for v, val := range lock.Validators {
		reg, err := val.Eth2Registration()
		if err != nil {
			bad("kind=registration-invalid what=malformed", "validator %d: %v", v, err)
			continue
		}
		m := reg.V1.Message
		if hex.EncodeToString(m.Pubkey[:]) != hex.EncodeToString(val.PubKey) {
			bad("kind=registration-invalid what=pubkey", "validator %d: registration is for %x", v, m.Pubkey)
			continue
		}
		if want := strings.ToLower(strings.TrimPrefix(lock.ValidatorAddresses[v].FeeRecipientAddress, "0x")); hex.EncodeToString(m.FeeRecipient[:]) != want {
			bad("kind=registration-invalid what=fee-recipient", "validator %d: registration pays %x, the lock's fee recipient is %s", v, m.FeeRecipient, want)
			continue
		}
		root, err := registration.GetMessageSigningRoot(m, eth2p0.Version(lock.ForkVersion))
		if err != nil {
			return viols, st, err
		}
		pk, err := tblsconv.PubkeyFromBytes(val.PubKey)
		if err != nil {
			return viols, st, err
		}
		if err := tbls.Verify(pk, root[:], tbls.Signature(reg.V1.Signature)); err != nil {
			bad("kind=registration-invalid what=signature", "validator %d: registration signature does not verify: %v", v, err)
			continue
		}
		st.regs++
	}
	st.evalKeys = append(st.evalKeys, "registrations")

	// ---- recombination --------------------------------------------------------------------------------------
	for si, sub := range c12aSubsets(n, thr) {
		name := strings.Trim(strings.ReplaceAll(fmt.Sprint(sub), " ", ","), "[]")
		st.evalKeys = append(st.evalKeys, "combine S="+name)
		// directly on the shares
		usable := true
		for v := 0; v < nv && usable; v++ {
			m := map[int]tbls.PrivateKey{}
			for _, i := range sub {
				if shares[i] == nil {
					usable = false
					break
				}
				m[i+1] = shares[i][v]
			}
			if !usable {
				break
			}
			sk, err := tbls.RecoverSecret(m, uint(n), uint(thr))
			if err != nil {
				bad("kind=recombine-failed how=direct", "validator %d nodes {%s}: %v", v, name, err)
			} else if got, want := c12aPub(sk), hex.EncodeToString(lock.Validators[v].PubKey); got != want {
				bad("kind=recombine-wrong-key how=direct", "validator %d nodes {%s}: the recombined secret has public key %s, the lock says %s", v, name, got, want)
			} else {
				st.direct++
			}
		}
		// through the real combine command
		in, out := filepath.Join(dir, fmt.Sprintf("in%d", si)), filepath.Join(dir, fmt.Sprintf("combined%d", si))
		if err := c12aStage(clusterDir, in, sub, nil); err != nil {
			return viols, st, err
		}
		err := combine.Combine(ctx, in, out, false, false, "", eth2util.Network{}, combine.WithInsecureKeysForT(t))
		if err != nil {
			bad("kind=recombine-failed how=combine", "combine of nodes {%s} (threshold %d of %d) fails: %v", name, thr, n, err)
		} else if why := c12aCheckCombined(out, lock); why != "" {
			bad("kind=recombine-wrong-key how=combine", "combine of nodes {%s}: %s", name, why)
		} else {
			st.combines++
		}
		os.RemoveAll(in)
		os.RemoveAll(out)
	}

	// ---- combine never emits a key that is not the lock's -----------------------------------------------------
	{
		st.evalKeys = append(st.evalKeys, "combine foreign-group-key")
		tampered, tl, err := c12aExchangeGroupKeys(lockBytes)
		if err != nil {
			return viols, st, err
		}
		all := make([]int, n)
		for i := range all {
			all[i] = i
		}
		in, out := filepath.Join(dir, "in-neg"), filepath.Join(dir, "combined-neg")
		if err := c12aStage(clusterDir, in, all, tampered); err != nil {
			return viols, st, err
		}
		err = combine.Combine(ctx, in, out, false, true, "", eth2util.Network{}, combine.WithInsecureKeysForT(t))
		if err != nil {
			st.foreignRejected++
		} else if why := c12aCheckCombined(out, tl); why != "" {
			bad("kind=combine-output-not-lock-key", "combine (--no-verify) succeeded on a lock whose validator group keys were exchanged: %s", why)
		}
	}

	// ---- part (c): several copies of one artifact as input (zz_verif_c12copies_test.go) ----------------------------
	if err := c12cCopies(t, ctx, dir, clusterDir, c, lock, lockBytes, shares, &viols, &st); err != nil {
		return viols, st, fmt.Errorf("part (c) not (completely) run: %w", err)
	}
	return viols, st, nil
}

func c12aCreds(addr string, compounding bool) (string, error) {
	b, err := hex.DecodeString(strings.TrimPrefix(addr, "0x"))
	if err != nil || len(b) != 20 {
		return "", fmt.Errorf("bad withdrawal address %q in lock", addr)
	}
	creds := make([]byte, 32)
	creds[0] = 0x01
	if compounding {
		creds[0] = 0x02
	}
	copy(creds[12:], b)
	return hex.EncodeToString(creds), nil
}

// c12aRawDeposit checks the launchpad fields of one deposit-data file: amount per file name, roots, fork version.
func c12aRawDeposit(path string, amount eth2p0.Gwei, forkHex, network string) string {
	b, err := os.ReadFile(path)
	if err != nil {
		return "missing: " + err.Error()
	}
	var list []struct {
		PubKey                string `json:"pubkey"`
		WithdrawalCredentials string `json:"withdrawal_credentials"`
		Amount                uint64 `json:"amount"`
		Signature             string `json:"signature"`
		DepositMessageRoot    string `json:"deposit_message_root"`
		DepositDataRoot       string `json:"deposit_data_root"`
		ForkVersion           string `json:"fork_version"`
		NetworkName           string `json:"network_name"`
	}
	if err := json.Unmarshal(b, &list); err != nil {
		return "unparsable: " + err.Error()
	}
	for _, e := range list {
		if eth2p0.Gwei(e.Amount) != amount {
			return fmt.Sprintf("entry with amount %d in the file for %d", e.Amount, amount)
		}
		if e.ForkVersion != forkHex || e.NetworkName != network {
			return fmt.Sprintf("fork version %s / network %s, the lock says %s / %s", e.ForkVersion, e.NetworkName, forkHex, network)
		}
		pk, err1 := hex.DecodeString(e.PubKey)
		wc, err2 := hex.DecodeString(e.WithdrawalCredentials)
		sig, err3 := hex.DecodeString(e.Signature)
		if err1 != nil || err2 != nil || err3 != nil || len(pk) != 48 || len(sig) != 96 {
			return "malformed hex fields"
		}
		dd := eth2p0.DepositData{PublicKey: eth2p0.BLSPubKey(pk), WithdrawalCredentials: wc, Amount: eth2p0.Gwei(e.Amount), Signature: eth2p0.BLSSignature(sig)}
		msg := eth2p0.DepositMessage{PublicKey: dd.PublicKey, WithdrawalCredentials: wc, Amount: dd.Amount}
		mr, err1 := msg.HashTreeRoot()
		dr, err2 := dd.HashTreeRoot()
		if err1 != nil || err2 != nil {
			return "roots cannot be computed"
		}
		if hex.EncodeToString(mr[:]) != e.DepositMessageRoot || hex.EncodeToString(dr[:]) != e.DepositDataRoot {
			return "deposit_message_root / deposit_data_root do not match the entry"
		}
	}
	return ""
}

// c12aCheckCombined: the output of combine holds, per validator, the private key of the lock's group key.
func c12aCheckCombined(out string, lock cluster.Lock) string {
	keys, err := c12aLoadKeys(out)
	if err != nil {
		return "output keystores cannot be loaded: " + err.Error()
	}
	if len(keys) != len(lock.Validators) {
		return fmt.Sprintf("%d output keys for %d validators", len(keys), len(lock.Validators))
	}
	for v, sk := range keys {
		if got, want := c12aPub(sk), hex.EncodeToString(lock.Validators[v].PubKey); got != want {
			return fmt.Sprintf("output key %d has public key %s, the lock's validator %d is %s", v, got, v, want)
		}
	}
	return ""
}

// c12aExchangeGroupKeys returns the lock file with the group public keys of the validators exchanged
// (two validators: swapped; one validator: replaced by its first public share) and the decoded result.
func c12aExchangeGroupKeys(lockBytes []byte) ([]byte, cluster.Lock, error) {
	var tree map[string]any
	if err := json.Unmarshal(lockBytes, &tree); err != nil {
		return nil, cluster.Lock{}, err
	}
	vals, ok := tree["distributed_validators"].([]any)
	if !ok || len(vals) == 0 {
		return nil, cluster.Lock{}, fmt.Errorf("no validators in lock")
	}
	v0, ok0 := vals[0].(map[string]any)
	if !ok0 {
		return nil, cluster.Lock{}, fmt.Errorf("unexpected lock layout")
	}
	if len(vals) > 1 {
		v1, ok1 := vals[1].(map[string]any)
		if !ok1 {
			return nil, cluster.Lock{}, fmt.Errorf("unexpected lock layout")
		}
		v0["distributed_public_key"], v1["distributed_public_key"] = v1["distributed_public_key"], v0["distributed_public_key"]
	} else {
		ps, ok := v0["public_shares"].([]any)
		if !ok || len(ps) == 0 {
			return nil, cluster.Lock{}, fmt.Errorf("unexpected lock layout")
		}
		v0["distributed_public_key"] = ps[0]
	}
	b, err := json.Marshal(tree)
	if err != nil {
		return nil, cluster.Lock{}, err
	}
	var l cluster.Lock
	if err := json.Unmarshal(b, &l); err != nil {
		return nil, cluster.Lock{}, err
	}
	return b, l, nil
}

func c12aCases() []c12aCase {
	thorough := enumx.Thorough()
	maxN := 5
	deposits := [][]int{nil, {8, 24}}
	comps := []bool{false}
	splits := []bool{false}
	if thorough {
		maxN = 10
		deposits = append(deposits, []int{31, 1}, []int{16, 16})
		comps = []bool{false, true}
		splits = []bool{false, true}
	}
	var out []c12aCase
	for _, split := range splits {
		for _, comp := range comps {
			for _, dep := range deposits {
				for _, net := range []string{eth2util.Hoodi.Name, eth2util.Mainnet.Name} {
					for v := 1; v <= 2; v++ {
						for _, thrKind := range []string{"default", "n", "2", "default-1"} {
							// thresholds BELOW the default ceil(2n/3) (2-of-4, 2-of-5, 3-of-5, ...): the only sizes at which "the lock's threshold" and
							// "the threshold the cluster size suggests" differ downwards; quick tier: with the default deposit amounts only
							if (thrKind == "2" || thrKind == "default-1") && !thorough && dep != nil {
								continue
							}
							for n := 3; n <= maxN; n++ { // innermost: spreads the expensive sizes over the shards
								thr := 0
								switch thrKind {
								case "n":
									thr = n
								case "2":
									thr = 2
									if cluster.Threshold(n) == 2 {
										continue // same as default
									}
								case "default-1":
									thr = cluster.Threshold(n) - 1
									if thr <= 2 {
										continue // covered by "2" or below the minimum
									}
								}
								out = append(out, c12aCase{Part: "a", N: n, Threshold: thr, NumDVs: v, Network: net, Deposits: dep, Compounding: comp, Split: split})
							}
						}
					}
				}
			}
		}
	}
	return out
}

func TestVerifC12a(t *testing.T) {
	r := enumx.New(t, "C12")
	defer r.Finish()
	base := t.TempDir()

	one := func(c c12aCase) {
		viols, st, herr := c12aRunCase(t, base, c)
		for _, k := range st.evalKeys {
			r.Eval(c.String() + ":" + k)
		}
		r.Steps(1 + st.combines + st.foreignRejected + st.cnt["copies_combines_run"])
		r.Count("clusters_created", 1)
		r.Count("locks_verified", st.locks)
		r.Count("roundtrips_stable", st.roundtrips)
		r.Count("keyshares_matching_lock", st.keyshares)
		r.Count("deposit_data_verified", st.deposits)
		r.Count("registrations_verified", st.regs)
		r.Count("subsets_recombined_by_combine", st.combines)
		r.Count("subsets_recombined_directly", st.direct)
		r.Count("combine_rejected_foreign_group_key", st.foreignRejected)
		for k, v := range st.cnt {
			r.Count(k, v)
		}
		if st.createErr != nil {
			r.Count("clusters_created", -1)
			r.Count("create_cluster_refused", 1)
			r.Note(fmt.Sprintf("create cluster returned an error, nothing was judged for [%s]: %v", c, st.createErr))
			return
		}
		if herr != nil {
			r.Note(fmt.Sprintf("harness problem, case [%s] only partly judged: %v", c, herr))
		}
		if len(viols) == 0 {
			return
		}
		// Confirm: the relations hold for any key material, so a real violation shows again with fresh keys.
		common := map[string]int{}
		for i := 0; i < 3; i++ {
			again, _, _ := c12aRunCase(t, base, c)
			seen := map[string]bool{}
			for _, v := range again {
				if !seen[v.sig] {
					seen[v.sig] = true
					common[v.sig]++
				}
			}
		}
		done := map[string]bool{}
		for _, v := range viols {
			if done[v.sig] {
				continue
			}
			done[v.sig] = true
			if common[v.sig] == 3 {
				r.Violation(v.sig, v.desc, c)
			} else {
				r.Unconfirmed(v.sig + " " + c.String())
			}
		}
	}

	if r.ReplayPath != "" {
		var c c12aCase
		if err := r.ReplayCase(&c); err != nil || c.Part != "a" {
			return // a part (b) replay file: nothing to do in this binary
		}
		one(c)
		return
	}
	cases := c12aCases()
	r.Note(fmt.Sprintf("part a: %d create-cluster configurations", len(cases)))
	for i, c := range cases {
		if !r.Mine() {
			continue
		}
		if r.Expired() {
			return
		}
		one(c)
		if i%7 == 0 {
			r.Sample(c)
		}
	}
}
