#!/bin/bash
# try_seed.sh <patch> <check id> [tier] : apply to /repo, run the check, undo. Prints the verdict.
P=$1; C=$2; T=${3:-quick}
git -C /repo apply $P || { echo "APPLY FAILED"; exit 2; }
OUT=$(cd /verif && ./mc check $C --tier $T 2>&1)
git -C /repo checkout -- .
N=$(echo "$OUT" | grep -c "^VIOLATION")
echo "$C $T $(basename $(dirname $P)): violations=$N $(echo "$OUT" | grep "signature:" | head -2 | tr '\n' ' ') | $(echo "$OUT" | grep "tier=" | tail -1 | sed 's/.*tier=//')"
[ -n "$(git -C /repo status --short)" ] && echo "WARNING repo dirty"
