#!/usr/bin/env python3
"""Regenerates seeded/README.md from seeded/*/meta.json."""
import glob, json, os
rows = []
for p in sorted(glob.glob('/verif/seeded/*/meta.json')):
    m = json.load(open(p))
    rows.append(m)
out = ["# Independent seeded changes",
       "",
       "Each directory holds one realistic property-breaking change written by a fresh sub-agent that was given only the text of one",
       "property and its own scratch worktree of /repo (nothing from /verif): `patch.diff`, the agent's demonstration test",
       "(`*_test.go.txt`, suffix so that it is never compiled from here), its `README.md` and `meta.json` (what it needs in order to",
       "manifest, how it was confirmed, what the check reported). Every change was confirmed in a scratch worktree by",
       "`tools/confirm_seed.sh` (builds; existing tests of the touched packages and their importers still pass; the demonstration fails",
       "with the change and passes without it) before it was kept. None is ever committed to /repo. To run a check against one:",
       "`git -C /repo apply seeded/<id>/patch.diff && ./mc check <property>; git -C /repo checkout -- .` (or, without touching /repo,",
       "`./mc trypatch <property> seeded/<id>/patch.diff`, which applies the patch through the build overlay).",
       "",
       "`caught` = yes: reported by the check as it was when the change arrived; after-strengthening: missed at first, the miss was",
       "analysed, the *class* of behaviour the check did not explore was added (never the specific change), and it is reported now.",
       "",
       "| id | property | check that reports it | caught | needs, in order to manifest | what the check reports / what was missing |",
       "|---|---|---|---|---|---|"]
for m in rows:
    cr = m['check_result']
    out.append("| %s | %s | %s | %s | %s | %s |" % (m['id'], m['breaks_property'], m.get('caught_by_check', m['breaks_property']), cr['caught'],
                                                m['needs_to_manifest'].replace('|', '/').replace('\n', ' ')[:400], cr['notes'].replace('|', '/').replace('\n', ' ')[:500]))
n = len(rows)
y = sum(1 for m in rows if m['check_result']['caught'] == 'yes')
a = sum(1 for m in rows if m['check_result']['caught'] == 'after-strengthening')
out += ["", "%d changes kept: %d reported by the check as it stood, %d after strengthening, %d not reported." % (n, y, a, n - y - a), ""]
open('/verif/seeded/README.md', 'w').write("\n".join(out))
print(out[-2])
