#!/bin/bash
# process_seed.sh <tag> <seed out dir> <demo dir> <worktree to remove or -> <check id>... : confirm in a scratch worktree, then run the checks through the overlay
tag=$1; out=$2; demodir=$3; wt=$4; shift 4
{
  echo "== $tag =="
  bash /verif/tools/confirm_seed.sh $out $demodir TestSeed 2>&1 | grep CONFIRM
  [ "$wt" != "-" ] && git -C /repo worktree remove --force $wt
  for c in "$@"; do
    cd /verif && ./mc trypatch $c $out/patch.diff 2>&1 | grep -E "^trypatch|signature:" | sort | uniq -c | sort -rn | head -6
  done
} > /tmp/seedres_$tag.txt 2>&1
