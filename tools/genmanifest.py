#!/usr/bin/env python3
"""Regenerates /verif/MANIFEST.json from tools/checks.py (single source of truth)."""
import json, os, sys
sys.path.insert(0, os.path.dirname(os.path.abspath(__file__)))
from checks import CHECKS, ENGINES, NOT_APPLICABLE
V = os.path.dirname(os.path.dirname(os.path.abspath(__file__)))
ids = [json.loads(l)["id"] for l in open(os.path.join(V, "properties.jsonl"))]
checks = []
for cid in ids:
    if cid not in CHECKS:
        continue
    c = CHECKS[cid]
    checks.append({
        "property_id": cid,
        "quick_cmd": "./mc check %s --tier quick" % cid,
        "thorough_cmd": "./mc check %s --tier thorough" % cid,
        "evidence_file": "evidence/%s.json" % cid,
        "replay_cmd_template": "./mc replay %s {path}" % cid,
        "engine": c["engine"],
        "technique": c["technique"],
        "level_claimed": {"category": c["level"], "text": c["claim"], "design_ref": "DESIGN.md §5 " + cid},
        "level_note": c["trusted"],
    })
na = [{"property_id": i, "reason": NOT_APPLICABLE.get(i, "check not built yet (work in progress); no claim is made")} for i in ids if i not in CHECKS]
m = {
    "version": 1,
    "setup_cmd": "./mc setup",
    "hooks": {
        "guard": "verif-overlay (instrumentation exists only in `go test -overlay` files generated at check time; no source changes in /repo)",
        "enable": "./mc builds every harness with go1.26.8: `go test -c -vet=off -overlay .build/<id>/overlay.json`, the overlay being generated from /repo's current working tree",
        "baseline_off_cmd": "cd /repo && go test -vet=off -count=1 -timeout 25m ./...",
        "source_commits": [],
        "add_only": True,
    },
    "engines": ENGINES,
    "checks": checks,
    "notes": "All checks are exhaustive bounded explorations of the real code (model-checking family); see DESIGN.md. Genuine defects and their fix: commits are listed in known_findings.json.",
    "not_applicable": na,
}
json.dump(m, open(os.path.join(V, "MANIFEST.json"), "w"), indent=1)
print("checks:", [c["property_id"] for c in checks], "n/a:", len(na))
