#!/usr/bin/env python3
"""keep_seed.py <seed id> <seed dir> <property> <caught: yes|no|after-strengthening> <demo dir> -- <needs text> ## <notes>"""
import json, os, shutil, sys, glob
sid, sdir, prop, caught, demodir = sys.argv[1:6]
rest = " ".join(sys.argv[7:]) if len(sys.argv) > 6 else ""
needs, _, notes = rest.partition("##")
dst = os.path.join('/verif/seeded', sid)
os.makedirs(dst, exist_ok=True)
shutil.copy(os.path.join(sdir, 'patch.diff'), dst)
for f in glob.glob(os.path.join(sdir, '*_test.go')) + glob.glob(os.path.join(sdir, 'README.md')):
    shutil.copy(f, os.path.join(dst, os.path.basename(f).replace('_test.go', '_test.go.txt')))
meta = {
    "id": sid, "breaks_property": prop, "needs_to_manifest": needs.strip(),
    "demonstration": {"files": [os.path.basename(f).replace('_test.go', '_test.go.txt') for f in glob.glob(os.path.join(sdir, '*_test.go'))],
                      "copy_to": demodir, "note": "demo files are stored with a .txt suffix so that they are never compiled from /verif; copy to <copy_to>/zz_seed_demo_test.go"},
    "confirmed_by": "tools/confirm_seed.sh in a scratch worktree of /repo HEAD: go build ./... ok; existing tests of the touched packages and their importers pass with the change; demo fails with the change (3x by its author, 1x here) and passes without it",
    "check_result": {"command": "git -C /repo apply seeded/%s/patch.diff && ./mc check %s --tier quick; git -C /repo checkout -- ." % (sid, prop), "caught": caught, "notes": notes.strip()},
    "written_by": "fresh sub-agent given only the property text and its own worktree",
}
json.dump(meta, open(os.path.join(dst, 'meta.json'), 'w'), indent=1)
print("kept", dst)
