#!/usr/bin/env python3
"""mkmut.py Cxx name relpath  (reads python literal list of (old,new) pairs from stdin) -> mutants/Cxx/name.patch"""
import sys, os, subprocess, ast, tempfile
cid, name, rel = sys.argv[1:4]
pairs = ast.literal_eval(sys.stdin.read())
src = open(os.path.join('/repo', rel)).read()
out = src
for old, new in pairs:
    if out.count(old) != 1:
        sys.exit("anchor not unique/missing (%d): %r" % (out.count(old), old[:60]))
    out = out.replace(old, new)
with tempfile.NamedTemporaryFile('w', suffix='.go', delete=False) as f:
    f.write(out)
r = subprocess.run(['diff', '-u', '--label', 'a/' + rel, '--label', 'b/' + rel, os.path.join('/repo', rel), f.name], capture_output=True, text=True)
os.unlink(f.name)
d = os.path.join('/verif/mutants', cid)
os.makedirs(d, exist_ok=True)
p = os.path.join(d, name + '.patch')
mode = 'a' if os.environ.get('APPEND') else 'w'
open(p, mode).write(r.stdout)
print("wrote", p, len(r.stdout.splitlines()), "lines")
