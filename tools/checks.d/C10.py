from common import ENUMX_ASSUME

CHECK = {'pkgs': ['core/validatorapi', 'core/parsigex'],
 'libs': ['enumx'],
 'run': {'core/validatorapi': 'TestVerifC10vapi', 'core/parsigex': 'TestVerifC10peer'},
 'level': 'exploration',
 'engine': 'enumx',
 'technique': 'exhaustive enumeration, against the real components, of (0) single alterations of valid submissions, (1) operation sequences '
              'on one long-lived instance, (2) beacon-node fault scripts and (3) boundary values of the peer-controlled integers. '
              '(0): the real validatorapi.NewComponent '
              '(verification on, share 2 of a 4-share x 2-validator cluster with real threshold BLS keys, beaconmock) is driven through every '
              'submit-style endpoint, the real parsigex.NewParSigEx + NewEth2Verifier + core.NewDutyGater (clock pinned) through its handle '
              'method; a reflection walker alters every leaf field of the submitted Go object / decoded peer value one at a time, a fixed list '
              'adds the targeted alterations; the oracle recomputes signing root, domain and epoch independently and re-verifies everything '
              'that reaches a subscriber. (1): ONE Component / ONE ParSigEx (own NewEth2Verifier closure, own gater) receives every '
              'ordered pair (thorough: also every triple over a reduced alphabet) of prebuilt submissions from an explicit alphabet and, after '
              'every valid submission A, the replays that share bytes with A; every call is judged by the single-call oracle, and the verdict '
              '(error or not, exact deliveries) after a prefix must equal the verdict of the same bytes on a fresh instance. (2): the beacon '
              'client of the Component / of the verifier is a wrapper around the beaconmock that numbers the invocations of Spec, Domain, '
              'GenesisDomain, ActiveValidators (and Genesis, ForkSchedule, SlotsPerEpoch, SlotDuration, Validators, CompleteValidators) and '
              'fails the scripted ones; the invocations of a call are discovered by a counting run, then every single fault point x {error, '
              'context.DeadlineExceeded, Spec answering without keys} (thorough: also every pair of fault points x {error, deadline}^2) is '
              'run on a new instance. (3): the duty slot and the share index of otherwise valid, correctly signed peer messages run over '
              'explicit boundary sets, against the func returned by core.NewDutyGater directly and through the real handle path; the window is '
              'recomputed with math/big',
 'claim': 'VC path: SubmitAttestations and SubmitAggregateAttestations (phase0..fulu), SubmitProposal (quick capella+fulu, thorough phase0..fulu; '
          'phase0/altair are answered "unsupported version" by the eth2 client library, so only their rejections are judged), SubmitProposal with '
          'a blinded proposal and SubmitBlindedProposal (quick fulu/capella+fulu, thorough bellatrix..fulu), Proposal (randao reveal), '
          'SubmitVoluntaryExit, BeaconCommitteeSelections, SubmitSyncCommitteeMessages, SubmitSyncCommitteeContributions, '
          'SyncCommitteeSelections, SubmitValidatorRegistrations (forwards nothing). Peer path: attester, proposer (full and blinded), '
          'builder_registration, exit, randao, prepare_aggregator, aggregator (versioned phase0..fulu and unversioned), sync_message, '
          'prepare_sync_contribution, sync_contribution, signature. Per unit: the valid submission (both validators); every leaf of the request '
          'object present in the generated value (+1 / flip first and last byte / flip a bit / append to an empty byte list; thorough also the '
          'zero value), for proposals additionally every altered leaf re-signed by the own share (must fail the agreed-proposal match); signed by '
          'each other share, by the same share of the other validator, by the group key; every other domain type; previous/next/genesis/'
          'unscheduled fork version and another genesis validators root; another message; validator on chain but not in the lock; validator '
          'unknown to chain; zero and infinity signature; proposal differing from the agreed one; mixed requests. Peer path additionally: every '
          '(claimed share, signing share) pair, share index 0, n+1, -1, int32 min/max, entry filed under the other validator or under malformed/'
          'unknown keys, every other duty type -1..15, 99, maxint32, duty slot 0 / last allowed / first beyond the window / far future / max, '
          'nil or empty duty/set/data, truncated data, two-entry sets with one invalid entry (5 kinds x which validator x proto order x map '
          'rotation 0/1). Oracle: what does not verify for its own signing root, domain and epoch under the lock\'s public share of the '
          'identified validator and share index (or lies outside the gater window / has an invalid duty type) must return an error with no '
          'subscriber call; the unaltered submission must be delivered unchanged to every subscriber; every delivered partial signature is '
          're-verified; alterations that leave the signed content and identification untouched may be accepted. '
          'SEQUENCES - alphabet per endpoint / duty type: both valid submissions and the targeted invalid ones of the single-call list (quick: '
          'the core families other share, other share valid for itself, other validator same share, filed under the other validator, one other '
          'domain, previous fork, other message, zero signature; VC also genesis fork, outsider, proposal differing from the agreed one; peer also first slot beyond the window; one version per endpoint or duty type '
          'plus pre-electra attestations, unversioned aggregates, full and blinded proposals: 133 operations over 13 VC units = 17689 ordered '
          'pairs, 151 operations over 14 peer units = 22801 ordered pairs; thorough: VC every targeted submission of those units plus '
          '{valid, other share, previous fork, zero signature} of every other version: 470 operations over 38 units = 220900 pairs; peer one '
          'representative of every targeted family incl. two-entry and mixed sets for those units plus the same four of every other '
          'version: 369 operations over 35 units = 136161 pairs). Every ordered pair of the alphabet. Replays after a valid A: to every '
          'endpoint / duty type Y the object of Y for the same validator carrying A\'s signature and, where Y\'s type allows, A\'s message root '
          '(sync committee message: block root := root(A); randao reveal for epoch n and beacon committee selection for slot n when root(A) is '
          'the root of the integer n - on the VC path the duty definitions then also know a proposer duty in slot 16n); peer path also A\'s raw '
          'bytes under every other duty type, A\'s entry filed under the other validator and under share index 2, 3, 4; VC path A\'s object and '
          'signature identifying the other validator where the root does not bind it (attestation, sync message, both selections, randao); '
          'sync committee message at a slot of the previous fork, of the next fork and at another slot of the same fork (valid: must be '
          'admitted); A itself again (must be admitted again); the share index of a VC submission is the node\'s own and not part of the '
          'request (quick 165 VC + 445 peer, thorough 1420 VC + 2363 peer replay pairs). Thorough triples: all ordered triples over {valid, other share, zero '
          'signature} x 6 units, and (a, b, replay of the latest valid of a, b). FAULTS - per unit (quick: as for sequences; thorough: all '
          'versions) x alphabet (VC quick core families, thorough all targeted; peer quick one representative per family incl. two-entry and '
          'mixed sets, thorough all targeted) x every fault script; under a fault whatever fails the independent verification must still be '
          'rejected with an error and no subscriber call, a valid submission may be delivered (re-verified) or refused. BOUNDARIES - duty '
          'slot: for k in 0..63 2^k-1, 2^k, 2^k+1, 2^k+currentSlot; floor(MaxInt64/12e9) and floor(MaxUint64/12e9) -1,+0,+1,+currentSlot; '
          '2^63-2..2^63+2; 2^64-1-d for d in 0..33; currentSlot+-1 and the window edge +-1 (303 values) x duty type -1..15 against the '
          'gater func, and x {prepare_aggregator, sync_message, prepare_sync_contribution with own slot = duty slot and signed for the fork '
          'of that slot, attester} through handle: outside epoch(slot) <= currentEpoch+2 (math/big) => error, no delivery. Share index: 0, '
          'int32 min/max, +-(2^k-1), +-2^k, +-(2^k+1), +-2^k+1, 2^k+4 for k in 0..31 (211 values) on the valid entry of every sequence unit',
 'trusted': 'herumi/tbls Sign/Verify, go-eth2-client hash tree roots, core\'s wire codec (ParSignedDataSetTo/FromProto) and the beaconmock fork '
            'schedule/genesis are the judge\'s inputs; signing root/domain/epoch per object type, domain-type constants, fork selection, '
            'validator identification and the gater window are re-implemented in the harness and do not use core/eth2signeddata.go, '
            'eth2util/signing, core/gater.go. The gater window is future-only (epoch <= now+2) as documented in gater.go: a correctly signed set '
            'for a long past slot is accepted by design and not alarmed (expiry is the deadliner\'s job). A handler panic on a malformed request '
            'counts as rejection. Whether the valid entry of a mixed set is delivered is not judged. Sequence operations are built once per process '
            'and re-submitted as deep copies (the oracle is a relation on the bytes); dutydb/scheduler answers (agreed proposal, duty '
            'definitions) are environment set per operation. The fault wrapper sits at the eth2wrap.Client interface: failures inside the '
            'HTTP client below it (fork schedule, genesis fetches of Domain) appear as a failing Domain call. The pinned clock is after '
            'genesis; the gater before genesis is not enumerated',
 'rule': 'one evaluation = one request/message built from scratch and handed to the real handler, or one operation sequence (2 or 3 calls) '
         'on one new long-lived instance, or one call under one fault script on a new instance, or one boundary value; distinct = (path, '
         'endpoint or duty type, version, alteration kind, field path | operation descriptors of the sequence | fault script | value)',
 'budget_s': {'quick': 100, 'thorough': 1500}}
CHECK["assumptions"] = ENUMX_ASSUME + [
    "lists that are empty in the generated objects (slashings, deposits, exits, ...) contribute no leaves; one object per type and version",
    "cluster 4 shares x 2 validators, threshold 3, node share index 2, sending peer share index 1; base epoch 2050 of the beaconmock fork schedule",
    "history: sequences of length 2 (thorough: 3 over a reduced alphabet) on an instance that is new per sequence; longer histories and state shared through "
    "anything but the component instance, its verifier/gater closures and package-level variables of the process are not explored",
    "faults: at most one (thorough: two) failing beacon-node invocations per call, failure = error / deadline / Spec without keys; a beacon node that "
    "answers with wrong data is outside the fault model",
    "boundary slots use a 12 s slot and the clock pinned to slot 8 of epoch 2050 (after genesis)",
]
