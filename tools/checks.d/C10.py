from common import ENUMX_ASSUME

CHECK = {'pkgs': ['core/validatorapi', 'core/parsigex'],
 'libs': ['enumx'],
 'run': {'core/validatorapi': 'TestVerifC10vapi', 'core/parsigex': 'TestVerifC10peer'},
 'level': 'exploration',
 'engine': 'enumx',
 'technique': 'exhaustive enumeration of single alterations of valid submissions against the real components: the real validatorapi.NewComponent '
              '(verification on, share 2 of a 4-share x 2-validator cluster with real threshold BLS keys, beaconmock) is driven through every '
              'submit-style endpoint, the real parsigex.NewParSigEx + NewEth2Verifier + core.NewDutyGater (clock pinned) through its handle '
              'method; a reflection walker alters every leaf field of the submitted Go object / decoded peer value one at a time, a fixed list '
              'adds the targeted alterations; the oracle recomputes signing root, domain and epoch independently and re-verifies everything '
              'that reaches a subscriber',
 'claim': 'VC path: SubmitAttestations and SubmitAggregateAttestations (phase0..fulu), SubmitProposal (quick capella+fulu, thorough phase0..fulu; '
          'phase0/altair are answered "unsupported version" by the eth2 client library, so only their rejections are judged), SubmitProposal with '
          'a blinded proposal and SubmitBlindedProposal (quick fulu/capella+fulu, thorough bellatrix..fulu), Proposal (randao reveal), '
          'SubmitVoluntaryExit, BeaconCommitteeSelections, SubmitSyncCommitteeMessages, SubmitSyncCommitteeContributions, '
          'SyncCommitteeSelections, SubmitValidatorRegistrations (forwards nothing). Peer path: attester, proposer (full and blinded), '
          'builder_registration, exit, randao, prepare_aggregator, aggregator (versioned phase0..fulu and unversioned), sync_message, '
          'prepare_sync_contribution, sync_contribution, signature. Per unit: the valid submission (both validators); every leaf of the request '
          'object present in the generated value (+1 / flip first and last byte / flip a bit / append to an empty byte list; thorough also the '
          'zero value), for proposals additionally every altered leaf re-signed by the own share (must fail the agreed-proposal match); signed by '
          'each other share, by the same share of the other validator, by the group key; every other domain type; previous/next/genesis/'
          'unscheduled fork version and another genesis validators root; another message; validator on chain but not in the lock; validator '
          'unknown to chain; zero and infinity signature; proposal differing from the agreed one; mixed requests. Peer path additionally: every '
          '(claimed share, signing share) pair, share index 0, n+1, -1, int32 min/max, entry filed under the other validator or under malformed/'
          'unknown keys, every other duty type -1..15, 99, maxint32, duty slot 0 / last allowed / first beyond the window / far future / max, '
          'nil or empty duty/set/data, truncated data, two-entry sets with one invalid entry (5 kinds x which validator x proto order x map '
          'rotation 0/1). Oracle: what does not verify for its own signing root, domain and epoch under the lock\'s public share of the '
          'identified validator and share index (or lies outside the gater window / has an invalid duty type) must return an error with no '
          'subscriber call; the unaltered submission must be delivered unchanged to every subscriber; every delivered partial signature is '
          're-verified; alterations that leave the signed content and identification untouched may be accepted',
 'trusted': 'herumi/tbls Sign/Verify, go-eth2-client hash tree roots, core\'s wire codec (ParSignedDataSetTo/FromProto) and the beaconmock fork '
            'schedule/genesis are the judge\'s inputs; signing root/domain/epoch per object type, domain-type constants, fork selection, '
            'validator identification and the gater window are re-implemented in the harness and do not use core/eth2signeddata.go, '
            'eth2util/signing, core/gater.go. The gater window is future-only (epoch <= now+2) as documented in gater.go: a correctly signed set '
            'for a long past slot is accepted by design and not alarmed (expiry is the deadliner\'s job). A handler panic on a malformed request '
            'counts as rejection. Whether the valid entry of a mixed set is delivered is not judged',
 'rule': 'one evaluation = one request/message built from scratch and handed to the real handler; distinct = (path, endpoint or duty type, '
         'version, alteration kind, field path)',
 'budget_s': {'quick': 100, 'thorough': 1500}}
CHECK["assumptions"] = ENUMX_ASSUME + [
    "lists that are empty in the generated objects (slashings, deposits, exits, ...) contribute no leaves; one object per type and version",
    "cluster 4 shares x 2 validators, threshold 3, node share index 2, sending peer share index 1; base epoch 2050 of the beaconmock fork schedule",
]
