from common import ENUMX_ASSUME

CHECK = {'pkgs': ['tbls'],
 'libs': ['enumx'],
 'run': 'TestVerifC08',
 'level': 'exploration',
 'engine': 'enumx',
 'technique': 'exhaustive small-scope enumeration of (n,t) configurations, share subsets and single substitutions (foreign share, sibling share, '
              'wrong index, other message, too few partials) against the real tbls/herumi implementation, plus the history shape "verify under A, verify under k other '
              'distinct keys, verify under A again" for every k up to K in one process',
 'claim': 'for n in 2..7 (quick: 2..5), every 2<=t<=n, 6 secrets (1, 2, r-1, two fixed 32-byte patterns, one GenerateInsecureKey value), 3 messages '
          '(empty, 32 B, 200 B) and both splitters (production ThresholdSplit with fresh random coefficients, ThresholdSplitInsecure with a seeded '
          'reader): EVERY subset S of the shares with |S|>=t gives RecoverSecret(S)=secret, RecoverPubkey(public shares of S)='
          'SecretToPublicKey(secret), ThresholdAggregate(partials of S)=Sign(secret,msg) byte for byte and Verify under the group key; for EVERY '
          'size-t subset, message and position every single substitution -- the partial of the same index of a split of another secret, of an '
          'independent split of the same secret, the partial of every other share of the same split, the partial filed under every index outside '
          'the subset and under n+1, the partial made over each other message -- and EVERY subset with |S|<t (incl. the empty one) either is '
          'refused by ThresholdAggregate or does not Verify under the group key (mixed-message aggregates: for neither message). Thorough '
          'additionally n in 8..10: all subsets of size t and n (positive), all subsets of size t-1 and the empty set (too few), substitutions on '
          'every size-t subset for n=8 and on the first-t and last-t subsets for n=9,10; the quick tier also runs n=10 (the first two-digit share index) with '
          't in {2,7,10} on two secrets. Large clusters (size-dependent code paths such as chunked or parallel decoding show only above some count of partials): n in 11..25 with t in {2, ceil(2n/3), n} and n in {31,32,33,40} with t=2 (thorough: every n in 11..66 and n in {100,127,128,129,255,256,257}), two secrets, both splitters: for EVERY size k in t..n the first-k, last-k and an evenly spread k-subset are recovered and aggregated (all three messages) with the positive oracle; substitutions at the first, middle and last position of the first-t and last-t subsets; the empty set and size t-1 as too few. History dimension (the functions are pure; a process-wide cache of bounded capacity shows a defect only beyond its '
          'capacity): after each of K=10000 (thorough 70000) further distinct keys has been verified, the genuine signature of the first key still '
          'verifies, the newest key\'s signature over the same message is refused under the first key and vice versa, and the newest key\'s own verifies',
 'trusted': 'the oracle is black-box on the exported tbls functions (byte equality of their outputs, nil/non-nil of Verify); Sign(secret,msg) and '
            'SecretToPublicKey(secret) of the undivided key are taken as the reference values; substitutions whose substituted share happens to '
            'equal the genuine one (probability ~2^-255, or a degenerate split) are skipped and counted, a refused split/secret is noted, not alarmed; '
            'every candidate is re-run 3 times on freshly built splits before it is reported',
 'rule': 'outer product (n,t,secret) x splitter; inner: all share-id subsets by size x messages x substitution (kind,position,argument). One '
         'evaluation = one case run through the real library. Distinct non-trivial classes are the keys "split:n,t", "pos:recover:n,t,|S|", '
         '"pos:agg:n,t,|S|" (|S|>=t, really recovering/aggregating), "neg:<kind>:n,t" for kind in foreign, foreign-same, sibling, wrong-index, '
         'other-msg (a really tampered map reached Aggregate/Verify) and "neg:fewer:n,t,|S|"; secrets, messages, subsets of equal size and '
         'positions are NOT counted as distinct. Counters verify_accepted / neg_verify_rejected/<kind> / neg_aggregate_refused/<kind> show that '
         'both outcomes of Verify really occurred',
 'budget_s': {'quick': 100, 'thorough': 1500}}
CHECK["assumptions"] = ENUMX_ASSUME + [
    "the production ThresholdSplit draws its polynomial coefficients from crypto/rand: the relations checked hold for every coefficient vector, "
    "the coefficients actually drawn are a sample and are not enumerated",
    "map iteration order inside the tbls functions is the stock random one (the relations are order independent)",
]
