from common import ENUMX_ASSUME

CHECK = {'pkgs': ['tbls'],
 'libs': ['enumx'],
 'run': 'TestVerifC08',
 'level': 'exploration',
 'engine': 'enumx',
 'technique': 'exhaustive small-scope enumeration of (n,t) configurations, share subsets and single substitutions (foreign share, sibling share, '
              'wrong index, other message, too few partials) against the real tbls/herumi implementation, plus the history shape "verify under A, verify under k other '
              'distinct keys, verify under A again" for every k up to K in one process; plus every sequence of two / three Verify and VerifyAggregate calls (with '
              'repetition, each on fresh keys) over an alphabet of queries that differ from an accepted query in exactly one component - a RELATED message '
              '(prefix, zero-padded, one byte changed), another key, another valid signature - judged differentially against the verdict by construction '
              '(= the verdict of the same query as the first call on fresh keys); plus a large-share-index dimension: splits with n just below, at and '
              'just above 2^7, 2^8, 2^15, 2^16 (lazily built fixtures) with the subsets that contain the highest ids and the neighbours of each boundary',
 'claim': 'for n in 2..7 (quick: 2..5), every 2<=t<=n, 6 secrets (1, 2, r-1, two fixed 32-byte patterns, one GenerateInsecureKey value), 3 messages '
          '(empty, 32 B, 200 B) and both splitters (production ThresholdSplit with fresh random coefficients, ThresholdSplitInsecure with a seeded '
          'reader): EVERY subset S of the shares with |S|>=t gives RecoverSecret(S)=secret, RecoverPubkey(public shares of S)='
          'SecretToPublicKey(secret), ThresholdAggregate(partials of S)=Sign(secret,msg) byte for byte and Verify under the group key; for EVERY '
          'size-t subset, message and position every single substitution -- the partial of the same index of a split of another secret, of an '
          'independent split of the same secret, the partial of every other share of the same split, the partial filed under every index outside '
          'the subset and under n+1, the partial made over each other message -- and EVERY subset with |S|<t (incl. the empty one) either is '
          'refused by ThresholdAggregate or does not Verify under the group key (mixed-message aggregates: for neither message). Thorough '
          'additionally n in 8..10: all subsets of size t and n (positive), all subsets of size t-1 and the empty set (too few), substitutions on '
          'every size-t subset for n=8 and on the first-t and last-t subsets for n=9,10; the quick tier also runs n=10 (the first two-digit share index) with '
          't in {2,7,10} on two secrets. Large clusters (size-dependent code paths such as chunked or parallel decoding show only above some count of partials): n in 11..25 with t in {2, ceil(2n/3), n} and n in {31,32,33,40} with t=2 (thorough: every n in 11..66 and n in {100,127,128,129,255,256,257}), two secrets, both splitters: for EVERY size k in t..n the first-k, last-k and an evenly spread k-subset are recovered and aggregated (all three messages) with the positive oracle; substitutions at the first, middle and last position of the first-t and last-t subsets; the empty set and size t-1 as too few. History dimension (the functions are pure; a process-wide cache of bounded capacity shows a defect only beyond its '
          'capacity): after each of K=10000 (thorough 70000) further distinct keys has been verified, the genuine signature of the first key still '
          'verifies, the newest key\'s signature over the same message is refused under the first key and vice versa, and the newest key\'s own verifies. '
          'Call histories over related queries (a memo / negative cache / reused buffer whose key does not identify the whole query - message truncated or '
          'padded to a fixed width, only its length, keys or signature left out - is right for every single call and every sequence of unrelated calls): '
          'message pairs (m,m\') built from a pattern P of non-zero bytes with lengths L={0,1,31,32,33,63,64,65,200}: prefix m=P[:a],m\'=P[:b]; zeropad '
          'm=P[:a],m\'=m+(b-a) zero bytes; flip m=P[:l], m\'=m with byte j changed. Quick: (a,b) adjacent in L or in {(0,32),(32,64),(32,200),(1,200)} '
          '(12 prefix + 12 zeropad pairs), flip for l in {1,32,33,64,65,200} at j in {0,l-1} (11 pairs); thorough: all 36+36 (a<b) pairs and flip for every l>=1 '
          'at j in {0,31,32,63,64,l/2,l-1} (31 pairs). Query alphabet (14): Verify family V(A,m,sA(m)) V(A,m\',sA(m)) V(A,m\',sA(m\')) V(A,m,sA(m\')) '
          'V(B,m,sA(m)) V(B,m,sB(m)) V(A,m,sB(m)); VerifyAggregate family VA([A,B],m,sAB(m)) VA([A,B],m\',sAB(m)) VA([A,B],m\',sAB(m\')) VA([A,B],m,sAB(m\')) '
          'VA([A],m,sAB(m)) VA([A],m,sA(m)) VA([A,B],m,sA(m)) (sAB = Aggregate of both signatures). For EVERY message pair: all 14^2 ordered pairs of '
          'queries with plain keys and all 7^2 pairs of the Verify family with A = group key of a production 2-of-3 split and sA = ThresholdAggregate of two '
          'partials (which two rotates); all 7^3 triples within each family for the 11 pairs around the 32-byte signing-root size ((0,1),(31,32),(32,33) prefix '
          'and zeropad, zeropad (0,32), flip (32,31),(33,32),(33,0),(64,63)) in quick, for every message pair in thorough (there also the threshold variant for the '
          '11). Every history runs on a fresh fixture (keys never used before in the process, P salted with the fixture number); EVERY call of a history '
          'must return the verdict by construction (accepted iff the signature was made by Sign with exactly the queried keys over exactly the queried '
          'message); a deviation is re-run 3 times on fresh fixtures and classified by running the deviating query alone (history=needed|none). Sign, '
          'SecretToPublicKey, Aggregate, ThresholdSplit and ThresholdAggregate are called in history-dependent order while fixtures are filled lazily, so a '
          'history dependence there shows as a refused genuine signature. Large share indices (an id conversion of bounded width on one side only is '
          'invisible below its boundary): n in {127,128,129,255,256,257,300,32767,32768,32769,65535,65536,65537} x t in {2,3} (thorough: 2^k-1,2^k,2^k+1 for '
          'every k in 7..16, 300, 1000, 10000 x t in {2,3,4,7}), both splitters, one of the two pattern secrets: subsets first-t, last-t, {1..t-1,n}, '
          '{1,n-t+2..n}, {1..t,n}, every window of t consecutive ids containing 2^7, 2^8, 2^15 or 2^16 and the window just above it, {n-2^k,n}+smallest ids: '
          'positive oracle on all of them (3 messages); on every size-t subset at its highest id p one substitution of every kind (foreign, foreign-same, '
          'other-msg; sibling and wrong-index with the ids p+-2^k, p+-1, 1, n, n+1); too few: {n} and the last t-1. Not covered: share ids beyond 65537 '
          '(2^31, 2^32 boundaries - the split would have to produce that many shares)',
 'trusted': 'the oracle is black-box on the exported tbls functions (byte equality of their outputs, nil/non-nil of Verify); Sign(secret,msg) and '
            'SecretToPublicKey(secret) of the undivided key are taken as the reference values; substitutions whose substituted share happens to '
            'equal the genuine one (probability ~2^-255, or a degenerate split) are skipped and counted, a refused split/secret is noted, not alarmed; '
            'every candidate is re-run 3 times on freshly built splits before it is reported; call histories: the reference verdict of a query is fixed by '
            'how its signature was built with the real Sign / Aggregate / ThresholdAggregate (m != m\' and A != B by construction), process-wide state left by '
            'earlier histories concerns other keys and (salted) other messages, except for the messages of length 0 and 1 which cannot be salted apart',
 'rule': 'outer product (n,t,secret) x splitter; inner: all share-id subsets by size x messages x substitution (kind,position,argument). One '
         'evaluation = one case run through the real library. Distinct non-trivial classes are the keys "split:n,t", "pos:recover:n,t,|S|", '
         '"pos:agg:n,t,|S|" (|S|>=t, really recovering/aggregating), "neg:<kind>:n,t" for kind in foreign, foreign-same, sibling, wrong-index, '
         'other-msg (a really tampered map reached Aggregate/Verify) and "neg:fewer:n,t,|S|"; secrets, messages, subsets of equal size and '
         'positions are NOT counted as distinct; the large-index cases use the same keys (their n). Call histories: one evaluation = one history on a '
         'fresh fixture (all its calls judged), class "callhist:<relation>:<a>,<b>:<part>" with part in pairs, pairs-threshold, triples-V, triples-VA, '
         'triples-V-threshold; counters callhist_accepted / callhist_refused / callhist_first_calls_on_a_fresh_fixture / callhist_calls_after_history. '
         'Shard 0 runs the process-long capacity history only, all other units go round robin over the remaining shards. Counters verify_accepted / neg_verify_rejected/<kind> / neg_aggregate_refused/<kind> show that '
         'both outcomes of Verify really occurred',
 'budget_s': {'quick': 100, 'thorough': 1500}}
CHECK["assumptions"] = ENUMX_ASSUME + [
    "the production ThresholdSplit draws its polynomial coefficients from crypto/rand: the relations checked hold for every coefficient vector, "
    "the coefficients actually drawn are a sample and are not enumerated",
    "map iteration order inside the tbls functions is the stock random one (the relations are order independent)",
]
CHECK["claim"] += ' Fifth session: call histories in which the caller hands every message over in ONE buffer of its own that it overwrites between the calls (pairs-reusedbuffer: every ordered pair of queries over every related-message pair).'
