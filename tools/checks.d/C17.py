from common import SCHEDX_ASSUME

CHECK = {'pkgs': ['core/aggsigdb'],
 'libs': ['schedx', 'vsync'],
 'vsync': ['core/aggsigdb/memory_v2.go'],
 'run': 'TestVerifC17',
 'level': 'model_checking',
 'engine': 'schedx',
 'technique': 'stateless model checking of the real code: exhaustive preemption-bounded DFS over thread interleavings under a controlled scheduler '
              '(synctest quiescence), state-key pruning',
 'claim': 'every interleaving (preemption bound iterated 0,1,2,3, then unbounded, in both tiers; quick: 17 scenarios of 2-5 threads, thorough: + two 5-6 thread scenarios) of 2-6 threads doing Await/Store/cancel/expiry on both real '
          'implementations, scheduling points at every lock acquire/release; oracle: stored-value, conflict rejection, terminal-state liveness (no '
          'reader blocked while its key is in the store), exact virtual-time promptness',
 'trusted': 'testing/synctest quiescence detection, the vsync lock shim and the runtime determinism overlay; assumes no unsynchronised shared access '
            'between scheduling points (separate -race pass)',
 'rule': 'every interleaving (preemption-bounded DFS, state-key pruning) of 2-6 harness threads doing Await/Store/cancel on the real MemDB and '
         'MemDBV2 with a real deadliner in virtual time; distinct = distinct observable outcomes',
 'budget_s': {'quick': 300, 'thorough': 1200}}
CHECK["race_tests"] = {"core/aggsigdb": "TestVerifRaceC17"}
CHECK["assumptions"] = SCHEDX_ASSUME
CHECK["claim"] += " Fifth session: duty types that never expire (voluntary exit, builder registration; the harness's deadline function answers like core.NewDutyDeadlineFunc, so the deadliner returns DeadlineExempt): two readers and two writers on two such keys, conflicting writes, write-write-read, both implementations."
