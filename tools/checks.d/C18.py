from common import ENUMX_ASSUME

_PKGS = {
    'core/dutydb': 'TestVerifC18DutyDB',
}

CHECK = {'pkgs': list(_PKGS),
 'files': {p: ['zz_verif_c18_test.go'] for p in _PKGS},
 'libs': ['enumx', 'alias'],
 'run': dict(_PKGS),
 'level': 'exploration',
 'engine': 'enumx',
 'technique': 'tbd',
 'claim': 'tbd',
 'trusted': 'tbd',
 'rule': 'tbd',
 'budget_s': {'quick': 100, 'thorough': 1500}}
CHECK["assumptions"] = ENUMX_ASSUME
