from common import ENUMX_ASSUME

# packages whose hand-over paths are clean on the unchanged tree first (mc selftest prints the first violation)
_PKGS = {
    'core/parsigdb': 'TestVerifC18ParSigDB',
    'core/aggsigdb': 'TestVerifC18AggSigDB',
    'core/sigagg': 'TestVerifC18SigAgg',
    'core/scheduler': 'TestVerifC18Scheduler',
    'core/fetcher': 'TestVerifC18Fetcher',
    'core/validatorapi': 'TestVerifC18VAPI',
    'core/dutydb': 'TestVerifC18DutyDB',
    'core/parsigex': 'TestVerifC18ParSigEx',
    'core/consensus/qbft': 'TestVerifC18Consensus',
}

CHECK = {'pkgs': list(_PKGS),
 'files': {p: ['zz_verif_c18_test.go'] for p in _PKGS},
 'libs': ['enumx', 'alias'],
 'run': dict(_PKGS),
 'level': 'exploration',
 'engine': 'enumx',
 'technique': 'exhaustive enumeration of (hand-over path x value type x fork version) against the real components, each unit judged by two '
              'oracles from zzverif/alias: (i) alias walker - every pointer target, slice backing array (capacity > 0) and map reachable from '
              'a value is collected as an address range by reflection + unsafe (strings, interface boxes, zero-size objects, time.Time and '
              'protobuf bookkeeping are skipped); the ranges of every two parties of the scenario {value handed in, memory held privately by '
              'the component (reached through unexported fields), value returned to each reader, argument of each subscriber} must not '
              'overlap; (ii) twin-world differential - the scenario is executed once without harness-side mutation and once per mutation '
              'class (the caller overwrites every leaf of what it handed in after the call returned / every reader overwrites every leaf of '
              'its result right after receiving it / every subscriber overwrites every leaf of its argument inside the callback); the canonical '
              'digest of every observation (later results, later subscribers\' arguments, store content, nil-ness of errors) must equal the one '
              'of the unmutated execution, which started from a reflection deep copy of the same value',
 'claim': 'paths: dutydb Store -> AwaitAttestation (also the committee-index-0 alias) / AwaitProposal / AwaitAggAttestation / AwaitSyncContribution '
          '/ PubKeyByAttestation, each with a reader blocked before the Store and two later readers, and the private maps; parsigdb StoreInternal and '
          'StoreExternal with threshold 2, three internal and three threshold subscribers and the private entries map; aggsigdb MemDB (with its Run '
          'goroutine) and MemDBV2 Store -> Await by a waiting and two later readers and the private data map; sigagg Aggregate (real 2-of-3 threshold '
          'BLS partials, accepting verify function) with three subscribers; scheduler scheduleSlot duty fan-out with three subscribers and '
          'GetDutyDefinition twice (definitions placed into the private duties map); fetcher Fetch for attester / proposer / aggregator / sync '
          'contribution (old and v1.11 plural encoding) with stub beacon node and three subscribers, and FetchOnly + Fetch through the early-fetch '
          'cache; validatorapi (insecure constructor) SubmitAttestations, SubmitAggregateAttestations, SubmitProposal (full and blinded), '
          'SubmitBlindedProposal, SubmitVoluntaryExit, BeaconCommitteeSelections, SyncCommitteeSelections, SubmitSyncCommitteeMessages, '
          'SubmitSyncCommitteeContributions, Proposal (randao) with two subscribers; parsigex handle with two subscribers; consensus Decide callback '
          'with two Subscribe and two SubscribePriority subscribers. Value alphabet from the testutil generators / core constructors: AttestationData, '
          'VersionedProposal and VersionedSignedProposal (full and blinded), VersionedAggregatedAttestation, VersionedAttestation, '
          'VersionedSignedAggregateAndProof, legacy AggregatedAttestation and SignedAggregateAndProof, SyncContribution(s), exit, registration, randao, '
          'beacon / sync committee selection, sync message, (signed) contribution and proof, Signature; attester / proposer / sync committee duty '
          'definitions. Quick: latest fork (fulu) per versioned type; thorough: phase0..fulu. Every violation is re-run twice and must give the same verdict',
 'trusted': 'reflection walker / digest / deep copy of zzverif/alias (they do not use charon\'s Clone or codecs); testutil Random* generators as value '
            'alphabet; noop deadliner; signature verification and duty gating are switched off or stubbed to accept (not part of C18); the beacon node\'s '
            'response objects are owned by the fetcher and are not a party; SubmitProposal phase0/altair is refused by go-eth2-client ("unsupported '
            'version") and recorded as not evaluated',
 'rule': 'one evaluation = one scenario of one (path, type/version) unit under one oracle (alias or one mutation class); distinct = path x oracle',
 'budget_s': {'quick': 100, 'thorough': 1500}}
CHECK["assumptions"] = ENUMX_ASSUME + [
    "one generated instance per type and version, single-validator sets; fixed order waiting reader -> store -> overwrite -> read -> overwrite -> read",
    "concurrent readers (data races on shared memory) are the subject of the free-running -race pass, not of this check",
]
CHECK["claim"] += ' Fifth session: every unit of the value catalogue that has OPTIONAL scalar pointer fields which its generator leaves nil (e.g. the validator index of versioned attestations) also occurs with those fields set, on every path.'
