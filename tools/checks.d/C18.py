from common import ENUMX_ASSUME

_PKGS = {
    'core/dutydb': 'TestVerifC18DutyDB',
    'core/parsigdb': 'TestVerifC18ParSigDB',
    'core/aggsigdb': 'TestVerifC18AggSigDB',
    'core/sigagg': 'TestVerifC18SigAgg',
    'core/scheduler': 'TestVerifC18Scheduler',
    'core/fetcher': 'TestVerifC18Fetcher',
    'core/validatorapi': 'TestVerifC18VAPI',
    'core/parsigex': 'TestVerifC18ParSigEx',
    'core/consensus/qbft': 'TestVerifC18Consensus',
}

CHECK = {'pkgs': list(_PKGS),
 'files': {p: ['zz_verif_c18_test.go'] for p in _PKGS},
 'libs': ['enumx', 'alias'],
 'run': dict(_PKGS),
 'level': 'exploration',
 'engine': 'enumx',
 'technique': 'tbd',
 'claim': 'tbd',
 'trusted': 'tbd',
 'rule': 'tbd',
 'budget_s': {'quick': 100, 'thorough': 1500}}
CHECK["assumptions"] = ENUMX_ASSUME
