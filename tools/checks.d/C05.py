from common import ENUMX_ASSUME

CHECK = {'pkgs': ['core/consensus/qbft'],
 'files': {'core/consensus/qbft': ['zz_verif_c05_test.go']},
 'libs': ['enumx'],
 'run': 'TestVerifC05',
 'level': 'exploration',
 'engine': 'enumx',
 'technique': 'TODO',
 'claim': 'TODO',
 'trusted': 'TODO',
 'rule': 'TODO',
 'budget_s': {'quick': 100, 'thorough': 1500}}
CHECK["assumptions"] = ENUMX_ASSUME + []
