from common import ENUMX_ASSUME

CHECK = {'pkgs': ['core/consensus/qbft'],
 'files': {'core/consensus/qbft': ['zz_verif_c05_test.go', 'zz_verif_c05x_test.go']},
 'libs': ['enumx'],
 'run': 'TestVerifC05',
 'level': 'exploration',
 'engine': 'enumx',
 'technique': 'exhaustive enumeration of single alterations of valid consensus wire messages against the real receive path. Four real '
              'qbft.Consensus components (real NewConsensus, core.NewDutyGater, core.NewDeadliner + NewDutyDeadlineFunc, real eager-double-linear '
              'round timers, n=4 deterministic secp256k1 keys) are wired through a stub libp2p host: p2p.Sender writes the real delimited frames, '
              'the network hands them to the real stream handler registered by Consensus.Start (p2p.RegisterHandler with maxConsensusMsgSize, '
              'unmarshal, protonil.Check, handle). One scripted instance runs in virtual time (testing/synctest; round-1 COMMITs lost, member 3 '
              'receives no round-1 PREPARE) to a decision with a value prepared in round 1; every frame sent is captured = corpus of valid '
              'messages (plus a DECIDED built with the package\'s createMsg from the captured COMMIT quorum). Every corpus message x alteration '
              'family is fed to a fresh receiver component (fake clock pinned inside the duty\'s slot) through handle (after the wire round trip '
              'and protonil.Check) or, for raw input, through the registered stream handler; rejected input must leave the per-duty instance '
              'map and every receive buffer unchanged. Boundary-slot dimension: the peer-controlled duty slot (uint64) is enumerated over every power '
              'of two and its neighbours and over the overflow boundaries of slot arithmetic, x every duty type, (a) against the function '
              'returned by core.NewDutyGater called directly with the clock pinned (option-less constructor = default window and time.Now inside '
              'a testing/synctest bubble whose fake clock stands still, and WithDutyGaterForT with 0/1/2/5 allowed epochs; 3 beacon specs x 11 '
              'clocks, 4 of them before genesis) and (b) as correctly signed messages of every kind (justifications signed again as well) '
              'through handle of a component wired to the option-less core.NewDutyGater, core.NewDutyDeadlineFunc and core.NewDeadliner on '
              'the bubble\'s fake clock; the expectation is recomputed with math/big. History dimension: the alteration families that leave '
              'signatures as they are (fields, subst, cross-duty) run against ONE long-lived component per unit whose buffers are not emptied: '
              'A = the genuine messages first (every message used as a justification, transitively, delivered as the main message it once was, '
              'then the message itself), then every altered copy, then the genuine messages again; B = after each altered copy the genuine '
              'messages whose signatures it carries and the base message; F = like B on a fresh component per altered copy; C = after all '
              'genuine messages of the other duty\'s instance as well. Differential oracle: every delivery (altered or genuine) must get the '
              'verdict that a component without any history gives the same bytes. Context dimension (the handler\'s context ends while a message is '
              'being processed): handle is called with a context.Context of the harness that reports done from its k-th observation on (calls '
              'of Err and Done are counted - the value contexts that handle derives delegate both to it; from the k-th observation on Err '
              'returns the cause and Done hands out a channel that is already closed, a channel handed out earlier is closed at that moment), '
              'with the runtime\'s choice among ready select cases pinned (runtime.VerifSetSelMode 1 and 2: when "enqueue" and "ctx.Done()" are '
              'both ready the two modes take different branches, counted per mode); subjects are the altered messages of the generators fields / '
              'subst / cross / extra that must be rejected because of a justification, and the messages an undisturbed run accepts; every run '
              'starts with an empty instance map. Sequence dimension (local life-cycle calls and the expiry window): one new component per '
              'sequence with the deadliner of core.NewDeadliner on a clockwork fake clock (core.NewDeadlinerForT), the real '
              'core.NewDutyDeadlineFunc, core.NewDutyGater on the same clock, Start called as in production; the deadliner\'s output is '
              'handed to the component\'s reader goroutine only when the sequence says so (a wrapper whose C() is fed from the real C() by '
              'operation C); all sequences over {valid peer message of each kind through handle, local Propose, local Participate (each in a '
              'goroutine of its own, real qbft.Run), clock to the duty\'s deadline, clock 1 ns past it, C} that end in a peer message run inside a '
              'testing/synctest bubble (synctest.Wait after every operation = deadliner, reader and instance goroutines have settled; the '
              'bubble\'s own clock never moves, so no round timer fires), also with the deadliner\'s 10-slot output channel already full (its '
              'notification for the duty under test is dropped); the expectation of every delivery is recomputed from the fake clock',
 'claim': 'Corpus (duty attester/slot 1001, leaders member 0/1/2 in rounds 1/2/3): 26 messages = PRE-PREPARE r1 (no justification), PRE-PREPARE r3 '
          'justified by 3 ROUND-CHANGE + 4 PREPARE, 8 PREPARE (r1,r3), 7 COMMIT (r1,r3), 2 ROUND-CHANGE without and 6 with prepared certificate '
          '(3 PREPARE each), DECIDED r3 with 3 COMMIT; every one is first accepted unaltered by the fresh receiver. The real eager timer ends '
          'round 2 the moment it starts, so the decision falls in round 3, not 2. Quick: the first message of each of the 7 kinds; thorough: '
          'all 26. Families per message: (wire) every byte of the frame payload xor each single-bit mask (quick: 0x01 and 0x80; thorough: all 8 '
          'bits); (fields) protoreflect walk over msg, msg.duty, every justification[i] and its duty: every scalar x {+1,-1,0..6,-1,n,max,min; '
          'slot: other duty / expired / far / first gated / last allowed / expiry boundary; duty type -1..14,max,min}, every bytes field x {byte '
          'inverted at each position (quick: 8 positions), truncated, extended, zeroed, emptied, recovery id +27}, sub-message cleared, an unknown '
          'field added at each level - signatures untouched; (resigned) the same scalar alphabet and hash changes with the altered QBFTMsg signed '
          'again by the member it names; (values) per referenced value: removed, duplicated, replaced by each other valid value, type URL '
          'replaced by each of 8 other message type names that are registered in the binary / other prefix / emptied, payload truncated/extended/emptied, every single-field change '
          'of the inner UnsignedDataSet re-packed (key, entry removed/added, data bit flipped at every position (quick: 16), truncated, extended, '
          'emptied); list reordered, unreferenced valid / empty / garbage value appended, all removed; (subst) justification from another '
          'duty\'s instance (both directions), from the same instance, message or justification signed by every other member\'s key with and '
          'without naming it, foreign key, signature taken from every other corpus message (quick: 3), from/to each justification, between '
          'justifications, justifications reordered/dropped, message as its own justification, whole message correctly re-signed for 15 other '
          'duties (expired, far future, invalid types, gater and expiry boundaries, exempt); (limits) 2n-1..3n justifications, values at '
          'limit-1..2*limit+1, peer index n/-1/max, round 0/-1, prepared round -1/min/round/round+1, type 0/6, all correctly signed; (raw) every '
          'truncation of the frame, every truncation of the payload re-framed, length prefix beyond the cap, all byte strings of length <= 2, a '
          'really oversized frame (32 MiB+1 value) and the same just below the cap. Oracle: a QBFTMsg is authentic iff exactly that content was '
          'signed in this process by the key of the member it names (registry of everything the real components and the harness ever signed); '
          'must-reject = main message or a justification not authentic, unknown peer, type/round/prepared round out of range, duty invalid / '
          'beyond the window / expired, justification duty differs, more than 2n justifications or 2(j+1) values, a referenced hash not '
          'resolvable by an attached value of the same message type and content as the value it was made for, undecodable or oversized frame. '
          'Everything else may be accepted (and must then be enqueued unchanged, exactly once). Second half: in the live runs (scripted instance '
          'and a plain second instance, also with a member that re-labels the type of the values it forwards) every honest member that decided '
          'must have handed its subscriber exactly the deterministic proto bytes of the proposal of the round-1 leader = value of the agreed hash. '
          'Boundary slots (both tiers unless stated): slot set S(clock) = for every k in 0..63 {2^k-1, 2^k, 2^k+1, 2^k+cur, 2^k+cur+3*slotsPerEpoch} '
          '+ {M-1, M, M+1, M+cur} with M = MaxInt64/slotDuration[ns] + {2^63-1, 2^63, 2^63+1000, 2^64-1} + {last allowed slot, first gated slot, '
          '+1, cur, cur+3*spe-1, cur+3*spe} (cur = current slot; about 330 distinct slots). (a) direct: S x duty types {-1..15, MaxInt32, MinInt32, '
          '2^32+2, -2^32+2} x specs {12s/32, 5s/16, 1s/8} x clocks {genesis, +1ns, slot 1 -1ns, epoch 1 -1ns, epoch 1, slot 1001+3/8, slot '
          '10000019+3/5, genesis -1ns, -1 slot, -1 epoch, -1000 epochs -1ns} x gaters {option-less, ForT with 0,1,2,5 allowed epochs}; '
          'expectation: allowed iff 1 <= type <= 13 and floor(slot/spe) <= floor(floor((now-genesis)/slotDuration)/spe) + allowed epochs (2 for '
          'the option-less gater); both directions are violations; with the clock before genesis only "an invalid type is refused" is judged. '
          '(b) through handle: every corpus message of the tier (quick 7, thorough 26) x S(slot 1001 + 4.5 s) x wire duty types {-1..14, '
          'MaxInt32, MinInt32}, message and all justifications signed again for that duty (thorough: also with only the message re-signed, and '
          'the whole product a second time with the clock at slot 10000019 + 7.3 s); must-reject rules as above with the duty window and '
          'deadline table computed in math/big for the component\'s clock; a rejected message must leave instance map and buffers unchanged. '
          'History: per corpus message of the tier, units hist-A/B/F x {fields, subst} and hist-C/B/F x cross; fields = every scalar of msg, '
          'msg.duty, justification[i], justification[i].duty x the scalar alphabet, every bytes field x the bytes alphabet, value hash and '
          'prepared value hash = hash of another valid value with that value attached, the duty rewritten consistently in the message and all '
          'justifications (5 duties) - i.e. every signed field (type, round, value hash, prepared round, prepared value hash, peer index, duty '
          'slot, duty type) changed under a reused genuine signature at the main position and at every justification position; cross = per '
          'position: the element with the signature its member made in the other duty, the other duty\'s message relabelled and put in this '
          'place with its value, every message of the other duty relabelled as this duty, this message relabelled as the other duty, the '
          'other duty\'s PREPARE carrying these justifications relabelled. Must-reject oracle as above, rejected = instance map, flags and '
          'buffer lengths unchanged, accepted = exactly one more entry in the buffer of its duty equal to what was sent; genuine messages '
          'must be accepted before, between and after; verdict with history == verdict without. '
          'Context: per corpus message of the tier the units ctx/fields (every 4th - thorough 8th - eligible message per unit), ctx/subst, ctx/cross '
          '(generators as above) and ctx/extra = the unaltered message, and a round-1 PREPARE of the same instance appended / prepended as a '
          'justification {as it is, one signature bit flipped, signed by the next member\'s key without naming it, the PREPARE of the other '
          'duty\'s instance instead, round+1 under the old signature}. Eligible = (a) the oracle says must-reject and the first broken rule is at a '
          'justification (unknown-peer, unsigned-content, bad-signature, wrong-signer, bad-field, just-duty-mismatch, malformed: i.e. every signed '
          'field of every justification altered under the reused signature, signature bytes altered, another member\'s key, justifications '
          'of the other duty) or (b) not must-reject and accepted by the undisturbed run. Each x k in {never, 0..K}, K = 1 + max(observations of '
          'the undisturbed run, justifications + 2) (a message with j justifications is observed j + 2 times: j in the loop, after the '
          'verification, in the final select) x select mode {1, 2} x cause {DeadlineExceeded; thorough also Canceled}. Oracle (a): handle returns '
          'an error (the context\'s or the verification\'s), no entry in any receive buffer, instance map unchanged (still empty); (b): nil and '
          'exactly this message once in the buffer of its duty, or an error e with errors.Is(e, cause) and no buffer entry (an empty instance IO of '
          'its duty may exist) - nothing else. Sequences: duty {attester slot 1001 = the corpus messages; proposer slot 1001 = the same 7 messages, '
          'first of each kind, and their justifications signed again for it} x deadliner output {empty; full} x all sequences of length 1..3 '
          '(thorough 1..4) over the 12 operations {m:K for the 7 kinds, P = Propose, Q = Participate, T0 = clock to the deadline, T = clock to '
          'deadline + 1 ns (again: + 1 slot), C = pending expiry notifications reach the component} ending in m: 1099 (thorough 13195) sequences '
          'per (duty, output), 4396 (52780) in total; the clock starts 4.5 s into slot 1001 (attester deadline 385 s - 4.5 s ahead, proposer '
          'deadline 0.5 s ahead). Every peer message of a sequence is judged: expired (now - genesis > slot*12 s + duration(type) + 1 s, math/big) '
          '=> handle returns an error, instance map / flags / buffer lengths unchanged, and no instance that is running receives it (checked on '
          'what the instances sniffed, after the sequence); not expired (including now == deadline) => handle returns nil and, while no local '
          'call has started an instance, exactly one more entry, equal to the message, in the buffer of its duty. States reached at an expired '
          'delivery (counted): no IO (notification consumed, or nothing created), IO with buffered messages while the notification is pending or '
          'dropped, IO created by Propose / Participate after the deadline (running flag set, never deleted), IO of an instance that was '
          'started before the deadline and still runs',
 'trusted': 'decred secp256k1 (unforgeability: only what was signed here can verify), protobuf-go (deterministic marshal, Any), fastssz via '
            'hashProto for building the table of known values (cross-checked against the captured messages), testutil Random*Seed generators as '
            'value alphabet. The oracle does not call verifyMsg, verifyMsgLimits, valuesByHash, newMsg, the gater or the deadliner; the duty '
            'window and deadline table are re-implemented (math/big, no fixed-width arithmetic on the oracle\'s side); the default of two allowed '
            'future epochs is a constant of the harness. testing/synctest: inside a bubble time.Now is a fake clock that does not move while a '
            'goroutine is runnable. The differential oracle trusts that a newly built component has no history (no package-level state). verifyMsgSig is consulted only to excuse the acceptance of an equivalent encoding of '
            'an unchanged message\'s signature (recovery id 27/28). A correctly signed message with prepared round >= round, or for an exempt '
            'duty type, is outside the statement: whatever handle does with it is not judged. Context dimension: the go1.26.8 runtime overlay '
            '(VerifSetSelMode) decides which ready select case runs; the compiler lays the send case of handle\'s final select before its receive '
            'case (mode 1 = enqueue, mode 2 = ctx.Done(); the harness counts both outcomes instead of relying on it). Sequence dimension: '
            'clockwork.FakeClock (Advance fires the deadliner\'s timers; a timer set with a non-positive duration fires at once), '
            'testing/synctest.Wait as the quiescence point; the deadline table of core/deadline.go is re-implemented in the harness',
 'rule': 'one evaluation = one altered frame handed to a real receiver (fresh per unit; history families: the long-lived receiver of the unit, '
         'plus one evaluation per genuine message delivered before/after), or one call of the gater function, or one call of handle under one '
         '(k, select mode, cause), or one operation sequence on a new component; distinct = (message kind, '
         'family or history mode, field path or region, alteration kind) resp. (gater kind, slot class, duty type) resp. (message kind, '
         'alteration class, phase of k: in the loop / post-verification check / enqueue select / beyond, select mode) resp. (duty, output '
         'full?, sequence with message kinds collapsed, kind of the last message)',
 'budget_s': {'quick': 100, 'thorough': 1500}}
CHECK["assumptions"] = ENUMX_ASSUME + [
    "one cluster size (n=4, f=1), one duty type (attester) for the corpus; values are single-entry attestation data sets",
    "one alteration at a time (plus the stated combinations in the limits family); the receiver has no running instance for the duty "
    "(nobody consumes the receive buffers; the history families empty them, as a consumer would, when one holds more than 80 of its 100 entries)",
    "history: clocks do not move during a unit (no duty expires while the component lives); history length is bounded by one unit "
    "(genuine prefix of at most 8 messages plus the altered copies of one family, up to a few thousand deliveries); the replay file of a "
    "history violation reproduces the genuine prefix and the one altered copy, not the altered copies delivered before it",
    "boundary slots: slot durations 12 s, 5 s, 1 s with 32, 16, 8 slots per epoch for the direct calls, 12 s/32 through handle; clocks "
    "at most 3.8 years after genesis (time.Time.Sub saturates at 292 years; not explored)",
    "context dimension: the context is seen only through Err and Done (it has no deadline and no values), it never goes back from done to "
    "not done, the receive buffer always has room (the enqueue case of the final select is always ready), one message per component state "
    "(instance map emptied before every call)",
    "sequence dimension: n=4, the receiver is member 3, messages come from the peer with index 0; two duties (attester and proposer of slot "
    "1001), one duty per sequence; peer messages are the first corpus message of each kind (valid, also in combination: the instance that a local "
    "call started may act on them, e.g. decide on the DECIDED message); local calls are not made concurrently with a delivery (every operation "
    "runs to quiescence first); round timers never fire; the expiry notification is released or withheld as a whole (operation C), lost only "
    "through the full output channel; sequence length <= 3 (thorough 4); whether a rejected message reached a running instance is judged on the "
    "sniffed messages, which assumes the instance itself never sends a message equal to one of the 7 peer messages (true without timeouts)",
    "goroutine preemption inside the virtual-time run is not controlled: the run is repeated until it yields the expected 26 message keys; "
    "which three members form a quorum inside a justification may differ between shards",
]
CHECK["claim"] += ' Fifth session: referenced values also with WELL-FORMED unknown fields (varint field 15, bytes field 1000, highest field number) appended and prepended.'
