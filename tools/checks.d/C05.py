from common import ENUMX_ASSUME

CHECK = {'pkgs': ['core/consensus/qbft'],
 'files': {'core/consensus/qbft': ['zz_verif_c05_test.go']},
 'libs': ['enumx'],
 'run': 'TestVerifC05',
 'level': 'exploration',
 'engine': 'enumx',
 'technique': 'exhaustive enumeration of single alterations of valid consensus wire messages against the real receive path. Four real '
              'qbft.Consensus components (real NewConsensus, core.NewDutyGater, core.NewDeadliner + NewDutyDeadlineFunc, real eager-double-linear '
              'round timers, n=4 deterministic secp256k1 keys) are wired through a stub libp2p host: p2p.Sender writes the real delimited frames, '
              'the network hands them to the real stream handler registered by Consensus.Start (p2p.RegisterHandler with maxConsensusMsgSize, '
              'unmarshal, protonil.Check, handle). One scripted instance runs in virtual time (testing/synctest; round-1 COMMITs lost, member 3 '
              'receives no round-1 PREPARE) to a decision with a value prepared in round 1; every frame sent is captured = corpus of valid '
              'messages (plus a DECIDED built with the package\'s createMsg from the captured COMMIT quorum). Every corpus message x alteration '
              'family is fed to a fresh receiver component (fake clock pinned inside the duty\'s slot) through handle (after the wire round trip '
              'and protonil.Check) or, for raw input, through the registered stream handler; rejected input must leave the per-duty instance '
              'map and every receive buffer unchanged',
 'claim': 'Corpus (duty attester/slot 1001, leaders member 0/1/2 in rounds 1/2/3): 26 messages = PRE-PREPARE r1 (no justification), PRE-PREPARE r3 '
          'justified by 3 ROUND-CHANGE + 4 PREPARE, 8 PREPARE (r1,r3), 7 COMMIT (r1,r3), 2 ROUND-CHANGE without and 6 with prepared certificate '
          '(3 PREPARE each), DECIDED r3 with 3 COMMIT; every one is first accepted unaltered by the fresh receiver. The real eager timer ends '
          'round 2 the moment it starts, so the decision falls in round 3, not 2. Quick: the first message of each of the 7 kinds; thorough: '
          'all 26. Families per message: (wire) every byte of the frame payload xor each single-bit mask (quick: 0x01 and 0x80; thorough: all 8 '
          'bits); (fields) protoreflect walk over msg, msg.duty, every justification[i] and its duty: every scalar x {+1,-1,0..6,-1,n,max,min; '
          'slot: other duty / expired / far / first gated / last allowed / expiry boundary; duty type -1..14,max,min}, every bytes field x {byte '
          'inverted at each position (quick: 8 positions), truncated, extended, zeroed, emptied, recovery id +27}, sub-message cleared, an unknown '
          'field added at each level - signatures untouched; (resigned) the same scalar alphabet and hash changes with the altered QBFTMsg signed '
          'again by the member it names; (values) per referenced value: removed, duplicated, replaced by each other valid value, type URL '
          'replaced by each of 8 other message type names that are registered in the binary / other prefix / emptied, payload truncated/extended/emptied, every single-field change '
          'of the inner UnsignedDataSet re-packed (key, entry removed/added, data bit flipped at every position (quick: 16), truncated, extended, '
          'emptied); list reordered, unreferenced valid / empty / garbage value appended, all removed; (subst) justification from another '
          'duty\'s instance (both directions), from the same instance, message or justification signed by every other member\'s key with and '
          'without naming it, foreign key, signature taken from every other corpus message (quick: 3), from/to each justification, between '
          'justifications, justifications reordered/dropped, message as its own justification, whole message correctly re-signed for 15 other '
          'duties (expired, far future, invalid types, gater and expiry boundaries, exempt); (limits) 2n-1..3n justifications, values at '
          'limit-1..2*limit+1, peer index n/-1/max, round 0/-1, prepared round -1/min/round/round+1, type 0/6, all correctly signed; (raw) every '
          'truncation of the frame, every truncation of the payload re-framed, length prefix beyond the cap, all byte strings of length <= 2, a '
          'really oversized frame (32 MiB+1 value) and the same just below the cap. Oracle: a QBFTMsg is authentic iff exactly that content was '
          'signed in this process by the key of the member it names (registry of everything the real components and the harness ever signed); '
          'must-reject = main message or a justification not authentic, unknown peer, type/round/prepared round out of range, duty invalid / '
          'beyond the window / expired, justification duty differs, more than 2n justifications or 2(j+1) values, a referenced hash not '
          'resolvable by an attached value of the same message type and content as the value it was made for, undecodable or oversized frame. '
          'Everything else may be accepted (and must then be enqueued unchanged, exactly once). Second half: in the live runs (scripted instance '
          'and a plain second instance, also with a member that re-labels the type of the values it forwards) every honest member that decided '
          'must have handed its subscriber exactly the deterministic proto bytes of the proposal of the round-1 leader = value of the agreed hash',
 'trusted': 'decred secp256k1 (unforgeability: only what was signed here can verify), protobuf-go (deterministic marshal, Any), fastssz via '
            'hashProto for building the table of known values (cross-checked against the captured messages), testutil Random*Seed generators as '
            'value alphabet. The oracle does not call verifyMsg, verifyMsgLimits, valuesByHash, newMsg, the gater or the deadliner; the duty '
            'window and deadline table are re-implemented. verifyMsgSig is consulted only to excuse the acceptance of an equivalent encoding of '
            'an unchanged message\'s signature (recovery id 27/28). A correctly signed message with prepared round >= round, or for an exempt '
            'duty type, is outside the statement: whatever handle does with it is not judged',
 'rule': 'one evaluation = one altered frame handed to a fresh-per-unit real receiver; distinct = (message kind, family, field path or region, '
         'alteration kind)',
 'budget_s': {'quick': 100, 'thorough': 1500}}
CHECK["assumptions"] = ENUMX_ASSUME + [
    "one cluster size (n=4, f=1), one duty type (attester) for the corpus; values are single-entry attestation data sets",
    "one alteration at a time (plus the stated combinations in the limits family); the receiver has no running instance for the duty",
    "goroutine preemption inside the virtual-time run is not controlled: the run is repeated until it yields the expected 26 message keys; "
    "which three members form a quorum inside a justification may differ between shards",
]
