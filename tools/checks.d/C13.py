from common import STATEX_ASSUME

CHECK = dict(
    pkgs=["dkg/bcast"],
    libs=["enumx", "schedx", "vsync"],
    vsync=["dkg/bcast/server.go"],
    run="TestVerifC13",
    level="model_checking",
    engine="statex",
    technique="explicit-state model checking of the implementation: breadth-first search over all sequences of handler calls a faulty member can "
              "make (signature requests, messages with every constructible signature list) against the real bcast servers of the honest members, "
              "interleaved with honest broadcasts running the real client code; states are canonical dumps of the servers' private dedup maps",
    claim="all states reachable within depth 6/5 (quick, n=3/4) and 9/7/6/5 (thorough, n=3..6) for every position of the faulty member; signature "
          "lists: genuine, every single substitution (other session, other id, other payload, other signer), permutations, wrong lengths, relayed "
          "complete sets observed from honest broadcasts",
    trusted="the fake libp2p host (handlers are invoked directly with the authenticated sender id, as p2p.RegisterHandler would after decoding); "
            "recording wrapper around each member's real signer",
    rule="Part B: preemption-bounded interleavings (<=2 quick, <=3 thorough) of concurrent signature requests of a faulty sender for two payloads at every honest member, scheduling points at the servers' locks, followed by the delivery attempt; Part A: BFS, successor = replay of the event history on fresh real components + one event; distinct = distinct global states",
    assumptions=["authenticated streams: a handler sees the true peer id of the caller",
                 "one faulty member; payload alphabet {1,2} for the faulty member and one fixed payload per honest member; message ids {msg,msg2}"],
    budget_s={"quick": 100, "thorough": 1500},
    shards={"quick": 3, "thorough": 8},
    gomaxprocs=5,
)
CHECK["claim"] += ' Fifth session: the faulty member also presents WHOLE signature lists that are genuine and complete for something else (the other payload of the id, the other id, the other session) with this payload; the two ceremony sessions are related identifiers (33 bytes, equal in the first 32).'
