from common import ENUMX_ASSUME

CHECK = dict(
    pkgs=["core"],
    files={"core": ["zz_verif_c16_test.go"]},
    libs=["enumx"],
    run="TestVerifC16",
    level="model_checking",
    engine="timex",
    technique="exhaustive enumeration of all operation sequences (Add of 6-8 duties incl. shared deadlines, never-expiring and already-expired ones; "
              "clock advances of 0.5s and 1s, a jump of 2.5s past two deadlines, and a 2s jump with an Add issued before the deadliner has reacted, both select orders) up to a length bound against the real deadliner on a fake clock, judged by a reference set model",
    claim="every sequence over the alphabet {Add(A..H), advance 0.5s, advance 1s, jump 2.5s, jump 2s + simultaneous Add(A..D) (at most once)} up to length 5/4 (quick) and 6/5 (thorough), all map iteration "
          "orders for duties sharing a deadline; oracle: status of every Add, exactly-once report, never early, deadline order, nothing for late or "
          "never-expiring duties",
    trusted="testing/synctest virtual time; harness actions and deadlines never coincide in time (0.25s offset), so timer/Add races are explored "
            "as orderings (Add just before / just after a deadline), not as simultaneous events",
    rule="sequences enumerated depth-first; non-trivial class = multiset of Add statuses + number of reports",
    assumptions=ENUMX_ASSUME + ["at most 4 duties share one deadline (the output channel holds 10; bigger bursts race the consumer by design)"],
    budget_s={"quick": 100, "thorough": 1500},
)
CHECK["claim"] += ' Fifth session, part F (instants off the grid): deadlines with sub-millisecond parts, two in the same millisecond, two one nanosecond apart; the clock visits every truncation / rounding instant (ms, us, +-1 ns) of every deadline; every interleaving of the registrations (every subset, every order) with that walk, three map rotations, both select orders.'
