from common import ENUMX_ASSUME

CHECK = {'pkgs': ['core', 'core/consensus/qbft', 'core/priority'],
 'libs': ['enumx'],
 'run': {'core': 'TestVerifC14', 'core/consensus/qbft': 'TestVerifC14Hash', 'core/priority': 'TestVerifC14Priority'},
 'level': 'exploration',
 'engine': 'enumx',
 'technique': 'exhaustive enumeration of (a) all core data types x fork versions x encodings (JSON, SSZ, proto with SSZ and with JSON payloads, '
              'Clone, SetSignature) x all map rotations and (b) every single structural mutation of every valid encoding (JSON tree walker, SSZ '
              'truncation / offset / byte smashing, type confusion through the duty type, proto-level and frame-level malformations), each pushed '
              'through the real receive stacks: frame bytes -> p2p.RegisterHandler stream closure -> parsigex.handle -> ParSignedDataSetFromProto -> '
              'parsigex.NewEth2Verifier -> parsigdb.StoreExternal -> sigagg.Aggregate -> JSON encode; UnsignedDataSetFromProto -> dutydb.Store -> '
              'Await*; the real qbft Decide/Compare callbacks; the priority message verifier/calculateResult/topicResultFromProto',
 'claim': '(a) 64 type/version units (AttestationData; VersionedProposal and VersionedSignedProposal phase0..fulu full and blinded; '
          'VersionedAggregatedAttestation, VersionedAttestation (with, without and with zero validator index), VersionedSignedAggregateAndProof '
          'phase0..fulu; legacy AggregatedAttestation and SignedAggregateAndProof; SyncContribution(s); exit, registration v1, randao, beacon/sync '
          'committee selection, sync message, (signed) contribution-and-proof, Signature) x 3 testutil-generated instances: JSON, SSZ, proto '
          '(SSZ and JSON payload, over the wire) and Clone round trips compared by JSON bytes, SSZ bytes, MessageRoot/HashTreeRoot, Signature, '
          'ShareIdx and reflect.DeepEqual; clone deepness by scribbling over everything reachable from the clone; 1..4-entry sets under map '
          'rotations 0..3 and 2-3 insertion orders: identical deterministic proto bytes and identical hashProto (also after a wire round trip). '
          '(b) for every unit (quick: 1 instance, thorough: 3): every JSON node x {null, 5 wrong types, [], [null], {}, removed, "", hex '
          'shortened/extended/zeroed/all-ones, numeric -1/0/2^64-1/2^128, bool flipped, version renamed to every other fork}; SSZ: every '
          'truncation length (quick: every length for encodings <= 4 KiB, else header+tail+offset/chunk boundaries), one trailing byte, every '
          '4-byte word in the first 512 B (thorough 4 KiB) set to {0,1,len-1,len,len+1,2^32-1}, every byte of the first 160 B set to {0,255} (thorough: every byte, {0,1,255}); '
          ' both encodings of every unit under all duty types (-1..14, 2^20) on both decode paths; proto shapes (nil/empty data, nil '
          'entry, empty/missing set, share index 0,-1,min/max int32,5,255, malformed pubkeys); every prefix of a valid parsigex frame and all byte '
          'strings of length <= 2 as frames for the parsigex, qbft and priority request types; 20 topic shapes x 4 duty x 4 peer-id x 5 signature '
          'shapes of PriorityMsg, in memory and over the wire. Oracle: no panic outside the two documented recover()s, round trips lossless',
 'trusted': 'testutil Random* generators as the value alphabet; the BLS pairing equation is not evaluated (tbls.Verify stubbed to "invalid"; a '
            'cluster peer can sign any root it can compute, so a partial signature counts as valid when every check of the real verifier before '
            'the BLS equation passes); beaconmock as eth2 client; a fake libp2p host/stream delivers the frame bytes to the real stream handler; '
            'noop deadliners; go-eth2-client and fastssz decoders are exercised as they are (their gaps surface as charon panics)',
 'rule': 'one evaluation = one input pushed through a real path; distinct = (round-trip step | mutation kind) x type/version',
 'budget_s': {'quick': 100, 'thorough': 1500}}
CHECK["assumptions"] = ENUMX_ASSUME
