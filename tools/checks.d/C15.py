from common import ENUMX_ASSUME

CHECK = dict(
    pkgs=["core/scheduler"],
    files={"core/scheduler": ["zz_verif_c15_test.go"]},
    libs=["enumx"],
    run="TestVerifC15",
    level="fault_enumeration",
    engine="timex",
    technique="exhaustive enumeration of assignment-table x start-slot x failing-call x slow-call (x chain-reorg) scripts, each executed on "
              "the real scheduler.New + Run (real clock, default delay function) over the real eth2wrap ValidatorCache + DutiesCache and a "
              "scripted beacon-node stub inside a testing/synctest bubble, judged in exact virtual time from the duty-subscriber log, the "
              "slot-subscriber log and the stub's call log; plus a WALL-CLOCK STEP dimension: in scripts with a step the scheduler reads "
              "its wall clock through a clock seam (a clockwork.Clock whose Now/Since/Until = bubble time + offset while "
              "After/Sleep/NewTimer/NewTicker/AfterFunc stay on the bubble's monotonic clock for the requested duration; the production "
              "delay function time.After(time.Until(deadline)) stays in the loop and is handed deadline-offset, i.e. its time.Until reads "
              "the stepped clock), the script steps the offset once, and every trigger / tick is logged with both the monotonic instant "
              "and the node's clock reading",
    claim="complete product of 5 assignment tables (attester duty in first/last slot of the epoch; two proposals by one validator and three "
          "validators attesting in one slot; proposer duty in the first slot of the run and of later epochs; sync-committee duties across epoch "
          "boundaries; a misbehaving node returning duties of un-asked validators and a proposer duty with a wrong pubkey for a known index) x "
          "start slot in {first, second, last} of an epoch x every placement of <=1 (quick) / <=2 (thorough) failing calls among the first 16 "
          "calls to validators/attester/proposer/sync duties x {no slow call, one of the first 16 calls taking 1.5 / 2.5 / 3.5 slots (late and "
          "skipped ticks)} x chain-reorg event {none; 5 s into run slot 2, 3 or 7, delivered to HandleChainReorgEvent (feature on) and to the duties "
          "cache}; 4 slots/epoch, 12 s slots, 12 slots per run, cluster validators 1,2 active, 3 activating at the third epoch, 4 exited, "
          "foreign validator 9. HEAD EVENTS: with the feature FetchAttOnBlock resp. FetchAttOnBlockWithDelay enabled and a fetch-only function registered, one SSE head event for run slot k (k=1..9) is handed to HandleHeadEvent 250 ms or 50 ms BEFORE the start (tick) of that slot, 100 ms after it or 100 ms before the attester offset - 2 features x 5 tables x 3 start slots x 9 slots x 4 instants = 1080 scripts, same oracle (the attester duty is triggered once, not before its offset, with the assigned definitions); counter head_event_early_fetches_started. CLOCK STEPS: complete product of one wall-clock step of delta in {-48 s (one epoch), -18 s (1.5 slots), "
          "-6 s (half a slot), -1 ms, +1 ms, +6 s, +18 s, +48 s} x instant in {250 ms before the start of run slot k (k=1..11), 250 ms "
          "after it (k=1..11), 5.5 s into run slot k (k=0..11, between the attester and the aggregator offset) - this includes just "
          "before / after every epoch boundary of the run - and 'while beacon call #c is in flight' (c=0..15: the call takes 1 s, the "
          "step happens 0.5 s into it; if the same call is also the slow call, the slow duration follows; a call index the run never "
          "reaches = no step, counted)} = 400 steps, combined: quick = step alone on all 5 tables x 3 start slots, and step x one "
          "failing call (16 placements) on the first table x 3 start slots; thorough = on all 5 tables x 3 start slots: step alone, "
          "step x one failing call (16), step x one slow call (16 placements x 1.5/2.5/3.5 slots), step x reorg event (run slot 2, 3, 7)",
    trusted="testing/synctest virtual time; the stub answers exactly for the indices/pubkeys it is asked about; map iteration rotation and "
            "select order pinned (runtime overlay: receive cases polled in source order) so that a script replays identically up to the order "
            "of same-instant events and the race at the stop instant; the per-epoch cache refresh of app/app.go is "
            "replayed through the scheduler's schedSlotFunc test hook (synchronously, at the first delivered tick of each epoch)",
    rule="SAFETY (every script): no (duty type, slot) triggered twice; every triggered definition set == the table's assignment for that slot "
         "and type restricted to cluster validators active in that epoch (same validators, byte-equal marshalled definitions); nothing for "
         "validator 9, 4, 3-before-activation, unassigned slots or the wrong-pubkey duty; trigger instant >= own-computed slot start + "
         "slotOffsets[type]. COMPLETENESS (scripts without reorg): epoch E counts as resolved from instant T(E) = max over {attester, "
         "proposer, sync} of the return instant of the first successful stub call of that kind for E whose index list covers all cluster "
         "validators active in E (never, if one kind has none). A duty (type, slot s) with a non-empty expected set is REQUIRED to have been "
         "triggered (exactly once) iff the slot subscriber received the tick of s, start(s) > T(epoch(s)) strictly, start(s)+slot <= stop "
         "instant and the scheduler had already begun scheduling a later slot strictly before the stop instant. In the slot in which "
         "resolution completes (or earlier) triggering is allowed but not required. One exemption in the safety part: a duty of validator 3 "
         "in an epoch before its activation is not held against the scheduler once the node itself has reported 3 as active (a validators "
         "answer for a state in the activation epoch or later returned before the trigger - the 'head' fallback answered while a late tick "
         "of the previous epoch is processed); only the stub, unlike a real node, assigns duties before activation. "
         "CLOCK-STEP SCRIPTS: the unconditional clauses (no duty twice; nothing for foreign / inactive / unassigned; definition sets equal "
         "the node's assignment) are unchanged and strict. 'Not before its time' is judged on the node's own clock at the moment of the "
         "trigger (clock reading >= slot start + offset); after a BACKWARD step a trigger that is early by the stepped clock but on time "
         "by the clock without the step (the time line on which its timer was armed) is counted (clock_step_triggers_early_by_stepped_clock_only) and not "
         "alarmed - the statement does not say which clock is the reference across a step, so only a trigger early on both time lines is "
         "a violation (env C15_STRICT_STEP_CLOCK=1 alarms on the stepped clock alone, for information). COMPLETENESS under a step: no "
         "slot is exempted because of the step as such; a duty (type, slot s) is required iff the tick of s was delivered at a monotonic "
         "instant strictly after T(epoch(s)) [instead of start(s) > T: a step makes ticks early, late or swallows them like a missed "
         "tick - a swallowed slot has no tick], s is later than every slot the scheduler had begun scheduling up to T (resolution drops "
         "duties of slots before the resolving one), the slot has ended for good by the stop instant [start(s)+slot, plus |delta| after "
         "a backward step, <= stop] and a later slot was being scheduled before the stop. Signatures of step scripts end in "
         "'dim=clock-step' (env C15_ONLY=base|step runs one part only and reports exhaustive:false). One open known finding of this "
         "dimension (thorough tier): C15-clock-epoch-ahead-activated-validator-dropped. "
         "Non-trivial class = table/start/failing-call kind@index/slow-call duration:kind@index(/reorg slot)(/step=delta@instant)",
    assumptions=ENUMX_ASSUME + [
        "C15 clock steps: the node's wall clock is modelled as monotonic time + one step (no slewing, no second step); timers are "
        "monotonic as in the Go runtime; the beacon node's own clock is not stepped; the step is visible to the scheduler through Scheduler.clock and through the "
        "deadline handed to its delay function - a direct time.Now() elsewhere in the package (today only the default delay function, "
        "which is covered, and waitForEarlyFetchOrTimeout behind the FetchAttOnBlock feature flags, which are off here) would read the unstepped bubble clock",
        "C15: under a wall-clock step, earliness is judged on the time line on which the timer was armed or the stepped clock, "
        "whichever is more lenient (the unchanged scheduler does not re-read the clock after a sleep: counter "
        "clock_step_triggers_early_by_stepped_clock_only)",
        "C15 clock steps: the stub answers validators / duties requests for states and epochs ahead of its own (unstepped) head, "
        "which a real beacon node refuses; with the node's clock ahead, resolution therefore succeeds here where it would be retried "
        "against a real node",
    ],
    budget_s={"quick": 120, "thorough": 1500},
)
