from common import ENUMX_ASSUME

CHECK = dict(
    pkgs=["core/scheduler"],
    files={"core/scheduler": ["zz_verif_c15_test.go"]},
    libs=["enumx"],
    run="TestVerifC15",
    level="fault_enumeration",
    engine="timex",
    technique="exhaustive enumeration of assignment-table x start-slot x failing-call x slow-call (x chain-reorg) scripts, each executed on "
              "the real scheduler.New + Run (real clock, default delay function) over the real eth2wrap ValidatorCache + DutiesCache and a "
              "scripted beacon-node stub inside a testing/synctest bubble, judged in exact virtual time from the duty-subscriber log, the "
              "slot-subscriber log and the stub's call log",
    claim="complete product of 5 assignment tables (attester duty in first/last slot of the epoch; two proposals by one validator and three "
          "validators attesting in one slot; proposer duty in the first slot of the run and of later epochs; sync-committee duties across epoch "
          "boundaries; a misbehaving node returning duties of un-asked validators and a proposer duty with a wrong pubkey for a known index) x "
          "start slot in {first, second, last} of an epoch x every placement of <=1 (quick) / <=2 (thorough) failing calls among the first 16 "
          "calls to validators/attester/proposer/sync duties x {no slow call, one of the first 16 calls taking 1.5 / 2.5 / 3.5 slots (late and "
          "skipped ticks)} x chain-reorg event {none; 5 s into run slot 2, 3 or 7, delivered to HandleChainReorgEvent (feature on) and to the duties "
          "cache}; 4 slots/epoch, 12 s slots, 12 slots per run, cluster validators 1,2 active, 3 activating at the third epoch, 4 exited, "
          "foreign validator 9",
    trusted="testing/synctest virtual time; the stub answers exactly for the indices/pubkeys it is asked about; map iteration rotation and "
            "select order pinned (runtime overlay: receive cases polled in source order) so that a script replays identically up to the order "
            "of same-instant events and the race at the stop instant; the per-epoch cache refresh of app/app.go is "
            "replayed through the scheduler's schedSlotFunc test hook (synchronously, at the first delivered tick of each epoch)",
    rule="SAFETY (every script): no (duty type, slot) triggered twice; every triggered definition set == the table's assignment for that slot "
         "and type restricted to cluster validators active in that epoch (same validators, byte-equal marshalled definitions); nothing for "
         "validator 9, 4, 3-before-activation, unassigned slots or the wrong-pubkey duty; trigger instant >= own-computed slot start + "
         "slotOffsets[type]. COMPLETENESS (scripts without reorg): epoch E counts as resolved from instant T(E) = max over {attester, "
         "proposer, sync} of the return instant of the first successful stub call of that kind for E whose index list covers all cluster "
         "validators active in E (never, if one kind has none). A duty (type, slot s) with a non-empty expected set is REQUIRED to have been "
         "triggered (exactly once) iff the slot subscriber received the tick of s, start(s) > T(epoch(s)) strictly, start(s)+slot <= stop "
         "instant and the scheduler had already begun scheduling a later slot strictly before the stop instant. In the slot in which "
         "resolution completes (or earlier) triggering is allowed but not required. One exemption in the safety part: a duty of validator 3 "
         "in an epoch before its activation is not held against the scheduler once the node itself has reported 3 as active (a validators "
         "answer for a state in the activation epoch or later returned before the trigger - the 'head' fallback answered while a late tick "
         "of the previous epoch is processed); only the stub, unlike a real node, assigns duties before activation. Non-trivial class = table/start/failing-call kind@index/"
         "slow-call duration:kind@index(/reorg slot)",
    assumptions=ENUMX_ASSUME,
    budget_s={"quick": 100, "thorough": 1500},
)
