from common import ENUMX_ASSUME


def splice_blsmemo(src, out):
    """Route the one call Herumi.Verify makes into the BLS library (bls.Sign.VerifyByte, pure and deterministic) through the
    memoising wrapper of harness/tbls/zz_verif_blsmemo.go (key = complete argument bytes). Nothing of charon's own code is
    bypassed; the memo only spares re-running the pairing for byte-identical (public key, message, signature)."""
    import os
    s = open(src).read()
    a = "signature.VerifyByte(&pubKey, data)"
    if s.count(a) != 1:
        return None
    s = s.replace(a, "verifVerifyByte(&signature, &pubKey, data, compressedPublicKey, rawSignature)")
    os.makedirs(os.path.dirname(out), exist_ok=True)
    open(out, "w").write(s)
    return out


CHECK = dict(
    pkgs=["core"],
    files={"core": ["zz_verif_c01_test.go", "zz_verif_c01b_test.go"]},
    libs=["enumx", "fakenet"],
    splice={"tbls/herumi.go": splice_blsmemo},
    extra_files={"tbls": ["zz_verif_blsmemo.go"]},
    run="TestVerifC01",
    level="exploration",
    engine="schedx-style deviation bounding over fakenet",
    technique="stateless model checking of the wired pipeline: exhaustive enumeration of all executions with a bounded number of deviations "
              "(drop, duplicate, out-of-order delivery of a wire packet, node crash, equivocating partial signature) from FIFO delivery, n real "
              "nodes (real consensus, dutydb, parsigdb, parsigex, sigagg, aggsigdb, bcast wired by core.Wire) in one virtual-time bubble on an in-memory network, "
              "judged at the beacon-node stub behind the real core/bcast, at Broadcaster.Broadcast and at AggSigDB.Store",
    claim="n=3 and n=4, attester duty, candidate data equal / all distinct / leader differs, optionally one node that also sends a partial "
          "signature made with its own share over other data, or one carrying such a signature on the common data, or floods every peer with one genuine "
          "partial signature of its own followed by the same signature under every other share index; or sends a GENUINE partial signature of its own share over "
          "the data another node proposes inside an object whose fields outside the signing root are of its choosing (validator index of the other cluster "
          "validator / of no validator; other aggregation and committee bits); one or two validators of the cluster attesting in "
          "the slot (separate threshold keys, one ParSigEx set / one Aggregate / one Broadcast call for both); attestations as deneb objects with "
          "validator index or as electra objects WITHOUT validator index (the form peers on v1.3.0-v1.4.1 send: the real broadcaster resolves the "
          "indices from the beacon node's duties by verifying the aggregate): every execution with <=1 deviation (quick) / <=2, <=3 for n=3 (thorough) at any "
          "step; oracle at every attestation the real broadcaster submits to its beacon node (attributed to the validator it names the way the beacon node does: before electra committee index "
          "and position bit, from electra on the validator index, else the committee bits), at every Broadcaster.Broadcast and AggSigDB.Store on every node: signature valid under THAT validator's group "
          "key for the object's own signing root, one signing root per duty and validator across all nodes and time. "
          "Wiring variants (app/app.go): aggsigdb v2 with plain core.Wire (as before) and, in four (thorough: five more) configurations, the production default - aggsigdb v1 (NewMemDB actor) and "
          "core.WithAsyncRetry(retry.New(deadlineFunc)), i.e. fetch, participate, propose, the parsigex broadcast and the beacon-node broadcast run asynchronously and are retried until the duty deadline",
    trusted="fakenet (the real p2p.Send and stream handlers run against it), stub scheduler/fetcher/validator client/beacon spec; real BLS and "
            "secp256k1 throughout",
    rule="DFS over deviation placements with prefix replay; non-trivial class = (n, inputs, deviations used, objects broadcast)",
    assumptions=ENUMX_ASSUME + ["whole-system interleavings are deviation-bounded, not exhaustive (DESIGN.md §5 C01)",
                                "goroutine scheduling inside one delivery step is left to the Go runtime (GOMAXPROCS=1, pinned select/map order)"],
    budget_s={"quick": 100, "thorough": 1500},
)
