from common import ENUMX_ASSUME


def splice_blsmemo(src, out):
    """Route the one call Herumi.Verify makes into the BLS library (bls.Sign.VerifyByte, pure and deterministic) through the
    memoising wrapper of harness/tbls/zz_verif_blsmemo.go (key = complete argument bytes). Nothing of charon's own code is
    bypassed; the memo only spares re-running the pairing for byte-identical (public key, message, signature)."""
    import os
    s = open(src).read()
    a = "signature.VerifyByte(&pubKey, data)"
    if s.count(a) != 1:
        return None
    s = s.replace(a, "verifVerifyByte(&signature, &pubKey, data, compressedPublicKey, rawSignature)")
    os.makedirs(os.path.dirname(out), exist_ok=True)
    open(out, "w").write(s)
    return out


CHECK = dict(
    pkgs=["core"],
    files={"core": ["zz_verif_c01_test.go", "zz_verif_c01b_test.go"]},
    libs=["enumx", "fakenet"],
    splice={"tbls/herumi.go": splice_blsmemo},
    extra_files={"tbls": ["zz_verif_blsmemo.go"]},
    run="TestVerifC01",
    level="exploration",
    engine="schedx-style deviation bounding over fakenet",
    technique="stateless model checking of the wired pipeline: exhaustive enumeration of all executions with a bounded number of deviations "
              "(drop, duplicate, out-of-order delivery of a wire packet, node crash, equivocating partial signature) from FIFO delivery, n real "
              "nodes (real consensus, dutydb, parsigdb, parsigex, sigagg, aggsigdb, bcast wired by core.Wire) in one virtual-time bubble on an in-memory network, "
              "judged at the beacon-node stub behind the real core/bcast, at Broadcaster.Broadcast and at AggSigDB.Store; one dimension of the enumeration is the "
              "duty type (attester, proposer, aggregator through consensus; sync committee message, builder registration, voluntary exit, randao without), for the "
              "duty types without consensus the complete product of camp splits of the nodes' inputs and per-peer plans of a faulty node is enumerated",
    claim="n=3 and n=4, attester duty, candidate data equal / all distinct / leader differs, optionally one node that also sends a partial "
          "signature made with its own share over other data, or one carrying such a signature on the common data, or floods every peer with one genuine "
          "partial signature of its own followed by the same signature under every other share index; or sends a GENUINE partial signature of its own share over "
          "the data another node proposes inside an object whose fields outside the signing root are of its choosing (validator index of the other cluster "
          "validator / of no validator; other aggregation and committee bits); one or two validators of the cluster attesting in "
          "the slot (separate threshold keys, one ParSigEx set / one Aggregate / one Broadcast call for both); attestations as deneb objects with "
          "validator index or as electra objects WITHOUT validator index (the form peers on v1.3.0-v1.4.1 send: the real broadcaster resolves the "
          "indices from the beacon node's duties by verifying the aggregate): every execution with <=1 deviation (quick) / <=2, <=3 for n=3 (thorough) at any "
          "step; oracle at every attestation the real broadcaster submits to its beacon node (attributed to the validator it names the way the beacon node does: before electra committee index "
          "and position bit, from electra on the validator index, else the committee bits), at every Broadcaster.Broadcast and AggSigDB.Store on every node: signature valid under THAT validator's group "
          "key for the object's own signing root, one signing root per duty and validator across all nodes and time. "
          "Wiring variants (app/app.go): aggsigdb v2 with plain core.Wire (as before) and, in four (thorough: five more) configurations, the production default - aggsigdb v1 (NewMemDB actor) and "
          "core.WithAsyncRetry(retry.New(deadlineFunc)), i.e. fetch, participate, propose, the parsigex broadcast and the beacon-node broadcast run asynchronously and are retried until the duty deadline "
          "(a crashed node's retryer is shut down with it, every retryer at the end of an execution, as app.go does). "
          "DUTY-TYPE DIMENSION (same explorer, deviation alphabet and oracle; the beacon stub's signing domain depends on the epoch: one fork boundary at epoch 1, all duties in epoch 0). "
          "PROPOSER through consensus: the nodes' fetchers hand different candidate blocks (graffiti and fee recipient differ) as deneb full block contents or as electra blinded blocks "
          "(thorough: also fulu full, capella blinded); the validator-client stub signs the block its own node serves through DutyDB.AwaitProposal; the beacon stub records SubmitProposal / "
          "SubmitBlindedProposal and attributes by proposer index; Byzantine deviations: a partial signature of its own share over ITS OWN candidate (to all / to one peer), over a third block, "
          "the common block carrying a signature over another block, the relabel flood, and (full blocks) the common block / its own block with other blobs and KZG proofs (outside the block root); "
          "five configurations (n=3 blinded distinct; n=4 deneb equal byz; n=4 deneb distinct; n=4 blinded leader-differs byz; n=4 deneb distinct byz with aggsigdb v1 + WithAsyncRetry), every execution with "
          "<=1 deviation (thorough: <=2 for n=3 blinded distinct and n=3 deneb leader-differs, fulu full and capella blinded with <=1, and - as the last configuration of the run, as far as the time budget reaches - "
          "<=2 for n=4 deneb equal with the Byzantine node). "
          "AGGREGATOR through consensus on the aggregate attestation (candidates = aggregates of different participants over the same attestation data; deneb and electra aggregate-and-proof; "
          "beacon stub SubmitAggregateAttestations, attributed by aggregator index), two configurations with <=1 deviation (thorough: + n=3 electra with <=2), the same Byzantine deviations (no unsigned fields exist). "
          "Duty types WITHOUT consensus - SYNC COMMITTEE MESSAGE (two validators in one set, the nodes report different block roots; beacon stub SubmitSyncCommitteeMessages, attributed by validator index, domain of the "
          "message's own slot), BUILDER REGISTRATION (fee recipient and timestamp differ per camp; never expires; core/bcast does not submit it in this version, so it is judged at Broadcast and AggSigDB.Store only), "
          "VOLUNTARY EXIT (two validators; never expires; beacon stub SubmitVoluntaryExit) and RANDAO (signed epoch; not submitted): the validator clients submit on their own, nothing is fetched or agreed. "
          "Complete product per duty type and per wiring variant (plain / aggsigdb v1 + WithAsyncRetry): n=3 (t=2, f=0: no faulty node, no crash) every set partition of the 3 nodes into camps signing different objects "
          "(5; 1 for exit and randao, whose honest clients cannot differ); n=4 (t=3) all honest, every set partition of the 4 nodes (15; 1); n=4 with the validator client of node 3 replaced by the adversary: every "
          "partition of the 3 honest nodes (5; 1) x every plan of what the adversary sends each peer with its own key share - root A or root B per peer (8 plans, e.g. A to some peers and B to the others), object A "
          "carrying its signature over B, and for sync messages a genuine signature over root A in a message with the other validator's index / no validator's index / the next slot / the same slot one fork later "
          "(another signing domain) - x {adversary's messages sent before, after the honest ones}; each scenario with and without node 0's validator client signing late: 1200 scenarios, each run without deviation (quick) / "
          "with every <=1 deviation (thorough); 13 selected scenarios (two-camp splits 2+1 with the adversary in both camps, all distinct, 2+2, n=3 2+1, the unsigned-field plans, both wirings) with every <=1 (thorough <=2) deviation. "
          "Expected and counted: with n=4 a 2+2 or all-distinct split emits nothing, never more than one signing root per duty and validator is emitted cluster-wide",
    trusted="fakenet (the real p2p.Send and stream handlers run against it), stub scheduler/fetcher/validator client/beacon spec (one fork boundary); real BLS and "
            "secp256k1 throughout; bls.Sign.VerifyByte memoised by complete argument bytes (splice of tbls/herumi.go, harness/tbls/zz_verif_blsmemo.go)",
    rule="DFS over deviation placements with prefix replay; non-trivial class = (n, inputs, deviations used, objects broadcast); for the duty-type dimension (duty, version, n, camps, plan, placement, late node, wiring, "
         "deviations used, objects broadcast, distinct signing roots emitted)",
    assumptions=ENUMX_ASSUME + ["whole-system interleavings are deviation-bounded, not exhaustive (DESIGN.md §5 C01)",
                                "goroutine scheduling inside one delivery step is left to the Go runtime (GOMAXPROCS=1, pinned select/map order)",
                                "the validator API is a stub (what a validator client signs reaches parsigdb directly), so its own checks of submissions are outside this check (C10)"],
    budget_s={"quick": 100, "thorough": 1500},
)
