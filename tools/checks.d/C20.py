from common import SCHEDX_ASSUME

CHECK = dict(
    pkgs=["app/eth2wrap"],
    files={"app/eth2wrap": ["zz_verif_c20_test.go"]},
    libs=["enumx", "schedx", "vsync"],
    vsync=["app/eth2wrap/cache.go"],
    run="TestVerifC20",
    level="model_checking",
    engine="statex+schedx",
    technique="explicit-state model checking of the implementation (BFS over request/reorg/trim sequences on the real DutiesCache, states = "
              "canonical dumps of its private maps) plus stateless model checking of concurrent callers and a reorg invalidation (preemption-bounded "
              "DFS, scheduling points at the cache's locks and inside the beacon-node calls)",
    claim="Part A: all states reachable by sequences of depth <=4 (quick) / <=6 (thorough) over {attester|proposer|sync request for epoch 5/6 and "
          "7 index subsets, reorg(4), reorg(5), trim(8), trim(9), the same requests with the beacon-node call failing}, from the empty cache for the kind sets "
          "{att},{pro},{syn},{att,syn} and - warm start - from the state of a running node (all three kinds cached for both epochs, completely or for one "
          "validator only in epoch 6) with all three kinds in the alphabet; a failed beacon-node call must surface as an error and leave nothing behind (judged by "
          "the later requests); every answer compared with the stub beacon node's direct answer, fetched-afresh "
          "after invalidation, no shared mutable memory (reflection alias walker + callers scribbling over every result). Part B: all interleavings "
          "(quick <=2 preemptions, thorough unbounded) of 3 threads of overlapping requests and a reorg",
    trusted="stub beacon node with a versioned assignment table; synctest/vsync/runtime overlay as for C17",
    rule="BFS with replay-from-scratch successors + schedx interleavings; distinct = distinct cache states",
    assumptions=SCHEDX_ASSUME + ["a reorg is modelled as: assignments of later epochs change, then InvalidateCache is called (as the scheduler does)"],
    budget_s={"quick": 100, "thorough": 1500},
)
