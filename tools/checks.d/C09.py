from common import ENUMX_ASSUME

CHECK = {'pkgs': ['core/sigagg'],
 'libs': ['enumx'],
 'run': 'TestVerifC09',
 'level': 'exploration',
 'engine': 'enumx',
 'technique': 'small-scope exhaustive enumeration against the real sigagg.Aggregator with the real verifier (sigagg.NewVerifier), real BLS threshold '
              'keys and every Eth2SignedData type, in five dimensions: (1) single calls on a fresh Aggregator: partial-signature lists (share '
              'subsets x list orders x corruption patterns x validators per call x map iteration order); (2) operation sequences: every '
              'sequence of 2 (thorough: 3) calls from an explicit call alphabet on ONE long-lived Aggregator + verifier instance; (3) '
              'environment faults: the eth2 client given to the verifier is a wrapper that serves the beaconmock answers and can fail any '
              'request of the verification path at its k-th invocation - a counting run discovers the requests of a call, then every fault '
              'point x fault mode (thorough: every pair) is enumerated; (4) both combined (one faulted and one healthy call on the same '
              'instance, either order); (5) batch size: calls carrying N = 3..64 validators (own threshold key each) with the corrupt validator at every position of the map iteration order of the call. Published objects are re-verified independently of the code under test',
 'claim': 'cluster (n,t)=(4,3), 2 validators with independent threshold keys and different payloads. Every core.Eth2SignedData type '
          '(attestation, full/blinded proposal, randao, exit, builder registration, beacon committee selection, aggregate-and-proof plain and '
          'versioned, sync message, signed contribution-and-proof, sync committee selection, contribution-and-proof selection proof; quick: one '
          'fork version per type, 14 variants; thorough: every fork version the code supports - attestations and aggregate-and-proofs phase0..fulu, proposals bellatrix..fulu - 37 variants; attestations with the validator index '
          'on no/first/last partial). '
          'DIMENSION 1, single call on a fresh Aggregator. Lists: every size-3 and the size-4 share subset (quick: ascending order; thorough: every order of the '
          'list). Per list: the uncorrupted list, and one corruption on every position: share of the other validator, ShareIdx relabelled to '
          'every other value in 0..5, signature over altered content, altered object with original signature, truncated / all-zero / infinity '
          'signature, signature under another domain, signature under an epoch of another fork, repeated share, dropped share; whole-list '
          'corruptions (all shares of the other validator, all over altered content, all under wrong domain, all under wrong epoch); thorough '
          'adds every pair of corruptions on size-4 lists (5x5 kinds x 6 position pairs). Each as a single-validator call (quick: validator 0, thorough: either) '
          'and as a two-validator call with the corruption in either validator, both map iteration orders. '
          'DIMENSION 2, operation sequences on one instance (same duty key every time, share list [1,2,3]). Representative call alphabet per type X (22 calls; 20 for '
          'the builder registration, 23 for randao / beacon committee selection): validator 0 payload A: valid, one corrupt partial (middle position) of each of 5 classes '
          '(other validator\'s share, signature over altered content, zero signature, wrong domain, repeated share index), whole-list corruptions (the other '
          'validator\'s complete valid list under this key = identical root under another validator, all over altered content, all under the all-zero '
          'domain, all under wrong epoch); validator 0 payload B (another message root): valid, one / all signatures taken from payload A; '
          'validator 1: valid, corrupt, validator 0\'s list; both validators in one call: valid, corrupt in either; another duty type Y (randao; for randao the '
          'beacon committee selection): valid, corrupt; payload of X whose epoch lies in another fork: valid; and for randao <-> beacon committee selection '
          '(slot number == epoch number, hence the IDENTICAL message root under different domains) the replay of the other duty\'s signatures. Quick: all '
          'sequences of length 2 over this alphabet; thorough: all of length 3, plus all ordered pairs over the full alphabet (every single-partial corruption class of '
          'dimension 1 on every position for validator 0, on the middle position for payload B / validator 1 / two-validator calls / type Y, all 6 whole-list corruptions; 171 calls). '
          'DIMENSION 3, environment faults. Requests discovered on the verification path: Spec, Domain, GenesisDomain (Genesis, ForkSchedule, Fork, SlotsPerEpoch, '
          'SlotDuration are wrapped too; any other client method would panic and be reported as a harness gap). Fault modes per request: error; context '
          'deadline passes during the request (fails with DeadlineExceeded, context stays expired); slow (right answer, but the deadline has passed on return, every '
          'later request fails). Inputs: {valid list, one corrupt partial of each of the 5 representative classes (thorough: every class on every position), each of the 6 whole-list '
          'corruptions} x {single-validator call, two-validator call with the corruption in either validator (thorough: both validators, both map orders)}; quick: '
          'every single fault point x mode, thorough: also every pair of fault points x mode x mode. '
          'DIMENSION 4, combined: sequences of 2 calls where exactly one call carries one fault (every fault point x mode of that call); quick: the faulted call is the valid call of X and the other '
          'ranges over the representative alphabet, thorough: both range over the representative alphabet; both orders. '
          'DIMENSION 5, batch size (fresh Aggregator per call, share list [1,2,3] per validator): N validators per call for N in {3,4,5,8,9,16,17,32,33} (thorough: also 64), 64 independent '
          'threshold keys generated once per process. Per N: the all-valid call; the call in which exactly one validator\'s list is corrupt (one signature over other content, one share '
          'of another validator, fewer than t partials; thorough also: the neighbour validator\'s complete valid list) with that validator at EVERY position 0..N-1 of the iteration order of the map handed '
          'to Aggregate (the harness learns the order from a probe map built with the same keys under the same pinned rotation and hash seed, checks it on the real map and cross-checks it against the number of '
          'Domain requests made before the call was abandoned); for N<=8 under every rotation 0..N-1 of the insertion order, above 8 (hash-ordered table) under one pinned start offset; two corrupt validators '
          '(every pair of positions x 3x3 kinds, each rotation) for N<=5 (thorough: N<=9). Additional oracle for the all-valid call: a subscriber that is called is handed ALL N validators (a call publishes for all of its validators or for none). '
          'ORACLE, applied to EVERY call of every dimension: everything handed to '
          'either subscriber verifies (tbls.Verify, harness-side domain/epoch table, signing root composed in the harness) under the group key '
          'of its validator, belongs to a validator of that call and has the message root the honest partials of that call signed; if fewer than t valid distinct agreeing shares were supplied '
          'for a validator the call returns an error and no subscriber is called at all (under a fault, returning an error and publishing nothing is always legal, publishing a valid aggregate too). '
          'Differential oracle for every healthy call made after a prefix: its verdict (published / rejected) equals the verdict of the same call on a fresh instance',
 'trusted': 'herumi BLS (tbls.Sign/Verify/ThresholdSplit), go-eth2-client SSZ hash-tree-roots and the beaconmock eth2 client as the source of '
            'domain types, fork schedule and SLOTS_PER_EPOCH; harness-side table mapping each object type to its consensus-spec domain name and '
            'epoch field; MessageRoot() of the published object is taken as its signed content; the fault wrapper models a failing / slow beacon node only by '
            'errors, an expired context and late answers - never by wrong answers',
 'rule': 'one evaluation = one case: dimension 1 one Aggregate call on a fresh Aggregator; dimension 2 one sequence of 2 or 3 calls on one instance; dimension 3 one call under one fault script; '
         'dimension 4 one faulted + one healthy call on one instance; dimension 5 one call with N validators (transitions = Aggregate calls). distinct = (dimension, type/version, corruption kind of the (last) call, list size, '
         'validators per call, relation to the earlier calls, fault methods/modes, first/inner/last position of the corrupt validator, published/rejected pattern)',
 'budget_s': {'quick': 100, 'thorough': 1500}}
CHECK["assumptions"] = ENUMX_ASSUME + [
    "a list longer than the threshold that contains one corrupted partial must be refused as a whole although a threshold of valid shares is in it (literal reading of the statement; VERIF_C09_STRICT=0 relaxes this to the safety half)",
    "payload values other than slot/epoch fields are random per process (oracle is a relation holding for any value); slot/epoch fields are "
    "pinned so that the correct epoch and every decoy epoch fall into different forks of the mock's schedule",
    "sequences: every call of an instance uses the same core.Duty key (slot 1, the type's duty) - the strongest aliasing a per-duty state could see; "
    "state kept in package-level variables would also be shared with the 'fresh instance' runs of the differential oracle (the per-call oracle does not depend on it)",
    "the differential oracle (verdict after a prefix == verdict on a fresh instance) is stricter than the statement in the direction published->rejected "
    "(the statement promises no liveness); it is reported under its own signature kind=history-dependent-verdict",
    "batch dimension: that an all-valid call which publishes must publish all of its N validators is the all-or-nothing reading of the statement's second sentence; "
    "an all-valid call that publishes nothing would only be counted (no liveness claim). Above 8 entries Go orders a map by hash: the order is whatever this process' hash "
    "key gives under the pinned seed, every position of THAT order is enumerated; a replay in another process re-derives the order and places the corrupt validator at the recorded position",
    "fault scripts are positioned on the requests of the healthy counting run of the same call; a request that the code only makes under a fault (a retry) is served healthy",
]
