from common import ENUMX_ASSUME

CHECK = {'pkgs': ['core/sigagg'],
 'libs': ['enumx'],
 'run': 'TestVerifC09',
 'level': 'exploration',
 'engine': 'enumx',
 'technique': 'small-scope exhaustive enumeration of partial-signature lists (share subsets x list orders x corruption patterns x validators '
              'per call x map iteration order) against the real sigagg.Aggregator with the real verifier, real BLS threshold keys and '
              'every Eth2SignedData type; published objects are re-verified independently of the code under test',
 'claim': 'cluster (n,t)=(4,3), 2 validators with independent threshold keys and different payloads. Every core.Eth2SignedData type '
          '(attestation, full/blinded proposal, randao, exit, builder registration, beacon committee selection, aggregate-and-proof plain and '
          'versioned, sync message, signed contribution-and-proof, sync committee selection, contribution-and-proof selection proof; quick: one '
          'fork version per type, 14 variants; thorough: every fork version the code supports - attestations and aggregate-and-proofs phase0..fulu, proposals bellatrix..fulu - 37 variants; attestations with the validator index '
          'on no/first/last partial). Lists: every size-3 and the size-4 share subset (quick: ascending order; thorough: every order of the '
          'list). Per list: the uncorrupted list, and one corruption on every position: share of the other validator, ShareIdx relabelled to '
          'every other value in 0..5, signature over altered content, altered object with original signature, truncated / all-zero / infinity '
          'signature, signature under another domain, signature under an epoch of another fork, repeated share, dropped share; whole-list '
          'corruptions (all shares of the other validator, all over altered content, all under wrong domain, all under wrong epoch); thorough '
          'adds every pair of corruptions on size-4 lists (5x5 kinds x 6 position pairs). Each as a single-validator call (quick: validator 0, thorough: either) '
          'and as a two-validator call with the corruption in either validator, both map iteration orders. Oracle: everything handed to '
          'either subscriber verifies (tbls.Verify, harness-side domain/epoch table, signing root composed in the harness) under the group key '
          'of its validator and has the message root the honest partials signed; if fewer than t valid distinct agreeing shares were supplied '
          'for a validator the call returns an error and no subscriber is called at all',
 'trusted': 'herumi BLS (tbls.Sign/Verify/ThresholdSplit), go-eth2-client SSZ hash-tree-roots and the beaconmock eth2 client as the source of '
            'domain types, fork schedule and SLOTS_PER_EPOCH; harness-side table mapping each object type to its consensus-spec domain name and '
            'epoch field; MessageRoot() of the published object is taken as its signed content',
 'rule': 'one evaluation = one Aggregate call on a fresh Aggregator; distinct = (type/version, corruption kind, list size, validators per '
         'call, published/rejected)',
 'budget_s': {'quick': 100, 'thorough': 1500}}
CHECK["assumptions"] = ENUMX_ASSUME + [
    "a size-4 list with one corrupted partial still contains 3 valid distinct agreeing shares: publishing a valid aggregate for it is "
    "treated as legal (only the safety half of the statement is demanded there; set VERIF_C09_STRICT=1 for the literal reading)",
    "payload values other than slot/epoch fields are random per process (oracle is a relation holding for any value); slot/epoch fields are "
    "pinned so that the correct epoch and every decoy epoch fall into different forks of the mock's schedule",
]
