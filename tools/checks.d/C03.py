from common import STATEX_ASSUME, splice_qbft




CHECK = dict(
    pkgs=["core/qbft", "core/consensus/qbft"],
    files={"core/qbft": ["zz_verif_c02_test.go", "zz_verif_hook.go"],
           "core/consensus/qbft": ["zz_verif_c05_test.go", "zz_verif_c05x_test.go", "zz_verif_c02l_test.go", "zz_verif_c03l_test.go"]},
    libs=["enumx"],
    splice={"core/qbft/qbft.go": splice_qbft},
    run={"core/qbft": "TestVerifC03", "core/consensus/qbft": "TestVerifC03L"},
    level="model_checking",
    engine="statex",
    technique="explicit-state model checking of the implementation: breadth-first search over the reachable global states of 3-7 real qbft.Run "
              "instances driven event by event (deliveries, timeouts, inputs) under a message-constructing Byzantine adversary; state keys are "
              "canonical dumps of Run's private state; plus, at the level of the consensus component (core/consensus/qbft, TestVerifC03L), exhaustive "
              "enumeration of a finite product of scripts executed on four real Consensus components in virtual time, in which a Byzantine member that owns "
              "only its own key and what it has received sends messages carrying sub-messages that claim other members' votes",
    claim="all global states reachable within the stated menu/bounds (rounds <= R, values, quorum-directed delivery sets, bounded noise) of n real "
          "qbft.Run instances; validity and integrity (decide once, non-empty, leader-proposed value, commit quorum for exactly that value and round) checked on every transition. "
          "Component part (TestVerifC03L): real NewConsensus components (real gater, deadliner, eager-double-linear round timers, transport, wire decoding and "
          "Consensus.handle; stub libp2p host of the C05 harness), n=4, every honest member proposes a different value, the fourth member honest or Byzantine "
          "under every index. The Byzantine member is the yes-voter of the C02 component part (and proposes its own value when it leads round 1) or silent, and "
          "fires exactly one strategy at one instant, to one victim or to every honest member. Instants: pre (round-1 leader has not proposed yet), pp (round-1 "
          "PRE-PREPARE seen, every round-1 PREPARE between honest members lost so that nobody commits), rt (round 1 timed out without a proposal, round 2), late "
          "(the victim starts late and has lost everything, the others have decided); thorough adds rt-pp (PRE-PREPARE seen, rounds 1 and 2 timed out, round 3) and "
          "post (everybody decided). Forms (outer message properly signed by the Byzantine member under its own index, carrying q-1 sub-messages that claim votes of "
          "the two other members, followed by its own genuine PREPARE and COMMIT for the same round and value): commit+commits, commit+prepares, prepare+prepares, "
          "prepare+commits (amplification: outer types whose justification core/qbft never asks for but flatten/classify count), decided+commits, "
          "roundchange+prepares, preprepare-next+roundchanges, preprepare+commits (as leader of the round or not). Claims: unsigned | signed with the Byzantine key "
          "under the other member's peer_idx | a genuine message of that member of another type/round with type/round/value_hash rewritten | a genuine message of "
          "that member of the same type and round with value_hash rewritten. Targets: a value W nobody proposes (attached) | the value the round-1 leader really "
          "proposed | the zero hash. Controls (genuine material only, must be accepted): relay-genuine, decided-mixed (DECIDED carrying its own COMMIT for W before a "
          "genuine COMMIT quorum for the leader's value), extra-values (votes with W attached in front), under map rotations 0..3. Quick: attester duty, victim = "
          "highest honest non-leader, 4 instants x 8 forms x 4 claims x 3 targets x {victim, all} + controls + the shapes without strategy (also four honest, also "
          "the silent member) = 3492 scripts, plus 42 scripts of an aggregator duty (other leaders, no Participate, other duty start) = 3534; thorough: both duties x "
          "{yes-voter, silent} x 6 instants x every victim x the full strategy alphabet = 62544 scripts. Combinations whose material the member cannot hold at the "
          "instant (e.g. the leader's value before it was proposed, a genuine message to rewrite before anything was sent) are executed without the strategy and "
          "counted (component_strategy_material_not_held). Oracle, per honest member, from harness-side records (frames every honest member really handed to the "
          "network, messages the Byzantine member sent, values handed to subscribers): at most one decision; never the empty value; the value was sent in a "
          "PRE-PREPARE by the designated leader of that round (four honest: also some member's own proposal); some round r has #honest members that really sent "
          "COMMIT(r, value) + (1 if a Byzantine member exists) >= 3. Counters: forged messages sent / rejected by handle (all, on the unchanged tree), control and "
          "trigger messages accepted, decisions judged",
    trusted="testing/synctest quiescence; the one-line snapshot splice; state-key completeness (cross-checked by executing every local transition "
            "from two different representative histories)",
    rule="BFS over global states (tuple of local Run states + message pool); transitions are deliveries of enabling message sets, timeouts, inputs; "
         "distinct = distinct global states; component part: one evaluation per script, distinct classes = (duty type, Byzantine behaviour, instant, form, "
         "claim, target, number of honest members that decided)",
    assumptions=STATEX_ASSUME + [
        "component part: one pinned select order and map rotation 0 per execution (rotations 1..3 only for the control strategies); goroutine interleavings "
        "inside one virtual instant are whatever the single-P runtime produces (candidates are re-executed three times before they are reported)",
        "component part: n=4, one duty per script, fixed instants (strategy at 0.3 / 0.6 / 1.0 / 1.3 / 2.3 s after the duty's start), one strategy per script, "
        "claims always about the two members other than the addressee; the strategy messages are handed to the addressee's Consensus.handle after the wire "
        "decoding of the receive path (so that handle's verdict is observed), the ordinary traffic goes through the stub network",
        "component part: clause 4 of the oracle is judged at the end of the script (commit votes really sent at any time), so a decision that is only "
        "EARLIER than its real quorum is not reported; the stalled shapes (pp, rt, late) are there so that no real quorum ever forms for the forged round",
    ],
    budget_s={"quick": 100, "thorough": 1500},
    shards={"quick": 16, "thorough": 16},
    gomaxprocs=1,
    mem_kb=14 * 1024 * 1024,
)
