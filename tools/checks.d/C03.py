from common import STATEX_ASSUME, splice_qbft




CHECK = dict(
    pkgs=["core/qbft"],
    files={"core/qbft": ["zz_verif_c02_test.go", "zz_verif_hook.go"]},
    libs=["enumx"],
    splice={"core/qbft/qbft.go": splice_qbft},
    run="TestVerifC03",
    level="model_checking",
    engine="statex",
    technique="explicit-state model checking of the implementation: breadth-first search over the reachable global states of 3-7 real qbft.Run "
              "instances driven event by event (deliveries, timeouts, inputs) under a message-constructing Byzantine adversary; state keys are "
              "canonical dumps of Run's private state",
    claim="all global states reachable within the stated menu/bounds (rounds <= R, values, quorum-directed delivery sets, bounded noise) of n real "
          "qbft.Run instances; validity and integrity (decide once, non-empty, leader-proposed value, commit quorum for exactly that value and round) checked on every transition",
    trusted="testing/synctest quiescence; the one-line snapshot splice; state-key completeness (cross-checked by executing every local transition "
            "from two different representative histories)",
    rule="BFS over global states (tuple of local Run states + message pool); transitions are deliveries of enabling message sets, timeouts, inputs; "
         "distinct = distinct global states",
    assumptions=STATEX_ASSUME,
    budget_s={"quick": 100, "thorough": 1500},
    shards={"quick": 16, "thorough": 16},
    gomaxprocs=1,
    mem_kb=14 * 1024 * 1024,
)
