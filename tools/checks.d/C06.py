from common import SCHEDX_ASSUME

CHECK = {'pkgs': ['core/dutydb'],
 'libs': ['schedx', 'vsync'],
 'vsync': ['core/dutydb/memory.go'],
 'run': 'TestVerifC06',
 'level': 'model_checking',
 'engine': 'schedx',
 'technique': 'stateless model checking of the real code: exhaustive preemption-bounded DFS over thread interleavings under a controlled scheduler '
              '(synctest quiescence), state-key pruning',
 'claim': 'every interleaving (quick <=2 preemptions; thorough unbounded for the 3-4 thread scenarios) of '
          'Store/Await*/PubKeyByAttestation/cancel/expiry threads over equal, conflicting and partially conflicting data of all four duty kinds, '
          'both map iteration orders for multi-entry sets; history oracle: per-key uniqueness, nothing invented, conflict rejection, expired '
          'refused, terminal-state liveness and exact virtual-time promptness',
 'trusted': "synctest/vsync/runtime overlay as for C17; 'same signed content' of an aggregate key is the attestation data the key is the root of",
 'rule': 'interleavings of 3-5 harness threads; distinct = distinct outcome vectors',
 'budget_s': {'quick': 100, 'thorough': 1500}}
CHECK["race_tests"] = {"core/dutydb": "TestVerifRaceC06"}
CHECK["assumptions"] = SCHEDX_ASSUME
CHECK["claim"] += " Fifth session: attester duties that really are in committee 0 (own key = the alias key): conflicting / equal / pubkey-clash / one store with two validators / together with another committee; scenario att-expiry-between-check-and-write: the deadliner on a fake clock moved by a harness thread (the deadline passes, and its report is consumed by another Store, between any two steps of a running Store) with the oracle 'once the deadline has passed, every Store of the duty has returned and one more complete Store has run, nothing of the duty is served'."
