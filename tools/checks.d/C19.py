from common import ENUMX_ASSUME

CHECK = dict(
    pkgs=["app/eth2wrap"],
    files={"app/eth2wrap": ["zz_verif_c19_test.go", "zz_verif_c19_derived_test.go", "zz_verif_c19_net_test.go"]},
    libs=["enumx"],
    run="TestVerifC19",
    level="fault_enumeration",
    engine="timex",
    technique="exhaustive enumeration of per-node outcome x latency-order x caller-cancellation scripts, each executed on the real multi client "
              "(Instrument -> provide/submit -> forkjoin) in virtual time with exact-instant oracles; the same product on every client object that can be "
              "DERIVED from the constructed one (chains of ClientForAddress / lazy wrapper / synthetic-duties wrapper) judged against a reference model of the "
              "documented scoping, on every endpoint of the Client interface, and after the client's setters",
    claim="complete product over 1-3 primaries x 0-2 fallbacks (both tiers; every concrete error form on up to 2 x 1) of {success, generic error, timeout-, syncing-, "
          "bad-gateway-class error, hang} per node, every completion order, every cancellation instant between node answers, for a provide-style "
          "and a submit-style call, with every concrete error form isTimeoutError/isSyncingError/isBadGateway recognise. History dimension: the "
          "judged call is made on a client object that already served calls (the multi client and its best-node selector live as long as the process): "
          "every outcome vector over {ok, generic, syncing, hang} of one earlier provide/submit call, made once or three times in a row, on 2x1, 1x1, "
          "2x0 (thorough also 3x1, 1x2) nodes, followed by every judged script over the six outcome classes x latency orders x {no cancel, cancel "
          "before the first answer}; same oracle on the judged call. Proxy-style calls (multi.Proxy with a request body) run through the same product with "
          "the additional oracle that every consulted node is handed the caller's request unaltered. Part C (real time, real loopback sockets): the "
          "layers the scripted nodes replace - lazily connecting HTTP node clients (newBeaconClient/lazy/go-eth2-client) - with hung nodes (accept, never "
          "answer) and the repository's beacon mock as healthy node: topologies {hung; hung,hung; hung|hung; hung,healthy; healthy,hung} x {provide, "
          "submit, proxy} x {first, second call on the client} x {caller cancels after 200 ms, never}; a call still blocked 20 s later, against node "
          "timeouts of one hour, is judged to be waiting for a hung node; part C also makes the judged call on ClientForAddress(healthy node) "
          "(x 3 calls x first/second x cancel/never) and on ClientForAddress(hung node) (second call, cancelled) of the \"hung,healthy\" client (the first call "
          "of a second-call script is made on the constructed client, the object is derived after it; a node client that has not connected yet reports an empty "
          "address, so the healthy node is configured for the derived object under either reading and the oracle is the same), and runs "
          "topology \"refused|healthy\" (node lists from NewSimnetFallbacks combined by Instrument; the primary's port is closed, the healthy fallback must answer; "
          "x 3 calls x first/second x cancel/never); as in the other topologies with a healthy node, a call style that the beacon mock alone does not answer "
          "successfully (today: submit) is skipped and named in a note. "
          "DERIVED OBJECTS (zz_verif_c19_derived_test.go): derivation alphabet {ClientForAddress(address of primary i), (address of fallback j), (unknown address), "
          "(empty address), NewLazyForT(object), WithSyntheticDuties(object)}; the statement is evaluated on the nodes that are configured for the derived object "
          "according to the doc comment of ClientForAddress (scoped to a primary = that node as only primary + all fallbacks; scoped to a fallback = that node "
          "alone; unknown/empty = the receiver; wrappers transparent) plus the clause that a node outside that configuration is never consulted. "
          "D1: every single step on 1x1, 2x0, 2x1, 1x2, 2x2 nodes (thorough also 3x1, 3x2; the two wrappers on <=3 nodes in quick) and on the *multi of NewMultiForT "
          "(2x1), complete product of six outcome classes x latency orders x {provide, submit, proxy} x every cancellation instant (quick tier on 2x2: cancel "
          "{never, before the first answer, after the primaries}); D2: every chain of two steps "
          "(7x7 on 2x1; thorough also 7x7 on 1x2 and 8x8 on 2x2), same product; D3: scoped to P0/P1/F0 on 2x1 with all 18 concrete error forms x {provide, submit, proxy} (quick: no cancel; thorough: every "
          "instant); D4: the constructed 2x1 client first serves a provide call three times (thorough: once or three times) with every outcome vector over "
          "{ok, generic, syncing, hang}, then the object is derived (P0/P1/F0) and judged (six classes x latency orders x provide/submit, no cancel). "
          "E: each of the 44 provide/submit endpoints of the Client interface (24 Response-typed providers, 11 submitters, SlotDuration, SlotsPerEpoch, Domain, "
          "GenesisDomain, ActiveValidators, CompleteValidators, Proposer/Attester/SyncComm-DutiesCache) on 2x1 x six classes x latency orders x cancel {never, before "
          "the first answer, after the primaries} (thorough: every instant, and 1x2), and on the objects cfa(P1), cfa(F0), lazy (no cancel); the answering node is "
          "identified through the response (metadata / value) wherever the result type can carry it; a method added to the interface that is in neither table "
          "is reported as a note with exhaustive=false. S: SetValidatorCache / SetDutiesCache / SetForkVersion called on the constructed 2x1 client before or after "
          "deriving {none, cfa(P0), cfa(P1), cfa(F0), cfa(unknown), lazy}, or on the derived object itself, then the endpoints whose answer depends on that state "
          "(ActiveValidators, CompleteValidators; Proposer/Attester/SyncComm-DutiesCache; Domain of the voluntary-exit type) x six classes x latency orders, no "
          "cancel (the scripted node, like the real httpAdapter, fails the cached endpoint without the cache): every consulted node that is a PRIMARY of the "
          "object the setter was called on must hold the state, and the statement is evaluated with the answers the nodes really give (a node without the "
          "state counts as failing); other nodes are not judged for holding it (the unchanged tree forwards setters to primaries only, so a fallback node "
          "never serves a cached endpoint). Accessors (Address, Name, Headers, IsActive, IsSynced) are called on every derived object "
          "but not judged (outside the statement; a panic is recorded as a note)",
    trusted="part C is the one place where a verdict depends on wall-clock time (network I/O cannot run on a virtual clock): bound 20 s vs one hour, "
            "every candidate confirmed on two further runs; the reference model of the derivation steps (c19effective) is the doc comment of "
            "multi.ClientForAddress, under which the unchanged tree is silent; responses rejected by the two per-endpoint success predicates (syncing "
            "SyncState, nil aggregate) are not modelled - the statement does not define them; testing/synctest virtual time; scripted nodes honour their context; caller cancellation never coincides with a node answer (half-quantum offset)",
    rule="scripts enumerated as a product; non-trivial class = call kind x topology x (returned, error) x kind of derived object x endpoint x setter order",
    assumptions=ENUMX_ASSUME,
    budget_s={"quick": 100, "thorough": 1500},
)
