from common import ENUMX_ASSUME

CHECK = dict(
    pkgs=["app/eth2wrap"],
    files={"app/eth2wrap": ["zz_verif_c19_test.go"]},
    libs=["enumx"],
    run="TestVerifC19",
    level="fault_enumeration",
    engine="timex",
    technique="exhaustive enumeration of per-node outcome x latency-order x caller-cancellation scripts, each executed on the real multi client "
              "(Instrument -> provide/submit -> forkjoin) in virtual time with exact-instant oracles",
    claim="complete product over 1-2 primaries x 0-1 fallbacks (quick) / 1-3 x 0-2 (thorough) of {success, generic error, timeout-, syncing-, "
          "bad-gateway-class error, hang} per node, every completion order, every cancellation instant between node answers, for a provide-style "
          "and a submit-style call; thorough additionally every concrete error form isTimeoutError/isSyncingError/isBadGateway recognise",
    trusted="testing/synctest virtual time; scripted nodes honour their context; caller cancellation never coincides with a node answer (half-quantum offset)",
    rule="scripts enumerated as a product; non-trivial class = call kind x topology x (returned, error)",
    assumptions=ENUMX_ASSUME,
    budget_s={"quick": 100, "thorough": 1500},
)
