from common import ENUMX_ASSUME

CHECK = dict(
    pkgs=["app/eth2wrap"],
    files={"app/eth2wrap": ["zz_verif_c19_test.go"]},
    libs=["enumx"],
    run="TestVerifC19",
    level="fault_enumeration",
    engine="timex",
    technique="exhaustive enumeration of per-node outcome x latency-order x caller-cancellation scripts, each executed on the real multi client "
              "(Instrument -> provide/submit -> forkjoin) in virtual time with exact-instant oracles",
    claim="complete product over 1-3 primaries x 0-2 fallbacks (both tiers; every concrete error form on up to 2 x 1) of {success, generic error, timeout-, syncing-, "
          "bad-gateway-class error, hang} per node, every completion order, every cancellation instant between node answers, for a provide-style "
          "and a submit-style call, with every concrete error form isTimeoutError/isSyncingError/isBadGateway recognise. History dimension: the "
          "judged call is made on a client object that already served calls (the multi client and its best-node selector live as long as the process): "
          "every outcome vector over {ok, generic, syncing, hang} of one earlier provide/submit call, made once or three times in a row, on 2x1, 1x1, "
          "2x0 (thorough also 3x1, 1x2) nodes, followed by every judged script over the six outcome classes x latency orders x {no cancel, cancel "
          "before the first answer}; same oracle on the judged call",
    trusted="testing/synctest virtual time; scripted nodes honour their context; caller cancellation never coincides with a node answer (half-quantum offset)",
    rule="scripts enumerated as a product; non-trivial class = call kind x topology x (returned, error)",
    assumptions=ENUMX_ASSUME,
    budget_s={"quick": 100, "thorough": 1500},
)
