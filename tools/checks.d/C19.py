from common import ENUMX_ASSUME

CHECK = dict(
    pkgs=["app/eth2wrap"],
    files={"app/eth2wrap": ["zz_verif_c19_test.go", "zz_verif_c19_derived_test.go", "zz_verif_c19_net_test.go"]},
    libs=["enumx"],
    run="TestVerifC19",
    level="fault_enumeration",
    engine="timex",
    technique="exhaustive enumeration of per-node outcome x latency-order x caller-cancellation scripts, each executed on the real multi client "
              "(Instrument -> provide/submit -> forkjoin) in virtual time with exact-instant oracles",
    claim="complete product over 1-3 primaries x 0-2 fallbacks (both tiers; every concrete error form on up to 2 x 1) of {success, generic error, timeout-, syncing-, "
          "bad-gateway-class error, hang} per node, every completion order, every cancellation instant between node answers, for a provide-style "
          "and a submit-style call, with every concrete error form isTimeoutError/isSyncingError/isBadGateway recognise. History dimension: the "
          "judged call is made on a client object that already served calls (the multi client and its best-node selector live as long as the process): "
          "every outcome vector over {ok, generic, syncing, hang} of one earlier provide/submit call, made once or three times in a row, on 2x1, 1x1, "
          "2x0 (thorough also 3x1, 1x2) nodes, followed by every judged script over the six outcome classes x latency orders x {no cancel, cancel "
          "before the first answer}; same oracle on the judged call. Proxy-style calls (multi.Proxy with a request body) run through the same product with "
          "the additional oracle that every consulted node is handed the caller's request unaltered. Part C (real time, real loopback sockets): the "
          "layers the scripted nodes replace - lazily connecting HTTP node clients (newBeaconClient/lazy/go-eth2-client) - with hung nodes (accept, never "
          "answer) and the repository's beacon mock as healthy node: topologies {hung; hung,hung; hung|hung; hung,healthy; healthy,hung} x {provide, "
          "submit, proxy} x {first, second call on the client} x {caller cancels after 200 ms, never}; a call still blocked 20 s later, against node "
          "timeouts of one hour, is judged to be waiting for a hung node",
    trusted="part C is the one place where a verdict depends on wall-clock time (network I/O cannot run on a virtual clock): bound 20 s vs one hour, "
            "every candidate confirmed on two further runs; testing/synctest virtual time; scripted nodes honour their context; caller cancellation never coincides with a node answer (half-quantum offset)",
    rule="scripts enumerated as a product; non-trivial class = call kind x topology x (returned, error)",
    assumptions=ENUMX_ASSUME,
    budget_s={"quick": 100, "thorough": 1500},
)
