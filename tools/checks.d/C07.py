from common import SCHEDX_ASSUME

CHECK = {'pkgs': ['core/parsigdb'],
 'libs': ['schedx', 'vsync'],
 'vsync': ['core/parsigdb/memory.go'],
 'run': 'TestVerifC07',
 'level': 'model_checking',
 'engine': 'schedx',
 'technique': 'exhaustive enumeration of all arrival sequences of partial-signature batches over a small alphabet against the real store, plus '
              'stateless model checking (preemption-bounded DFS) of concurrent stores racing for the threshold',
 'claim': 'Part A: every arrival order of every per-share batch choice (n,t in {(3,2),(4,3)}; 2 validators; 2 roots; duplicates, equivocations, '
          'mixed batches; internal/external; expiring, exempt, expired and root-less duty kinds; both map iteration orders). Part B: every '
          'interleaving (quick <=2 preemptions, thorough unbounded) of 3-4 concurrent stores and the trimmer. Oracle: triggers judged against the '
          "store's own private state (accepted partials) after every call",
 'trusted': "the store's private `entries` map is taken as ground truth of what was accepted; synctest/vsync/runtime overlay as for C17",
 'rule': 'sequences of StoreInternal/StoreExternal calls + interleavings; distinct = distinct outcome vectors',
 'budget_s': {'quick': 300, 'thorough': 1500}}
CHECK["race_tests"] = {"core/parsigdb": "TestVerifRaceC07"}
CHECK["assumptions"] = SCHEDX_ASSUME
CHECK["claim"] += " Fifth session, part A oracle: an entry of a never-expiring duty may only vanish (cap eviction) if everything in it was the storing share's own."
