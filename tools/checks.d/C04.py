from common import ENUMX_ASSUME, splice_qbft, splice_k1memo


def splice_bsync(src, out):
    """`"sync"` -> `sync ".../zzverif/bsync"` import rewrite of one charon file (generated from the current content, after a
    patch under test has been applied): the file's locks become visible to the synctest bubble, so a member whose
    goroutine waits for a lock for ever shows up as a member that never decides instead of freezing virtual time."""
    import os
    import re
    s = open(src).read()
    pat = re.compile(r'^(\s*)"sync"\s*$', re.M)
    if len(pat.findall(s)) != 1:
        return None
    s = pat.sub(r'\1sync "github.com/obolnetwork/charon/zzverif/bsync"', s, count=1)
    os.makedirs(os.path.dirname(out), exist_ok=True)
    open(out, "w").write(s)
    return out


CHECK = dict(
    pkgs=["core/consensus/qbft", "core/qbft"],
    files={"core/consensus/qbft": ["zz_verif_c04_test.go", "zz_verif_c04comp_test.go", "zz_verif_c05_test.go", "zz_verif_c05x_test.go"], "core/qbft": ["zz_verif_c02_test.go", "zz_verif_hook.go"]},
    libs=["enumx", "bsync"],
    splice={"core/qbft/qbft.go": splice_qbft, "app/k1util/k1util.go": splice_k1memo,
            "core/consensus/timer/roundtimer.go": splice_bsync, "core/consensus/qbft/qbft.go": splice_bsync,
            "core/consensus/qbft/transport.go": splice_bsync, "core/consensus/qbft/sniffer.go": splice_bsync},
    extra_files={"app/k1util": ["zz_verif_k1memo.go"]},
    run={"core/consensus/qbft": "TestVerifC04", "core/qbft": "TestVerifC04u"},
    level="fault_enumeration",
    engine="timex",
    technique="exhaustive enumeration of fault scripts (crash points incl. halfway through a broadcast, silent members, late starts, late proposals, "
              "latency classes, every leader rotation, all three round timers), each executed on the real qbft.Run with the real "
              "newDefinition/leader/transport/Msg/round timers in virtual time, every message delivered through the recipient's real receive handler "
              "(Consensus.handle: signature and justification verification, count limits, conversion, receive buffer); exact oracles on decision "
              "round and instant. The same kind of scripts is executed (Part 0 of TestVerifC04, zz_verif_c04comp_test.go) on four real Consensus "
              "COMPONENTS built by NewConsensus (Participate/Propose -> runInstance, the round timer picked by the production constructor "
              "timer.GetRoundTimerFunc(genesis, slotDuration), real gater, deadliner, transport, Consensus.Broadcast/p2p.Sender, stream handler and wire "
              "encoding; stub libp2p host and beacon client of the C05 harness; a harness network that delivers every frame after the sender's "
              "latency class), and on the qbft.Run layer with the timer obtained from the same production constructor under every feature "
              "combination that selects a different branch, with start offsets beyond one round and with the cluster starting at, within the first "
              "round after, and after the first slot-aligned deadline after the duty's start",
    claim="n=4..6 (quick; n=6 and the proposer duty reduced) / n=4..7 (thorough): every subset of at most f faulty members, every fault kind for the first of them (crash during its "
          "k-th broadcast k<=4 reaching nobody / half / all but one of the others, silent from the start, start late by 1/4 or 3/4 of the first round, "
          "proposal late by the same), each also with every single slow (3*delta) running sender; all n leader rotations; increasing, eager "
          "double-linear and linear timers, attester duty and proposer duty with the proposal-timeout feature. Oracle: every running member decides, "
          "in a round at most n after the furthest round at the last fault (and within 1.5x the sum of those rounds' timeouts), no message of an "
          "honest member is ever reported unjustified or refused by a receive handler, running members agree. Wide family (n=4 quick, n=4..7 thorough): no crash or "
          "every crash kind of every member x every assignment, to at most D other members (n=4: D=2 quick / 3 thorough; n=5: 1 / 2; n=6,7: 1 thorough), of a "
          "start offset in {0, 1/4, 3/4, 19/20} of the first round and a sender latency in {delta, 3*delta, 0.3 x shortest round timeout}: the unconditional "
          "clauses (no honest message refused or unjustified, agreement, no instance error) are judged in every script, the termination clause in those "
          "with at most f faulty (crashed, silent, late) members. The last clause (no message of an honest member is rejected as "
          "unjustified) is additionally checked over ALL delivery orders by the explicit-state search of C02 restricted to its scenarios without "
          "Byzantine members (second test binary, core/qbft). "
          "Production-timer family (qbft.Run layer, before the main family; n=4..6 quick / 4..7 thorough, every leader rotation): the timer obtained (a) from the three "
          "types' own constructors (relative clock; attester, eager double-linear also proposer; thorough: all x proposer) and (b) from "
          "timer.GetRoundTimerFunc(genesis, 12 s)(duty) under the features {eager_double_linear, linear} = {on,off}: slot-aligned eager double-linear for attester, "
          "proposer and aggregator duties (the three duty-start offsets within a slot); {on,off} with a zero genesis (relative eager double-linear); {on,on}: linear "
          "for the proposer, slot-aligned eager double-linear for the attester; {off,on} and {off,off}: increasing. Per unit and - for slot-aligned timers - per "
          "cluster start in {duty start, +500 ms, +1500 ms}: every member starting 1.25 or 2.5 first-round timeouts after the others (n=4: also with every single "
          "slow sender); through the production constructor in addition no fault, every member starting 1/4 or 3/4 of a round late, every crash kind of every member "
          "(n>4 quick: of the first two members), f>=2: a half-way crash plus a second member joining 1.25 rounds late (quick: 15192 scripts, 14064 through the "
          "production constructor, 10548 slot-aligned). A member that has entered 64 rounds without deciding is stopped and judged as never decided. "
          "Component part (n=4, attester duty of slot 1001/1002 - quick - or 1001..1004 = all four leader rotations - thorough; production features: "
          "eager_double_linear, proposal_timeout, consensus_participate; cluster start in {duty start, +500 ms, +1500 ms}): no fault, every single slow sender, map "
          "rotations 1 and 2 (thorough: reverse select order); every member calling Participate+Propose 250 / 750 / 1250 / 2500 ms after the others, the two offsets "
          "beyond one round also with a slow sender (quick: the joiner or its successor; thorough: every member) and under the reverse select order; every member "
          "proposing 250 / 750 / 1250 ms after its Participate; every member silent, or stopping during its k-th broadcast (k=1..4, a broadcast = a distinct message "
          "handed to the network) having reached none / one / two of the three others: 111 scripts per (slot, cluster start), 666 quick / 1536 thorough, each run until "
          "everybody who can has decided (+5 s) or else until the duty's deadline (slot start + one epoch + 1 s). Oracle of the component part: every running "
          "component hands a decision to its subscribers, having sent nothing for a round beyond n after the furthest round at the last fault and no later than "
          "the extended slot-aligned deadline of that round; running components agree; no component logs 'Unjustified consensus message' (the LogUnjust callback "
          "of newDefinition); receive-handler refusals are counted, not judged, in this part. Both parts reproduce the open known finding "
          "C04-late-joiner-never-decides-with-slot-aligned-timer (a never-deciding member is classified: 'joined after the others decided and left' only if the "
          "slot-aligned deadline of the round in which the others decided had passed when it started - the known finding - and otherwise reported under another signature)",
    trusted="testing/synctest virtual time; the recipient's Consensus object is assembled by the harness with the cluster's public keys, an allow-all "
            "duty gater and a never-expiring deadliner (gater and deadliner belong to C05/C16); delivery instants never coincide (distinct microsecond "
            "offsets); the two calls of app/k1util into the secp256k1 library (RecoverCompact, SignCompact - pure, deterministic) are memoised on their "
            "complete argument bytes by an overlay so that repeated verification of byte-identical messages does not re-run the curve arithmetic; "
            "the `sync` import of core/consensus/timer/roundtimer.go and core/consensus/qbft/{qbft,transport,sniffer}.go is rewritten to zzverif/bsync (FIFO locks "
            "whose waiting is a channel receive, otherwise the semantics of sync.Mutex) so that a goroutine waiting for a lock is durably blocked for "
            "testing/synctest: a member that waits for a lock for ever is seen as a member that never decides instead of freezing the execution; component part: "
            "the stub libp2p host, beacon client and key material of the C05 harness, and the console log as the observation point of LogUnjust",
    rule="scripts enumerated as nested products; non-trivial class = (n, timer, number of crashes, number of members that decided, their rounds); component "
         "part: (cluster start, number of crashes, number of components that decided, whether a member that joined beyond one round decided)",
    assumptions=ENUMX_ASSUME + ["latency classes delta=40ms and 3*delta=120ms < 1/3 of the shortest round timeout (400ms)",
                                "Byzantine members and latencies >= 1/3 timeout are outside the property",
                                "start offsets beyond one round and cluster starts after the duty's start go beyond the statement's quantifier ('start offsets smaller "
                                "than a round'); they are what a node restarted or a slow beacon node produces, and what the open known finding needs",
                                "slot duration 12 s; a member is stopped after 64 rounds (qbft.Run layer) / at the duty's deadline (component layer)"],
    budget_s={"quick": 100, "thorough": 1500},
    mem_kb=14 * 1024 * 1024,
)
CHECK["claim"] += ' Fifth session, quick tier: n=7 (f=2) with the default timer and the attester duty under every leader rotation (main family); with two faulty members the second one also stops during its FIRST broadcast; partial broadcasts reach nobody / the first half / all but one / only the last / only the first of the others.'
