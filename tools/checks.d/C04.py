from common import ENUMX_ASSUME, splice_qbft, splice_k1memo

CHECK = dict(
    pkgs=["core/consensus/qbft", "core/qbft"],
    files={"core/consensus/qbft": ["zz_verif_c04_test.go"], "core/qbft": ["zz_verif_c02_test.go", "zz_verif_hook.go"]},
    libs=["enumx"],
    splice={"core/qbft/qbft.go": splice_qbft, "app/k1util/k1util.go": splice_k1memo},
    extra_files={"app/k1util": ["zz_verif_k1memo.go"]},
    run={"core/consensus/qbft": "TestVerifC04", "core/qbft": "TestVerifC04u"},
    level="fault_enumeration",
    engine="timex",
    technique="exhaustive enumeration of fault scripts (crash points incl. halfway through a broadcast, silent members, late starts, late proposals, "
              "latency classes, every leader rotation, all three round timers), each executed on the real qbft.Run with the real "
              "newDefinition/leader/transport/Msg/round timers in virtual time, every message delivered through the recipient's real receive handler "
              "(Consensus.handle: signature and justification verification, count limits, conversion, receive buffer); exact oracles on decision "
              "round and instant",
    claim="n=4..6 (quick; n=6 and the proposer duty reduced) / n=4..7 (thorough): every subset of at most f faulty members, every fault kind for the first of them (crash during its "
          "k-th broadcast k<=4 reaching nobody / half / all but one of the others, silent from the start, start late by 1/4 or 3/4 of the first round, "
          "proposal late by the same), each also with every single slow (3*delta) running sender; all n leader rotations; increasing, eager "
          "double-linear and linear timers, attester duty and proposer duty with the proposal-timeout feature. Oracle: every running member decides, "
          "in a round at most n after the furthest round at the last fault (and within 1.5x the sum of those rounds' timeouts), no message of an "
          "honest member is ever reported unjustified or refused by a receive handler, running members agree. Wide family (n=4 quick, n=4..7 thorough): no crash or "
          "every crash kind of every member x every assignment, to at most D other members (n=4: D=2 quick / 3 thorough; n=5: 1 / 2; n=6,7: 1 thorough), of a "
          "start offset in {0, 1/4, 3/4, 19/20} of the first round and a sender latency in {delta, 3*delta, 0.3 x shortest round timeout}: the unconditional "
          "clauses (no honest message refused or unjustified, agreement, no instance error) are judged in every script, the termination clause in those "
          "with at most f faulty (crashed, silent, late) members. The last clause (no message of an honest member is rejected as "
          "unjustified) is additionally checked over ALL delivery orders by the explicit-state search of C02 restricted to its scenarios without "
          "Byzantine members (second test binary, core/qbft)",
    trusted="testing/synctest virtual time; the recipient's Consensus object is assembled by the harness with the cluster's public keys, an allow-all "
            "duty gater and a never-expiring deadliner (gater and deadliner belong to C05/C16); delivery instants never coincide (distinct microsecond "
            "offsets); the two calls of app/k1util into the secp256k1 library (RecoverCompact, SignCompact - pure, deterministic) are memoised on their "
            "complete argument bytes by an overlay so that repeated verification of byte-identical messages does not re-run the curve arithmetic",
    rule="scripts enumerated as nested products; non-trivial class = (n, timer, number of crashes, number of members that decided, their rounds)",
    assumptions=ENUMX_ASSUME + ["latency classes delta=40ms and 3*delta=120ms < 1/3 of the shortest round timeout (400ms)",
                                "Byzantine members and latencies >= 1/3 timeout are outside the property"],
    budget_s={"quick": 100, "thorough": 1500},
    mem_kb=14 * 1024 * 1024,
)
