from common import ENUMX_ASSUME, splice_qbft

CHECK = dict(
    pkgs=["core/consensus/qbft", "core/qbft"],
    files={"core/consensus/qbft": ["zz_verif_c04_test.go"], "core/qbft": ["zz_verif_c02_test.go", "zz_verif_hook.go"]},
    libs=["enumx"],
    splice={"core/qbft/qbft.go": splice_qbft},
    run={"core/consensus/qbft": "TestVerifC04", "core/qbft": "TestVerifC04u"},
    level="fault_enumeration",
    engine="timex",
    technique="exhaustive enumeration of fault scripts (crash points incl. halfway through a broadcast, silent members, late starts, late proposals, "
              "latency classes, every leader rotation, all three round timers), each executed on the real qbft.Run with the real "
              "newDefinition/leader/transport/Msg/round timers in virtual time; exact oracles on decision round and instant",
    claim="n=4 (quick) / n=4..7 (thorough): every subset of at most f faulty members, every fault kind for the first of them (crash during its "
          "k-th broadcast k<=4 reaching nobody / half / all but one of the others, silent from the start, start late by 1/4 or 3/4 of the first round, "
          "proposal late by the same), each also with every single slow (3*delta) running sender; all n leader rotations; increasing, eager "
          "double-linear and linear timers, attester duty and proposer duty with the proposal-timeout feature. Oracle: every running member decides, "
          "in a round at most n after the furthest round at the last fault (and within 1.5x the sum of those rounds' timeouts), no message of an "
          "honest member is ever reported unjustified, running members agree. The last clause (no message of an honest member is rejected as "
          "unjustified) is additionally checked over ALL delivery orders by the explicit-state search of C02 restricted to its scenarios without "
          "Byzantine members (second test binary, core/qbft)",
    trusted="testing/synctest virtual time; the harness network converts wire messages exactly as the receiving handler does (valuesByHash + "
            "newMsg); delivery instants never coincide (distinct microsecond offsets)",
    rule="scripts enumerated as nested products; non-trivial class = (n, timer, number of crashes, number of members that decided, their rounds)",
    assumptions=ENUMX_ASSUME + ["latency classes delta=40ms and 3*delta=120ms < 1/3 of the shortest round timeout (400ms)",
                                "Byzantine members and latencies >= 1/3 timeout are outside the property"],
    budget_s={"quick": 100, "thorough": 1500},
    mem_kb=14 * 1024 * 1024,
)
