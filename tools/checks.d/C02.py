from common import STATEX_ASSUME, splice_qbft




CHECK = dict(
    pkgs=["core/qbft", "core/consensus/qbft"],
    files={"core/qbft": ["zz_verif_c02_test.go", "zz_verif_hook.go"], "core/consensus/qbft": ["zz_verif_c05_test.go", "zz_verif_c05x_test.go", "zz_verif_c02l_test.go"]},
    libs=["enumx"],
    splice={"core/qbft/qbft.go": splice_qbft},
    run={"core/qbft": "TestVerifC02", "core/consensus/qbft": "TestVerifC02L"},
    level="model_checking",
    engine="statex",
    technique="explicit-state model checking of the implementation: breadth-first search over the reachable global states of 3-7 real qbft.Run "
              "instances driven event by event (deliveries, timeouts, inputs) under a message-constructing Byzantine adversary; state keys are "
              "canonical dumps of Run's private state; plus, at the level of the consensus component, exhaustive enumeration of life-cycle scripts executed on four real "
              "Consensus components in virtual time - single-duty scripts and two-duty scripts in which two instances overlap on the same long-lived components and "
              "a Byzantine member moves material between the instances",
    claim="all global states reachable within the stated menu/bounds (rounds <= R, values, quorum-directed delivery sets, bounded noise) of n real "
          "qbft.Run instances; agreement checked in every state. Component part (TestVerifC02L, core/consensus/qbft): the complete product, over the three honest "
          "members and every position (or absence) of a Byzantine yes-voter (answers every PRE-PREPARE with PREPARE+COMMIT, every ROUND-CHANGE with a null "
          "ROUND-CHANGE), of the life cycles {Participate and Propose at 0; Propose 1.2 s after Participate, i.e. after round 1; both at 1.2 s and everything "
          "sent earlier lost; Participate only} (quick, 512 scripts; thorough 10 life cycles incl. Propose only, 0.3 s, 2.4 s) on real NewConsensus components "
          "(real gater, deadliner, eager-double-linear timers, transport, stream handler; stub libp2p host of the C05 harness); oracle: no honest component "
          "hands more than one decision per duty to its subscribers and all honest decisions are equal. Multi-duty dimension of the component part: two duties "
          "X=attester/slot 1001 and Y on the same four components, pairs {Y=attester/1002; Y=aggregator/1001 (same slot, other type); Y=aggregator/1002 (other slot and "
          "type, same leader rotation as X)}, every member proposes a different value for X and for Y (properly typed sets), orders {X decided before Y starts (Y at 2.4 s); "
          "both at 0; Y at 0 and X at 0.3 s}, Y's late-start shape = the instant the adversary acts relative to Y {pre: the victim starts Y at 3.0 s, after the action at "
          "2.7 s; run: Y's round-1 leader proposes at 3.0 s, Y runs undecided; post: Y decided}, shape of X {decided in round 1; round-1 leader proposes after round 1 "
          "(null ROUND-CHANGEs); every round-1 COMMIT of X lost (prepared ROUND-CHANGEs with PREPARE certificates, justified PRE-PREPARE)}, the Byzantine yes-voter (both "
          "instances) under every index with one cross-instance strategy built only from the messages it received plus its own key: decided / preprepare / roundchange = "
          "its own DECIDED / PRE-PREPARE / ROUND-CHANGE for Y carrying the genuine COMMIT quorum / ROUND-CHANGE quorum (+PREPARE certificate) / PREPARE quorum of X, cold or "
          "warm (the same message for X first: the material in its legitimate place, then transplanted); replay = every honest message of X again, unmodified; relabel = "
          "the honest PRE-PREPARE/PREPAREs/COMMITs of X with the duty rewritten to Y (signatures untouched) and its DECIDED for Y justified by the relabelled COMMITs; "
          "xvalues = its PRE-PREPARE/PREPARE/COMMIT for Y referring to and carrying a value of X, and all its votes for Y carrying values of X before and after the proposed "
          "one (also under map rotations 1..3 when sent to all) - each to one victim or to all honest members; plus the same two-duty scripts with four honest members. "
          "Quick: 54 scripts without adversary (3 pairs x 3 orders x 3 shapes of Y x 2 shapes of X) + 4 indices x first two pairs x 3 orders x 3 instants x 6 strategies "
          "(transplants warm; X shape = the one that yields the strategy's material) x {victim (byz+1)%4, all} + rotations = 1134 two-duty scripts; thorough: the full product "
          "(5 x 3 x 3 x 3 x 3 shapes of X x every victim x 10 strategies incl. none x {one, all} + rotations, about 21.7 k). Same oracle, per duty; a decided value that "
          "nobody proposed for that duty is named in the description only (C03's clause; the C03 check does not use this harness). Counters report how many cross-instance "
          "messages were sent per category and how many reached a receive buffer (transplants and relabelled copies: none on the unchanged tree)",
    trusted="testing/synctest quiescence; the one-line snapshot splice; state-key completeness (cross-checked by executing every local transition "
            "from two different representative histories)",
    rule="BFS over global states (tuple of local Run states + message pool); transitions are deliveries of enabling message sets, timeouts, inputs; "
         "distinct = distinct global states; component part: one evaluation per script, distinct classes = (single/two-duty, strategy, instant, number of honest members "
         "that decided X and Y)",
    assumptions=STATEX_ASSUME + [
        "component part: one pinned select order and map rotation 0 per execution (rotations 1..3 only for the attached-values strategy); goroutine interleavings "
        "inside one virtual instant are whatever the single-P runtime produces (candidates are re-executed three times before they are reported)",
        "component part, two duties: instants are fixed (X by 2.2 s, action at 2.7 s, late start of Y at 3.0 s); more than two overlapping duties, duty expiry "
        "during the run and other duty types than attester/aggregator are outside the bound",
    ],
    budget_s={"quick": 100, "thorough": 1500},
    shards={"quick": 16, "thorough": 16},
    gomaxprocs=1,
    mem_kb=14 * 1024 * 1024,
)
CHECK["claim"] += ' Fifth session: quick tier also n=6 and n=5 with a Byzantine leader of round 1 in forge mode (the sizes at which quorum 4 and 2f+1 = 3 differ), three lock-step groups (one member / the rest of the majority / the minority), R=2, capped like the other scenarios.'
