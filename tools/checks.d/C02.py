from common import STATEX_ASSUME, splice_qbft




CHECK = dict(
    pkgs=["core/qbft", "core/consensus/qbft"],
    files={"core/qbft": ["zz_verif_c02_test.go", "zz_verif_hook.go"], "core/consensus/qbft": ["zz_verif_c05_test.go", "zz_verif_c05x_test.go", "zz_verif_c02l_test.go"]},
    libs=["enumx"],
    splice={"core/qbft/qbft.go": splice_qbft},
    run={"core/qbft": "TestVerifC02", "core/consensus/qbft": "TestVerifC02L"},
    level="model_checking",
    engine="statex",
    technique="explicit-state model checking of the implementation: breadth-first search over the reachable global states of 3-7 real qbft.Run "
              "instances driven event by event (deliveries, timeouts, inputs) under a message-constructing Byzantine adversary; state keys are "
              "canonical dumps of Run's private state; plus, at the level of the consensus component, exhaustive enumeration of life-cycle scripts executed on four real "
              "Consensus components in virtual time",
    claim="all global states reachable within the stated menu/bounds (rounds <= R, values, quorum-directed delivery sets, bounded noise) of n real "
          "qbft.Run instances; agreement checked in every state. Component part (TestVerifC02L, core/consensus/qbft): the complete product, over the three honest "
          "members and every position (or absence) of a Byzantine yes-voter (answers every PRE-PREPARE with PREPARE+COMMIT, every ROUND-CHANGE with a null "
          "ROUND-CHANGE), of the life cycles {Participate and Propose at 0; Propose 1.2 s after Participate, i.e. after round 1; both at 1.2 s and everything "
          "sent earlier lost; Participate only} (quick, 512 scripts; thorough 10 life cycles incl. Propose only, 0.3 s, 2.4 s) on real NewConsensus components "
          "(real gater, deadliner, eager-double-linear timers, transport, stream handler; stub libp2p host of the C05 harness); oracle: no honest component "
          "hands more than one decision per duty to its subscribers and all honest decisions are equal",
    trusted="testing/synctest quiescence; the one-line snapshot splice; state-key completeness (cross-checked by executing every local transition "
            "from two different representative histories)",
    rule="BFS over global states (tuple of local Run states + message pool); transitions are deliveries of enabling message sets, timeouts, inputs; "
         "distinct = distinct global states",
    assumptions=STATEX_ASSUME,
    budget_s={"quick": 100, "thorough": 1500},
    shards={"quick": 16, "thorough": 16},
    gomaxprocs=1,
    mem_kb=14 * 1024 * 1024,
)
