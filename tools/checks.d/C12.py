from common import ENUMX_ASSUME

CHECK = {'pkgs': ['cmd', 'cluster'],
 'libs': ['enumx'],
 'run': {'cmd': 'TestVerifC12a', 'cluster': 'TestVerifC12b'},
 'level': 'exploration',
 'engine': 'enumx',
 'technique': 'small-scope exhaustive enumeration against the real code: (a) the real `charon create cluster` (runCreateCluster) is run for every '
              'configuration of an explicit product and all written files are cross-checked, including the real combine.Combine on every '
              'threshold-size subset of node directories; (b) generic JSON-tree walker over valid definition and lock files of every format '
              'version: every member/element/leaf x {changed value of the same type at 3 positions, other value, emptied, removed, array '
              'element duplicated/swapped, version relabelled to every other version, and for every hex/base64 byte-string leaf the four length changes drop-first-byte, drop-last-byte, prepend-zero-byte, append-zero-byte (the hashing pads some fields; fixtures carry fork versions with leading zeros (goerli) and trailing zeros (mainnet) and addresses with a zero byte at either end)} fed to the real decode + VerifyHashes + '
              'VerifySignatures path; plus consistent re-hash/re-sign by the key holders after substituting shares or the group key. '
              'Dimension SIZES of (b): every field whose hashing depends on its length or element count is put at its boundary sizes in extra fixtures '
              '(harness/cluster/zz_verif_c12sizes_test.go: k x 65 byte Safe/ERC-1271 signature lists with k in {1,2,3,32} for operator config_signature '
              'and enr_signature at every operator position and creator config_signature lists of 1,2,3,32 (v1.11); deposit_amounts and the per-validator partial deposit lists '
              'with 0,1,2,3,5,9 entries (>= v1.8); 1,2,3,5 validators / validator addresses; 3,4,5,10 operators / public shares / node signatures; '
              'name of 0,1,11,32,33,256 characters; uuid / timestamp / dkg_algorithm / consensus_protocol at their limits 64/32/32/256 and empty '
              'consensus_protocol); every sizes fixture goes through the round trip and the generic walker above, and a DENSE WALK alters every single '
              'byte of every byte-string leaf (byte@i: lowest bit flipped) and every character of every text leaf (chr@i), and removes / duplicates / '
              'exchanges every 65 byte element of every multi-signature list (el-drop@j, el-dup@j, el-swap@j), so that every element of a multi-element / '
              'multi-chunk string is reached, not only first/middle/last. '
              '(c) SEVERAL COPIES OF ONE ARTIFACT AS INPUT (harness/cmd/zz_verif_c12copies_test.go): on every created cluster the real combine.Combine '
              '(verification enabled) gets the node directories with exactly ONE lock copy edited in raw JSON (stored hashes and signatures untouched), at '
              'EVERY position of the directory list and, as a control, in all directories, for 9 edits (name, threshold, fee recipient, two public shares '
              'swapped, validator public key, builder-registration gas limit, last validator removed, stored lock_hash, signature_aggregate); controls with '
              'all copies re-indented / re-encoded identically; and one bad key share at every position (foreign key, copy of the next directory\'s '
              'share, the node\'s share of the other validator)',
 'claim': 'quick: (a) 60 clusters = nodes 3..5 x validators {1,2} x network {hoodi, mainnet} x {threshold {default ceil(2n/3), n} x deposit '
          'amounts {default, 8+24 ETH}, thresholds below the default {2 (n=4,5), default-1 (n=5)} with default deposits}, insecure (cheap scrypt) keystores, per-validator distinct fee-recipient/withdrawal addresses; all '
          'size-t subsets of node directories plus the full set through combine.Combine and through tbls.RecoverSecret; one --no-verify '
          'combine on a lock with exchanged group keys per cluster. (b) all 12 versions v1.0..v1.11 x {EIP-712 signed operators+creator, '
          'create-cluster style unsigned} x {lock, definition}, 2 validators 3-of-4 on goerli and on mainnet, every JSON node x every alteration kind '
          '(~39k alterations incl. the repository\'s example files), round trips, 768 re-signed inconsistent locks; sizes fixtures = 5 specs '
          '(n0: 2 validators 3-of-4, empty name, no deposit_amounts and empty partial deposit lists, empty consensus_protocol; n1: 1 validator 7-of-10, 1 char name, 1 amount; n3: 3 validators 4-of-5, 32 char name, '
          '3 amounts; n5: 5 validators 2-of-3, 33 char name, 5 amounts; max: 2 validators 3-of-4, 256 char name, all text fields at their limits, 9 amounts) x all 12 versions, signed, goerli, '
          'plus 4 Safe fixtures (v1.11, 2 validators 3-of-4; operators rotating through 1,2,3,32 signatures so that every length occurs at every position, creator 2/32/3/1 signatures): generic walker on every sizes fixture (~70k alterations); '
          'dense walk on every sizes fixture, the signed goerli fixture of every '
          'version and the example files (~440k single-byte / single-character / list-element alterations; VerifySignatures only evaluated when VerifyHashes passed; '
          'the two leaves no hash covers - signature_aggregate and node_signatures, whose every alteration costs a full VerifySignatures - are walked densely on the base fixtures, the example files and the Safe fixtures, on the other sizes fixtures in the thorough tier only). '
          '(c) per cluster: (n+1) positions x 9 lock edits + 2 controls + n positions x 3 share edits (2 with one validator) on the full set of node directories (2772 altered-copy combines, 120 control combines, 620 bad-share combines). '
          'thorough: (a) 1856 clusters = nodes 3..10 x threshold {default, n, 2 (n>=4), default-1 (n>=5)} x validators {1,2} x {hoodi, mainnet} x deposits {default, '
          '8+24, 31+1, 16+16} x compounding {no, yes} x split-existing-keys {no, yes}; subsets: all for n<=5, the n cyclic windows + full '
          'set above. (b) additionally 1 validator 2-of-3, 2 validators 4-of-4 on hoodi; sizes fixtures additionally n9 (9 validators, 17 amounts, 31 char name), n17 (17 validators, '
          '255 char name), a256 (256 deposit amounts = the list limit); dense walk (all leaves) and re-sign scenarios on every fixture. (c) additionally on the first threshold-size subset of directories. '
          'Oracle: the statement - written artifacts verify/match/recombine; an altered file is rejected (decode, hashes or signatures) '
          'unless it decodes to identical content or the field is in the not-covered table. Safe fixtures: contract signatures cannot pass '
          'VerifySignatures offline, so VerifySignatures there runs with an execution-client stub that accepts EVERY contract signature - for the operator/creator '
          'signature fields the oracle is therefore VerifyHashes only (they are hashed fields), all other checks of VerifySignatures stay in force; ordinary fixtures '
          'keep the offline oracle (no execution client). (c) oracle: combine with one altered lock copy (or the same alteration in all copies) must return an error; with equal re-formatted copies it must '
          'succeed and write the lock\'s keys; with a bad key share it must '
          'return an error or write the private keys of the lock\'s validator public keys',
 'trusted': 'the per-version table of fields a format does not hash or sign (c12bNotCovered in harness/cluster/zz_verif_c12_test.go, one entry: '
            'emptying/removing signature_aggregate in v1.0/v1.1, justified by lock.go VerifySignatures + ssz.go hashLockLegacy); BLS/secp256k1 '
            'libraries, SSZ hash-tree-root of go-eth2-client types and the deposit/registration signing-domain helpers are used as given '
            '(harness verifies with the same helpers that creation signs with); key material is random per run (relations hold for any keys)',
 'rule': 'one evaluation = one alteration of one file fed to the real loader, or one artifact class / combine subset / altered-copy or bad-share combine of one created cluster; '
         'distinct = distinct (version+variant[+sizes spec], document, JSON path, alteration incl. byte/character/element position) resp. (configuration, check | copies set, edit, position)',
 'budget_s': {'quick': 400, 'thorough': 1500}}
CHECK["assumptions"] = ENUMX_ASSUME + [
    "alterations outside the alphabet are not covered: several simultaneous field changes (other than the re-sign scenarios), "
    "re-encodings of the same value (hex case, 0x1b/0x1c recovery ids, ECDSA s-malleability of node signatures, leading-zero padding), "
    "added unknown JSON members",
    "ERC-1271 (smart-contract) signatures are never verified against a contract: ordinary fixtures run VerifySignatures without an execution client, as "
    "create cluster / combine do offline; the Safe fixtures use a stub on which every contract signature is valid (hash coverage of the signature lists is "
    "what is checked there)",
    "sizes: ENR length is the default of enr.New (no ip/tcp/udp entries, ~190 characters); list sizes between the listed boundary values are not covered; "
    "the dense walk flips one bit of each byte / rotates each character (other values of the same position are not tried); quick tier: no dense walk of "
    "signature_aggregate / node_signatures on the non-Safe sizes fixtures (three positions per leaf there)",
    "(c): exactly one deviating copy per run (or all copies equal); --no-verify runs with deviating copies are not judged; the bad share is always validator 0's",
]
CHECK["claim"] += " Fifth session (after the rebuild): HISTORY dimension of part (b) - every alteration that is rejected by hash or signature right after decoding is judged again after the decoded object has been JSON-encoded once (must stay rejected); in the round-trip scenario an edited and encoded struct copy of the decoded definition must leave the original's hashes intact; IN-MEMORY dimension - every validator's fee-recipient and withdrawal address altered, one at a time, on the decoded object of every version (VerifyHashes must fail)."
