from common import ENUMX_ASSUME

CHECK = {'pkgs': ['cmd', 'cluster'],
 'libs': ['enumx'],
 'run': {'cmd': 'TestVerifC12a', 'cluster': 'TestVerifC12b'},
 'level': 'exploration',
 'engine': 'enumx',
 'technique': 'small-scope exhaustive enumeration against the real code: (a) the real `charon create cluster` (runCreateCluster) is run for every '
              'configuration of an explicit product and all written files are cross-checked, including the real combine.Combine on every '
              'threshold-size subset of node directories; (b) generic JSON-tree walker over valid definition and lock files of every format '
              'version: every member/element/leaf x {changed value of the same type at 3 positions, other value, emptied, removed, array '
              'element duplicated/swapped, version relabelled to every other version, and for every hex/base64 byte-string leaf the four length changes drop-first-byte, drop-last-byte, prepend-zero-byte, append-zero-byte (the hashing pads some fields; fixtures carry fork versions with leading zeros (goerli) and trailing zeros (mainnet) and addresses with a zero byte at either end)} fed to the real decode + VerifyHashes + '
              'VerifySignatures path; plus consistent re-hash/re-sign by the key holders after substituting shares or the group key',
 'claim': 'quick: (a) 48 clusters = nodes 3..5 x threshold {default ceil(2n/3), n} x validators {1,2} x network {hoodi, mainnet} x deposit '
          'amounts {default, 8+24 ETH}, insecure (cheap scrypt) keystores, per-validator distinct fee-recipient/withdrawal addresses; all '
          'size-t subsets of node directories plus the full set through combine.Combine and through tbls.RecoverSecret; one --no-verify '
          'combine on a lock with exchanged group keys per cluster. (b) all 12 versions v1.0..v1.11 x {EIP-712 signed operators+creator, '
          'create-cluster style unsigned} x {lock, definition}, 2 validators 3-of-4 on goerli and on mainnet, every JSON node x every alteration kind '
          '(~40k alterations), round trips, 384 re-signed inconsistent locks. '
          'thorough: (a) 1472 clusters = nodes 3..10 x threshold {default, n, 2} x validators {1,2} x {hoodi, mainnet} x deposits {default, '
          '8+24, 31+1, 16+16} x compounding {no, yes} x split-existing-keys {no, yes}; subsets: all for n<=5, the n cyclic windows + full '
          'set above. (b) additionally 1 validator 2-of-3, 2 validators 4-of-4 on hoodi (~66k alterations). '
          'Oracle: the statement - written artifacts verify/match/recombine; an altered file is rejected (decode, hashes or signatures) '
          'unless it decodes to identical content or the field is in the not-covered table',
 'trusted': 'the per-version table of fields a format does not hash or sign (c12bNotCovered in harness/cluster/zz_verif_c12_test.go, one entry: '
            'emptying/removing signature_aggregate in v1.0/v1.1, justified by lock.go VerifySignatures + ssz.go hashLockLegacy); BLS/secp256k1 '
            'libraries, SSZ hash-tree-root of go-eth2-client types and the deposit/registration signing-domain helpers are used as given '
            '(harness verifies with the same helpers that creation signs with); key material is random per run (relations hold for any keys)',
 'rule': 'one evaluation = one alteration of one file fed to the real loader, or one artifact class / combine subset of one created cluster; '
         'distinct = distinct (version+variant, document, JSON path, alteration) resp. (configuration, check)',
 'budget_s': {'quick': 100, 'thorough': 1500}}
CHECK["assumptions"] = ENUMX_ASSUME + [
    "alterations outside the alphabet are not covered: several simultaneous field changes (other than the re-sign scenarios), "
    "re-encodings of the same value (hex case, 0x1b/0x1c recovery ids, ECDSA s-malleability of node signatures, leading-zero padding), "
    "added unknown JSON members",
    "ERC-1271 (smart-contract) operator signatures are not exercised: VerifySignatures runs without an execution client, as create cluster / "
    "combine do offline",
]
