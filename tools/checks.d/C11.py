from common import ENUMX_ASSUME

CHECK = {'pkgs': ['dkg'],
 'libs': ['enumx', 'schedx', 'vsync'],
 'vsync': ['dkg/frostp2p.go'],
 'run': 'TestVerifC11',
 'level': 'exploration',
 'engine': 'enumx',
 'technique': 'small-scope exhaustive enumeration of ceremony configurations and round-barrier arrival/release orders: the real '
              'runFrostParallel is run by n in-process nodes over a harness fTransport (ordered barrier, messages through the real frostp2p '
              'wire conversion), and the outputs of all nodes are judged with the real tbls primitives; candidates are re-run 3x (fresh '
              'randomness) before they are reported',
 'claim': 'every (n,t,v) with n in 3..5 (thorough 3..8), t in 2..n, v in 1..2 (thorough 1..4) validators; for each the arrival=release orders '
          'of the two round barriers: n<=4 all n! orders of round 1 (round 2 identity), all n! orders of round 2 (round 1 identity) and '
          'reversed/reversed; n>=5 all rotations of the identity and of the reversed order per round (other round identity) and '
          'reversed/reversed; map iteration pinned to rotation 0, 1 or left stock-random, cyclically over the cases. Oracle per validator: '
          'equal group key and equal public shares 1..n on all nodes, secret share of node i matches public share i+1 in every node\'s map, '
          'every size-t subset of public shares recovers the group key and of secret shares threshold-signs validly under it, no '
          'size-(t-1) subset does either (n<=6 all subsets in every ceremony; n>=7 all subsets in the first ceremony of each work unit, '
          'the n cyclic windows in the others); group keys of all ceremonies and validators of a work unit pairwise distinct '
          '(>=6 independent ceremonies per configuration). Thorough only: the complete dkg.Run (libp2p on loopback, lock files and keystores '
          'read back from disk) for (n,t) in {(3,2),(4,3)}, 2 validators, two independent ceremonies each, same oracle',
 'trusted': 'herumi/tbls primitives (SecretToPublicKey, RecoverPubkey, Sign, ThresholdAggregate, Verify) are the judge; the harness transport is '
            'a reliable all-to-all barrier that checks message addressing like frostP2P but does not re-validate payloads (commitment count); '
            'ceremonies that return an error on any node are skipped and noted (the property is conditional on success)',
 'rule': 'one evaluation = one complete ceremony (n nodes, v validators) under one pair of barrier orders, fully judged; '
         'distinct = (configuration, order family)',
 'budget_s': {'quick': 100, 'thorough': 1500},
 'gomaxprocs': 4}
CHECK["assumptions"] = ENUMX_ASSUME
