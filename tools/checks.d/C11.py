from common import ENUMX_ASSUME

CHECK = {'pkgs': ['dkg'],
 'libs': ['enumx'],
 'run': 'TestVerifC11',
 'level': 'exploration',
 'engine': 'enumx',
 'technique': 'small-scope exhaustive enumeration of ceremony configurations and round-barrier arrival/release orders: the real '
              'runFrostParallel is run by n in-process nodes over a harness fTransport (ordered barrier, real frostp2p wire conversion), and '
              'the outputs of all nodes are judged with the real tbls primitives',
 'claim': 'every (n,t,v) with n in 3..5 (thorough 3..8), t in 2..n, v in 1..2 (thorough 1..4) validators; for each the arrival=release orders '
          'of the two round barriers: n<=4 all n! orders of round 1 (round 2 identity), all n! orders of round 2 (round 1 identity) and '
          'reversed/reversed; n>=5 all rotations of the identity and of the reversed order per round (other round identity) and '
          'reversed/reversed; map iteration pinned to rotation 0 and 1 alternately. Oracle per validator: equal group key and equal n public '
          'shares on all nodes, secret share i matches public share i+1, every size-t subset (n<=6 all subsets, n>=7 the n cyclic windows) '
          'of public shares recovers the group key and of secret shares threshold-signs validly under it, no size-(t-1) subset does either; '
          'group keys of all ceremonies of a configuration pairwise distinct (>=2 ceremonies each)',
 'trusted': 'herumi/tbls primitives (SecretToPublicKey, RecoverPubkey, Sign, ThresholdAggregate, Verify) are the judge; the harness transport is '
            'a reliable all-to-all barrier that checks message addressing like frostP2P but does not re-validate payloads (commitment count); '
            'ceremonies that return an error on any node are skipped (the property is conditional on success)',
 'rule': 'one evaluation = one complete ceremony (n nodes, v validators) under one pair of barrier orders, fully judged; '
         'distinct = (configuration, order family)',
 'budget_s': {'quick': 100, 'thorough': 1500},
 'gomaxprocs': 4}
CHECK["assumptions"] = ENUMX_ASSUME
