from common import ENUMX_ASSUME, SCHEDX_ASSUME, splice_k1memo


def splice_g1memo(src, out):
    """Route the three point decompressions of dkg/frostp2p.go (round1CastFromProto: commitments; round2CastFromProto:
    verification key and verification-key share; curve.Point.FromAffineCompressed, pure and deterministic) through the
    memoising wrapper of harness/dkg/zz_verif_c11_memo.go (key = the complete argument, a hit returns a fresh copy).
    Nothing of charon's own code is bypassed; the n in-process nodes of a ceremony decompress the same bytes once."""
    import os
    s = open(src).read()
    a = "curve.Point.FromAffineCompressed("
    if s.count(a) != 3:
        return None
    s = s.replace(a, "verifG1FromCompressed(")
    os.makedirs(os.path.dirname(out), exist_ok=True)
    open(out, "w").write(s)
    return out


CHECK = {'pkgs': ['dkg', 'dkg/pedersen'],
 'libs': ['enumx', 'schedx', 'vsync'],
 'vsync': ['dkg/frostp2p.go'],
 'splice': {'app/k1util/k1util.go': splice_k1memo, 'dkg/frostp2p.go': splice_g1memo},
 'extra_files': {'app/k1util': ['zz_verif_k1memo.go']},
 'run': {'dkg': 'TestVerifC11', 'dkg/pedersen': 'TestVerifC11P'},
 'level': 'exploration',
 'engine': 'enumx',
 'technique': 'small-scope exhaustive enumeration against the real code, two FROST parts and a pedersen part (every threshold of every cluster size on the real pedersen.RunDKG). Part one: ceremony configurations and round-barrier '
              'arrival/release orders; the real runFrostParallel is run by n in-process nodes over a harness fTransport (ordered barrier, messages '
              'through the real frostp2p wire conversion). Part two: the PRODUCTION transport is in the loop - every node gets the real '
              'bcast.New component and the real newFrostP2P (real newBcastCallback/newP2PCallback with their dedup maps and validation, real '
              'channels, real frostP2P.Round1/Round2 that collect and count messages) on an in-memory libp2p host; the signature collection of '
              'a broadcast is a synchronous call into the peers\' real handlers, every one-way message (signed bcast message of round 1/2, round 1 '
              'p2p shares, sent by the real p2p.Send) is captured and handed byte for byte to the recipient\'s real p2p stream handler by a '
              'controller that prescribes each recipient\'s arrival order; one ceremony = one testing/synctest bubble with quiescence after every '
              'delivery (no timers). Deviation bounding over the delivery alphabet (0, then 1, thorough 2 deviations) plus, for one victim '
              'recipient at a time, CROSS-ROUND delivery histories enumerated from scratch (family hist: every interleaving of the senders\' '
              'message streams as first-delivery order x up to 2 re-deliveries of the same signed bytes at every later position, so that a '
              'sender\'s round 1 broadcast arrives again after its round 2 broadcast, the round 2 broadcast again after that, while the victim '
              'still waits for another peer\'s message of that round or after it has left the round); for a message delivered '
              'by two threads at once the interleavings of the two handler calls are enumerated by the schedx engine (dkg/frostp2p.go built '
              'with the vsync lock shim: every lock acquisition and every unlock of the callbacks is a scheduling point). In both parts the '
              'outputs of all nodes are judged with the real tbls primitives; candidates are re-run before they are reported (3x fresh '
              'randomness; concurrent cases 5x the same interleaving)',
 'claim': 'PEDERSEN PART (dkg/pedersen, TestVerifC11P): the second key-generation protocol, pedersen.RunDKG, on n real nodes (libp2p hosts on loopback, real dkg/bcast, real Board) for EVERY (n, t) with n in 3..6 (thorough 3..9), t in 2..n and the unset threshold 0 (= default ceil(2n/3)), v in 1..2 validators (quick: v=1 for n=6): every successful ceremony judged completely - same group key and same n public shares on all nodes, each secret share matches its public share, EVERY t-subset of public shares recovers the group key and EVERY t-subset of partial signatures aggregates to a valid group signature; ceremonies that fail are skipped and counted. PART ONE: every (n,t,v) with n in 3..5 (thorough 3..8), t in 2..n, v in 1..2 (thorough 1..4) validators; for each the arrival=release '
          'orders of the two round barriers: n<=4 all n! orders of round 1 (round 2 identity), all n! orders of round 2 (round 1 identity) and '
          'reversed/reversed; n>=5 all rotations of the identity and of the reversed order per round (other round identity) and '
          'reversed/reversed; map iteration pinned to rotation 0, 1 or left stock-random, cyclically over the cases. Thorough only: the '
          'complete dkg.Run (libp2p on loopback, lock files and keystores read back from disk) for (n,t) in {(3,2),(4,3)}, 2 validators, two '
          'independent ceremonies each. '
          'PART TWO (production transport): each recipient has an arrival list over its 3(n-1) incoming messages; default = every message once in '
          'sender order, in two variants (base 0: round 1 broadcasts, round 1 p2p shares, round 2 broadcasts; base 1: p2p shares before the '
          'round 1 broadcasts); recipients are served round-robin, an entry is delivered as soon as its sender has produced it. Deviations, '
          'each for both bases and every recipient: dup = any message delivered a second time (same bytes), the copy at ANY later position '
          'of the list (L(L+1)/2 choices, L=3(n-1)); swap = any two entries exchanged (L(L-1)/2; includes a round 2 broadcast arriving while '
          'the recipient is still in round 1 and casts/p2p shares of different senders interleaved); late = the recipient calls '
          'runFrostParallel only after the first k=1..2(n-1) messages were handed to its callbacks; conc = any message handed to the '
          'handler by two threads at once, all interleavings of the two calls with at most one preemption (thorough: all interleavings, '
          '20 per message). QUICK: 0 deviations for every n in {3,4}, t in 2..n, v in {1,2} (both bases, map rotation 0/1/stock); 1 deviation: '
          'dup, swap, late for n=3 (t 2..3, v 1..2) and n=4 (t 2..4, v=1), conc for n=3 (t 2..3, v=1) and n=4 (t=3, v=1); n=4 with v=2 '
          'is capped to the default delivery in the quick tier. THOROUGH: dup, swap, late for n=3 (t 2..3, v 1..3), n=4 (t 2..4, v 1..2), '
          'n=5 (t 2..5, v=1); conc for n=3 (v 1..2) and n=4 (v=1), all t; 2 deviations (dup/swap x dup/swap): n=3, t 2..3, v=1, every pair on '
          'one recipient (second deviation enumerated on the list produced by the first, results identical to a <=1-deviation list or to '
          'each other evaluated once) and every pair on two different recipients; no pairs for n>=4, no pairs containing late or conc. '
          'HIST (cross-round delivery histories; one victim recipient per ceremony, the other recipients get the default delivery '
          'base 0): the victim\'s arrival list = a first-delivery order of its 3(n-1) incoming messages + k re-deliveries (copies of the same '
          'signed bytes; bcast accepts re-sends) of ANY of these messages, each copy at ANY position after the first delivery of that '
          'message (a list that arises in several ways is evaluated once). First-delivery orders: glued = every interleaving of the n-1 '
          'senders\' streams [round 1 broadcast + its p2p shares directly after it, round 2 broadcast] ((2(n-1))!/2^(n-1) orders: 6 for '
          'n=3, 90 for n=4); p2pfirst = all p2p shares first, then every interleaving of the broadcast streams (same number; the victim\'s '
          'round 1 then ends with a broadcast); fifo = every interleaving of the streams [r1 broadcast, r1 p2p, r2 broadcast] (20 for n=3); '
          'perm = every permutation (720 for n=3; a round 2 broadcast overtaking the same sender\'s round 1 messages). All of them are '
          'realisable: a sender\'s round 2 broadcast exists once the SENDER has completed round 1, independent of the victim. Options: '
          'notail = no copy after the last first delivery (the victim has received everything there; single copies at those positions are in '
          'dup); castsonly = only broadcasts are re-delivered; onesender = all copies are broadcasts of one sender (each sender in turn). '
          'QUICK: n=3, t=2, v=1, EVERY node index in turn as victim (0..2): glued x k<=2 copies of any message (broadcast or p2p shares), '
          'notail (6 x 156 lists) and p2pfirst x k<=2 castsonly notail (6 x 32 lists) = 3384 ceremonies; this contains r1,r2,r1 and '
          'r1,r2,r1,r2 (also r1,r2,r2,r1; r1,r1,r2,r2; ...) of one sender at every position relative to the other sender\'s messages, '
          'copies of two different senders, and a copy while the victim waits only for the other peer\'s round 1 / round 2 broadcast. '
          'THOROUGH (33774 ceremonies): n=3,t=2,v=1, victims 0..2: fifo x k<=2 notail (20 x 156; contains glued), p2pfirst x k<=2 notail '
          '(any message, 6 x 156), p2pfirst x exactly 3 copies castsonly notail (6 x 90); VICTIM 0 ONLY (time budget): n=3,t=2,v=1 perm x '
          'k<=1 castsonly notail (720 x 11); n=3 (t=3,v=1) and (t=2,v=2): as quick; n=4 (t=3,v=1) glued x k<=1 notail (90 x 37) and p2pfirst '
          'x k<=1 castsonly notail (90 x 16), n=4 (t=2,v=1) p2pfirst x exactly 2 copies onesender notail (5040 lists). Not covered: k>=3 '
          'copies except as stated, two victims at once, other victims than node 0 where stated, k=2 for n=4 beyond onesender, n>=5; all '
          'validators of a ceremony share the two rounds (runFrostParallel), so there is no later per-validator step into which a copy '
          'could fall. Copies of p2p shares that get past a broken dedup make the recipient\'s ceremony fail loudly (a share is missing in '
          'the library\'s round 2), which the property permits: silent wrong outputs come from repeated broadcasts. '
          'ORACLE (both parts), on every ceremony in which every node returns without error, per validator: equal group key and equal '
          'public shares 1..n on all nodes, secret share of node i matches public share i+1 in every node\'s map, every size-t subset of '
          'public shares recovers the group key and of secret shares threshold-signs validly under it, no size-(t-1) subset does either '
          '(n<=6 all subsets in every ceremony; n>=7 all subsets in the first ceremony of each work unit, the n cyclic windows in the '
          'others); group keys of all ceremonies and validators of a work unit pairwise distinct. A ceremony in which a node returns an '
          'error or panics, or which cannot complete, under a deviation is legal (the property is conditional on success) and only '
          'counted; under the default delivery it marks the run as not exhaustive',
 'trusted': 'herumi/tbls primitives (SecretToPublicKey, RecoverPubkey, Sign, ThresholdAggregate, Verify) are the judge. Part one: the harness '
            'transport is a reliable all-to-all barrier that checks message addressing like frostP2P but does not re-validate payloads. Part two: '
            'the in-memory host replaces libp2p streams (stream = byte buffer; request/response exchanges are served at once, one-way '
            'messages are captured), testing/synctest quiescence detection, for conc the vsync lock shim and the runtime determinism overlay '
            '(map rotation 0, select in source order); cross-recipient timing is fixed to round-robin (recipients share no state); the dedup '
            'counter reads the callbacks\' own "Ignoring duplicate" log line; hist: re-deliveries after the victim has received every message '
            '(notail) are left to the dup family because no output can change there. Two pure library calls are memoised by build splices (key = '
            'the complete argument bytes, nothing of charon\'s code is bypassed): secp256k1 signature recovery/signing under app/k1util (the n '
            'in-process nodes verify the same broadcast signatures) and BLS12-381 point decompression in dkg/frostp2p.go round1CastFromProto / '
            'round2CastFromProto (curve.Point.FromAffineCompressed; a hit returns a fresh copy). Ceremonies that return an error on any node are skipped and '
            'counted',
 'rule': 'one evaluation = one complete ceremony (n nodes, v validators) under one pair of barrier orders (part one) or one delivery schedule '
         '/ one interleaving (part two), fully judged; distinct = (configuration, order family or deviation family, outcome class)',
 'budget_s': {'quick': 150, 'thorough': 1500},
 'gomaxprocs': 4}
CHECK["race_tests"] = {"dkg": "TestVerifRaceC11"}
CHECK["assumptions"] = ENUMX_ASSUME + [
    "part two, conc cases: " + SCHEDX_ASSUME[0],
    "part two: deliveries are serialised (quiescence after each) except for the one concurrently repeated message of a conc case",
    "part two, hist: one victim recipient per ceremony; re-deliveries are byte-identical copies of messages the sender really produced (no forged or altered messages)",
]
