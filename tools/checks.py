"""Per-property check configuration for mc.py (see DESIGN.md §5)."""

SCHEDX_ASSUME = [
    "code between two scheduling points touches shared state only under the component's lock or through channels "
    "(discharged by the free-running -race pass, DESIGN §4.5)",
    "map iteration order: uniform rotation per execution (runtime overlay), per-loop independent orders outside the bound",
]

CHECKS = {
    "C17": dict(
        pkgs=["core/aggsigdb"],
        libs=["schedx", "vsync"],
        vsync=["core/aggsigdb/memory_v2.go"],
        run="TestVerifC17",
        level="model_checking",
        engine="schedx",
        technique="stateless model checking of the real code: exhaustive preemption-bounded DFS over thread interleavings under a controlled scheduler (synctest quiescence), state-key pruning",
        claim="every interleaving (quick: <=2 preemptions; thorough: unbounded) of 2-6 threads doing Await/Store/cancel/expiry on both real "
              "implementations, scheduling points at every lock acquire/release; oracle: stored-value, conflict rejection, terminal-state "
              "liveness (no reader blocked while its key is in the store), exact virtual-time promptness",
        trusted="testing/synctest quiescence detection, the vsync lock shim and the runtime determinism overlay; assumes no unsynchronised "
                "shared access between scheduling points (separate -race pass)",
        rule="every interleaving (preemption-bounded DFS, state-key pruning) of 2-6 harness threads doing Await/Store/cancel "
             "on the real MemDB and MemDBV2 with a real deadliner in virtual time; distinct = distinct observable outcomes",
        assumptions=SCHEDX_ASSUME,
        budget_s={"quick": 90, "thorough": 1200},
    ),
    "C07": dict(
        pkgs=["core/parsigdb"],
        libs=["schedx", "vsync"],
        vsync=["core/parsigdb/memory.go"],
        run="TestVerifC07",
        level="model_checking",
        engine="schedx",
        technique="exhaustive enumeration of all arrival sequences of partial-signature batches over a small alphabet against the real store, "
                  "plus stateless model checking (preemption-bounded DFS) of concurrent stores racing for the threshold",
        claim="Part A: every arrival order of every per-share batch choice (n,t in {(3,2),(4,3)}; 2 validators; 2 roots; duplicates, equivocations, "
              "mixed batches; internal/external; expiring, exempt, expired and root-less duty kinds; both map iteration orders). Part B: every "
              "interleaving (quick <=2 preemptions, thorough unbounded) of 3-4 concurrent stores and the trimmer. Oracle: triggers judged against "
              "the store's own private state (accepted partials) after every call",
        trusted="the store's private `entries` map is taken as ground truth of what was accepted; synctest/vsync/runtime overlay as for C17",
        rule="sequences of StoreInternal/StoreExternal calls + interleavings; distinct = distinct outcome vectors",
        assumptions=SCHEDX_ASSUME,
        budget_s={"quick": 100, "thorough": 1500},
    ),
    "C06": dict(
        pkgs=["core/dutydb"],
        libs=["schedx", "vsync"],
        vsync=["core/dutydb/memory.go"],
        run="TestVerifC06",
        level="model_checking",
        engine="schedx",
        technique="stateless model checking of the real code: exhaustive preemption-bounded DFS over thread interleavings under a controlled scheduler (synctest quiescence), state-key pruning",
        claim="every interleaving (quick <=2 preemptions; thorough unbounded for the 3-4 thread scenarios) of Store/Await*/PubKeyByAttestation/cancel/expiry "
              "threads over equal, conflicting and partially conflicting data of all four duty kinds, both map iteration orders for multi-entry sets; "
              "history oracle: per-key uniqueness, nothing invented, conflict rejection, expired refused, terminal-state liveness and exact virtual-time promptness",
        trusted="synctest/vsync/runtime overlay as for C17; 'same signed content' of an aggregate key is the attestation data the key is the root of",
        rule="interleavings of 3-5 harness threads; distinct = distinct outcome vectors",
        assumptions=SCHEDX_ASSUME,
        budget_s={"quick": 100, "thorough": 1500},
    ),
}

ENGINES = [
    {"name": "schedx", "path": "harness/zzverif/schedx", "serves_properties": ["C06", "C07", "C17", "C20"],
     "kind_free_text": "stateless DFS over thread interleavings of real components inside testing/synctest bubbles; "
                       "iterative preemption bounding, state-key pruning, virtual time"},
]

NOT_APPLICABLE = {}
