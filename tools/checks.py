"""Per-property check configuration for mc.py (see DESIGN.md §5)."""

SCHEDX_ASSUME = [
    "code between two scheduling points touches shared state only under the component's lock or through channels "
    "(discharged by the free-running -race pass, DESIGN §4.5)",
    "map iteration order: uniform rotation per execution (runtime overlay), per-loop independent orders outside the bound",
]

CHECKS = {
    "C17": dict(
        pkgs=["core/aggsigdb"],
        libs=["schedx", "vsync"],
        vsync=["core/aggsigdb/memory_v2.go"],
        run="TestVerifC17",
        level="model_checking",
        rule="every interleaving (preemption-bounded DFS, state-key pruning) of 2-6 harness threads doing Await/Store/cancel "
             "on the real MemDB and MemDBV2 with a real deadliner in virtual time; distinct = distinct observable outcomes",
        assumptions=SCHEDX_ASSUME,
        budget_s={"quick": 90, "thorough": 1200},
    ),
}
