"""Per-property check configuration for mc.py: one file per property under tools/checks.d/ (see DESIGN.md §5).

Each file defines CHECK = dict(
  pkgs=[...charon package dirs that get harness test files injected and a test binary built...],
  libs=[...zzverif libraries needed...], vsync=[...files whose "sync" import is rewritten...],
  run="TestVerifCxx" (or {pkg: name}), level=<evidence level>, engine, technique, claim, trusted, rule,
  assumptions=[...], budget_s={"quick":..,"thorough":..}, shards={"quick":..,"thorough":..} (default: all cores),
  gomaxprocs=1, mem_kb=...)
"""
import glob
import importlib.util
import os
import sys

_here = os.path.dirname(os.path.abspath(__file__))
sys.path.insert(0, _here)

CHECKS = {}
for _f in sorted(glob.glob(os.path.join(_here, "checks.d", "C*.py"))):
    _spec = importlib.util.spec_from_file_location("check_" + os.path.basename(_f)[:-3], _f)
    _m = importlib.util.module_from_spec(_spec)
    _spec.loader.exec_module(_m)
    CHECKS[os.path.basename(_f)[:-3]] = _m.CHECK

ENGINES = [
    {"name": "schedx", "path": "harness/zzverif/schedx", "serves_properties": ["C06", "C07", "C17", "C20"],
     "kind_free_text": "stateless DFS over thread interleavings of real components inside testing/synctest bubbles; "
                       "iterative preemption bounding, state-key pruning, virtual time"},
    {"name": "enumx", "path": "harness/zzverif/enumx", "serves_properties": ["C05", "C08", "C09", "C10", "C11", "C12", "C14", "C18"],
     "kind_free_text": "small-scope exhaustive enumeration of explicit finite input/configuration spaces against the real code"},
]

NOT_APPLICABLE = {}
