"""Shared constants of the check configurations."""

SCHEDX_ASSUME = [
    "code between two scheduling points touches shared state only under the component's lock or through channels "
    "(discharged by the free-running -race pass, DESIGN §4.5)",
    "map iteration order: uniform rotation per execution (runtime overlay), per-loop independent orders outside the bound",
]

ENUMX_ASSUME = [
    "data values outside the enumerated alphabets are not covered (stated per property in DESIGN.md)",
]
