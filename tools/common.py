"""Shared constants of the check configurations."""

SCHEDX_ASSUME = [
    "code between two scheduling points touches shared state only under the component's lock or through channels "
    "(discharged by the free-running -race pass, DESIGN §4.5)",
    "map iteration order: uniform rotation per execution (runtime overlay), per-loop independent orders outside the bound",
]

ENUMX_ASSUME = [
    "data values outside the enumerated alphabets are not covered (stated per property in DESIGN.md)",
]

STATEX_ASSUME = [
    "authenticated transport: a Byzantine member can only send messages under its own identity (established by C05)",
    "the delivery menu is a coverage strategy (quorum-directed enabling sets + bounded noise); every offered event is executed on the real code",
    "rounds above R, values outside the alphabet and non-canonical quorum subsets for n>=5 are outside the bound",
]


def splice_qbft(src, out):
    """Insert the state-snapshot call at the top of qbft.Run's event loop (anchor: the comment + `for {`)."""
    import os
    s = open(src).read()
    anchor = "\t// Handle events until cancelled.\n\tfor {\n"
    if s.count(anchor) != 1:
        return None
    call = ("\t\tverifSnapshot(ctx, process, round, any(inputValue), any(ppjCache), preparedRound, any(preparedValue), compareFailureRound,\n"
            "\t\t\tany(preparedJustification), any(qCommit), any(qCommitValue), any(buffer), dedupRules, decidedResends, timerChan != nil, inputValueCh != nil)\n")
    s = s.replace(anchor, anchor + call)
    os.makedirs(os.path.dirname(out), exist_ok=True)
    open(out, "w").write(s)
    return out


def splice_k1memo(src, out):
    """Route k1util's two calls into the secp256k1 library (ecdsa.RecoverCompact / ecdsa.SignCompact, both pure and
    deterministic - RFC 6979) through memoising wrappers defined in harness/app/k1util/zz_verif_k1memo.go. Nothing of
    charon's own code is bypassed; the memo only spares re-running the curve arithmetic for byte-identical arguments."""
    import os
    s = open(src).read()
    a, b = "ecdsa.RecoverCompact(sig, hash)", "ecdsa.SignCompact(key, hash, false)"
    if s.count(a) != 1 or s.count(b) != 1:
        return None
    s = s.replace(a, "verifRecoverCompact(sig, hash)").replace(b, "verifSignCompact(key, hash, false)")
    os.makedirs(os.path.dirname(out), exist_ok=True)
    open(out, "w").write(s)
    return out
