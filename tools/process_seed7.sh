#!/bin/bash
# process_seed4.sh <Cxx> <a|b> <demo dir> [check id...] : confirm a round-5 seed in a scratch worktree, then run the checks via overlay
c=$1; v=$2; demodir=$3; shift 3
checks=${@:-$c}
out=/tmp/seed7/$c/out/$v
{
  echo "== $c/$v =="
  bash /verif/tools/confirm_seed.sh $out $demodir TestSeed 2>&1 | grep -A8 CONFIRM
  for k in $checks; do
    cd /verif && ./mc trypatch $k $out/patch.diff 2>&1 | grep -E "^trypatch|signature:|BUILD FAILED|harness failure" | sort | uniq -c | sort -rn | head -8
  done
} > /tmp/seed7/$c/res_$v.txt 2>&1
