#!/bin/bash
# confirm_seed.sh <seed dir> <repo-relative dir for the demo test> <test run regex> [extra test pkgs...]
# Confirms a seeded change in a scratch worktree: builds, existing tests of touched+importing packages pass,
# demo fails with the change and passes without it.
set -u
SEED=$1; DEMODIR=$2; RUN=$3; shift 3
WT=/tmp/confirm_$$
git -C /repo worktree add -q --detach $WT HEAD || exit 9
cd $WT
res() { echo "CONFIRM $1: $2"; }
git apply $SEED/patch.diff || { res apply FAIL; cd /; git -C /repo worktree remove --force $WT; exit 1; }
go build ./... 2>&1 | tail -3; [ ${PIPESTATUS[0]} -eq 0 ] && res build OK || res build FAIL
PKGS=$(git diff --name-only | xargs -n1 dirname | sort -u | sed 's#^#./#')
IMPORTERS=""
for p in $PKGS; do ip=github.com/obolnetwork/charon/${p#./}; IMPORTERS="$IMPORTERS $(go list -f '{{.ImportPath}} {{join .Imports " "}} {{join .TestImports " "}} {{join .XTestImports " "}}' ./... 2>/dev/null | grep " $ip\( \|$\)" | cut -d' ' -f1 | sed 's#github.com/obolnetwork/charon#.#')"; done
# ./dkg takes 5-6 minutes: only when the change touches it
if echo "$PKGS" | grep -q '^./dkg'; then EXCL='^$'; else EXCL='^./dkg$'; fi
ALL=$(echo $PKGS $IMPORTERS "$@" | tr ' ' '\n' | sort -u | grep -v "$EXCL" | tr '\n' ' ')
echo "existing tests: $ALL"
go test -count=1 -timeout 20m -json $ALL > /tmp/confirm_tests_$$.json 2>&1
CT=/tmp/confirm_tests_$$.json python3 - <<'PY'
import json,os
bad=set(json.load(open('/verif/tools/baseline_nonpassing.json')))
fails=[]
for l in open(os.environ['CT']):
    try: e=json.loads(l)
    except Exception: continue
    if e.get('Action')=='fail' and e.get('Test'):
        k=e['Package']+'::'+e['Test']
        if k not in bad: fails.append(k)
print("CONFIRM existing-tests:", "PASS (failures only among the tests that also fail on the unchanged tree in this sandbox)" if not fails else "FAIL "+str(fails[:10]))
PY
for f in $SEED/*_test.go; do cp $f $DEMODIR/zz_seed_$(basename $f); done
go test -count=1 -run "$RUN" ./$DEMODIR > /tmp/confirm_with_$$.log 2>&1 && res demo-with-change "PASSES (unexpected)" || { grep -q -- "--- FAIL" /tmp/confirm_with_$$.log && res demo-with-change "fails (expected)" || { res demo-with-change "DOES NOT BUILD OR RUN"; tail -8 /tmp/confirm_with_$$.log; }; }
git checkout -q -- . 
go test -count=1 -run "$RUN" ./$DEMODIR > /tmp/confirm_without_$$.log 2>&1 && res demo-without-change "passes (expected)" || { res demo-without-change "FAILS (unexpected)"; tail -5 /tmp/confirm_without_$$.log; }
cd /; git -C /repo worktree remove --force $WT
rm -f /tmp/confirm_tests_$$.json /tmp/confirm_with_$$.log /tmp/confirm_without_$$.log
