#!/bin/bash
# validates MANIFEST.json and all evidence files against the schemas
python3-vt - <<'PY'
import json,glob,jsonschema
jsonschema.validate(json.load(open('/verif/MANIFEST.json')),json.load(open('/root/.vp/MANIFEST.schema.json')))
sch=json.load(open('/root/.vp/EVIDENCE.schema.json'))
for f in sorted(glob.glob('/verif/evidence/*.json')):
    try:
        jsonschema.validate(json.load(open(f)),sch); print('ok',f)
    except Exception as e:
        print('INVALID',f,str(e)[:300])
PY
# every harness file and helper package a configuration names must exist (a configuration committed ahead of its harness
# once left MANIFEST.json describing parts that did not exist, and one check not building)
python3 - <<'PY'
import glob, importlib.util, os, re, sys
sys.path.insert(0, '/verif/tools')
bad = 0
for f in sorted(glob.glob('/verif/tools/checks.d/C*.py')):
    spec = importlib.util.spec_from_file_location(os.path.basename(f)[:-3], f); m = importlib.util.module_from_spec(spec); spec.loader.exec_module(m)
    c = m.CHECK
    for lib in c.get('libs', []):
        if not glob.glob('/verif/harness/zzverif/%s/*.go' % lib):
            print('INVALID', f, 'helper package zzverif/%s does not exist' % lib); bad += 1
    for pkg, fl in (c.get('files') or {}).items():
        for x in fl:
            if not os.path.exists('/verif/harness/%s/%s' % (pkg, x)):
                print('INVALID', f, 'harness file %s/%s does not exist' % (pkg, x)); bad += 1
    for x in set(re.findall(r'zz_verif_[a-z0-9_]+\.go', open(f).read())):
        if not glob.glob('/verif/harness/**/' + x, recursive=True):
            print('INVALID', f, 'text names %s, which does not exist' % x); bad += 1
print('configurations: %d problems' % bad)
PY
