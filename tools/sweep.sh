#!/bin/bash
# runs the thorough (or given) tier of every check in turn and prints one summary line per check
tier=${1:-thorough}; shift
ids=${@:-C16 C19 C17 C20 C13 C15 C10 C14 C18 C05 C07 C12 C11 C08 C09 C06 C04 C03 C02 C01}
for c in $ids; do
  t0=$(date +%s)
  ./mc check $c --tier $tier > sweep_$c.out 2> sweep_$c.err; rc=$?
  t1=$(date +%s)
  echo "SWEEP $c tier=$tier rc=$rc secs=$((t1-t0)) viol=$(grep -c '^VIOLATION' sweep_$c.out) known=$(grep -c '^KNOWN-FINDING' sweep_$c.out)"
  grep -E '^(VIOLATION|KNOWN-FINDING)' sweep_$c.out | head -5
  python3 -c "
import json;e=json.load(open('evidence/$c.json'))
print('   ', {k:e.get(k) for k in ('exhaustive','states','transitions','evaluations','distinct_nontrivial','bound_completed') if k in e})" 2>/dev/null
done
