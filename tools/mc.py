#!/usr/bin/env python3
"""mc - driver of the charon model-checking harnesses (see /verif/DESIGN.md §4).

  mc setup                         warm build caches (MANIFEST.setup_cmd)
  mc check  Cxx [--tier quick|thorough]
  mc replay Cxx <replay.json>
  mc selftest Cxx [mutant ...]     run the check against every recorded mutant (overlay only)
  mc list

Everything is rebuilt from /repo's *current working tree* through `go test -overlay`;
nothing is ever written under /repo.
"""
import glob
import hashlib
import json
import os
import re
import shutil
import subprocess
import sys
import time

VERIF = os.path.dirname(os.path.dirname(os.path.abspath(__file__)))
REPO = os.environ.get("VERIF_REPO", "/repo")
GOROOT = "/opt/veriftools/go1.26.8"
GO = GOROOT + "/bin/go"
BUILD = os.environ.get("VERIF_BUILD") or os.path.join(VERIF, ".build")  # VERIF_BUILD: private build dir for runs concurrent with another run of the same check
NCPU = int(os.environ.get("VERIF_NCPU", str(os.cpu_count() or 4)))

sys.path.insert(0, os.path.dirname(os.path.abspath(__file__)))
from checks import CHECKS  # noqa: E402


def goenv():
    e = dict(os.environ)
    e.update(GOTOOLCHAIN="local", GOFLAGS="-mod=readonly", GOPROXY="off", GOROOT=GOROOT,
             PATH=GOROOT + "/bin:" + e.get("PATH", ""))
    e.pop("GOSUMDB", None)
    return e


def log(*a):
    print("[mc]", *a, file=sys.stderr, flush=True)


# ----------------------------------------------------------------------------------------------
# overlay generation
# ----------------------------------------------------------------------------------------------

def write_if_changed(path, data):
    os.makedirs(os.path.dirname(path), exist_ok=True)
    if os.path.exists(path):
        with open(path) as f:
            if f.read() == data:
                return
    with open(path, "w") as f:
        f.write(data)


def runtime_overlay(ov, degraded):
    """Determinism overlay (DESIGN §2.3): map iteration start, map seed, select poll order, goid."""
    gen = os.path.join(BUILD, "goroot")
    # 1. maps/table.go : iteration offsets
    p = GOROOT + "/src/internal/runtime/maps/table.go"
    s = open(p).read()
    a1, a2 = "\tit.entryOffset = rand()\n", "\tit.dirOffset = rand()\n"
    if s.count(a1) == 1 and s.count(a2) == 1:
        s = s.replace(a1, "\tit.entryOffset = verifRand()\n").replace(a2, "\tit.dirOffset = verifRand()\n")
        write_if_changed(gen + "/maps_table.go", s)
        ov[p] = gen + "/maps_table.go"
    else:
        degraded.append("runtime-map-order")
        return False
    # 2. maps/map.go : per-map seed
    p = GOROOT + "/src/internal/runtime/maps/map.go"
    s = open(p).read()
    if "m.seed = uintptr(rand())" in s:
        s = s.replace("m.seed = uintptr(rand())", "m.seed = uintptr(verifSeed())")
        write_if_changed(gen + "/maps_map.go", s)
        ov[p] = gen + "/maps_map.go"
    write_if_changed(gen + "/maps_zz_verif.go", """package maps

// VerifMapMode: 0 = stock random iteration order; 1 = iteration starts at slot VerifMapRot.
var VerifMapMode uint32
var VerifMapRot uint64

func verifRand() uint64 {
	if VerifMapMode == 0 {
		return rand()
	}
	return VerifMapRot
}

func verifSeed() uint64 {
	if VerifMapMode == 0 {
		return rand()
	}
	return 0x9e3779b97f4a7c15
}
""")
    ov[GOROOT + "/src/internal/runtime/maps/zz_verif.go"] = gen + "/maps_zz_verif.go"
    # 3. select poll order
    p = GOROOT + "/src/runtime/select.go"
    s = open(p).read()
    a = "\t\tj := cheaprandn(uint32(norder + 1))\n"
    a2 = "\tpollorder = pollorder[:norder]\n"
    if s.count(a) == 1 and s.count(a2) == 1:
        s = s.replace(a, "\t\tj := verifSelJ(uint32(norder + 1))\n")
        s = s.replace(a2, a2 + "\tverifSelFix(pollorder)\n")
        write_if_changed(gen + "/select.go", s)
        ov[p] = gen + "/select.go"
    else:
        degraded.append("runtime-select-order")
    write_if_changed(gen + "/runtime_zz_verif.go", """package runtime

import "internal/runtime/maps"

var verifSelMode uint32

// verifSelJ / verifSelFix: mode 0 stock random poll order; 1 = scase index order; 2 = the exact reverse.
// (The compiler lays receive cases out in reverse source order, so for receive-only selects mode 2 is source order.)
func verifSelJ(n uint32) uint32 {
	if verifSelMode == 0 {
		return cheaprandn(n)
	}
	return n - 1
}

func verifSelFix(p []uint16) {
	if verifSelMode != 2 {
		return
	}
	for i, j := 0, len(p)-1; i < j; i, j = i+1, j-1 {
		p[i], p[j] = p[j], p[i]
	}
}

// VerifSetMapRot pins (on=true) map iteration to start at rotation r, or restores stock behaviour.
func VerifSetMapRot(on bool, r uint64) {
	if on {
		maps.VerifMapMode = 1
		maps.VerifMapRot = r
	} else {
		maps.VerifMapMode = 0
	}
}

// VerifSetSelMode selects how select orders simultaneously ready cases.
func VerifSetSelMode(m uint32) { verifSelMode = m }

// VerifGoid returns the id of the calling goroutine.
func VerifGoid() uint64 { return getg().goid }
""")
    ov[GOROOT + "/src/runtime/zz_verif.go"] = gen + "/runtime_zz_verif.go"
    return True


def vsync_rewrite(src_path, rel, tag):
    """"sync" -> vsync import rewrite of one charon file (generated from the current content)."""
    s = open(src_path).read()
    pat = re.compile(r'^(\s*)"sync"\s*$', re.M)
    if len(pat.findall(s)) != 1:
        return None
    s = pat.sub(r'\1sync "github.com/obolnetwork/charon/zzverif/vsync"', s, count=1)
    out = os.path.join(BUILD, "gen", tag, rel)
    write_if_changed(out, s)
    return out


def apply_mutant(patch_file, tag):
    """Apply a unified diff (paths relative to /repo, -p1) to copies; returns {repo_rel: patched_copy}."""
    root = os.path.join(BUILD, "mut", tag)
    shutil.rmtree(root, ignore_errors=True)
    os.makedirs(root)
    files = []
    for line in open(patch_file):
        m = re.match(r"^\+\+\+ (?:b/)?(\S+)", line)
        if m and m.group(1) != "/dev/null":
            files.append(m.group(1))
    for rel in files:
        dst = os.path.join(root, rel)
        os.makedirs(os.path.dirname(dst), exist_ok=True)
        if os.path.exists(os.path.join(REPO, rel)):
            shutil.copy(os.path.join(REPO, rel), dst)
    r = subprocess.run(["patch", "-p1", "-s", "--no-backup-if-mismatch", "-d", root, "-i", os.path.abspath(patch_file)],
                       capture_output=True, text=True)
    if r.returncode != 0:
        raise RuntimeError("mutant %s does not apply: %s%s" % (patch_file, r.stdout, r.stderr))
    return {rel: os.path.join(root, rel) for rel in files}


def build_overlay(cid, cfg, mutant=None, novsync=False):
    tag = cid + ("-" + os.path.basename(mutant)[:-6] if mutant else "") + ("-race" if novsync else "")
    ov, degraded = {}, []
    runtime_overlay(ov, degraded)
    # engines / fakes: virtual package tree under /repo/zzverif
    for lib in cfg.get("libs", []):
        for f in sorted(glob.glob(os.path.join(VERIF, "harness/zzverif", lib, "*.go"))):
            ov[os.path.join(REPO, "zzverif", lib, os.path.basename(f))] = f
    # harness tests injected into the target packages
    for pkg in cfg["pkgs"]:
        for f in sorted(glob.glob(os.path.join(VERIF, "harness", pkg, "zz_verif_*.go"))):
            base = os.path.basename(f)
            only = cfg.get("files", {}).get(pkg)
            if only is not None:
                if base not in only:
                    continue
            elif not base.startswith("zz_verif_" + cid.lower()):
                # by convention zz_verif_cNN*.go belongs to check CNN; anything else must be listed in cfg["files"]
                continue
            ov[os.path.join(REPO, pkg, base)] = f
    # non-test support files injected into other packages (no test binary is built for them)
    for pkg, names in cfg.get("extra_files", {}).items():
        for base in names:
            ov[os.path.join(REPO, pkg, base)] = os.path.join(VERIF, "harness", pkg, base)
    replaced = {}
    if mutant:
        for rel, path in apply_mutant(mutant, tag).items():
            replaced[rel] = path
    for rel in ([] if novsync else cfg.get("vsync", [])):
        src = replaced.get(rel, os.path.join(REPO, rel))
        out = vsync_rewrite(src, rel, tag) if os.path.exists(src) else None
        if out is None:
            degraded.append("vsync:" + rel)
        else:
            replaced[rel] = out
    for rel, gen in cfg.get("splice", {}).items():
        src = replaced.get(rel, os.path.join(REPO, rel))
        out = gen(src, os.path.join(BUILD, "gen", tag, rel + ".spliced.go")) if os.path.exists(src) else None
        if out is None:
            degraded.append("splice:" + rel)
        else:
            replaced[rel] = out
    for rel, path in replaced.items():
        ov[os.path.join(REPO, rel)] = path
    out = os.path.join(BUILD, tag, "overlay.json")
    write_if_changed(out, json.dumps({"Replace": ov}, indent=1, sort_keys=True))
    return tag, out, degraded


def build_bins(cid, cfg, mutant=None, race=False):
    tag, ov, degraded = build_overlay(cid, cfg, mutant)
    bins = {}
    for pkg in cfg["pkgs"]:
        out = os.path.join(BUILD, tag, pkg.replace("/", "_") + (".race" if race else "") + ".test")
        cmd = [GO, "test", "-c", "-vet=off", "-overlay", ov, "-o", out]
        if race:
            cmd.append("-race")
        cmd.append("./" + pkg)
        t0 = time.time()
        r = subprocess.run(cmd, cwd=REPO, env=goenv(), capture_output=True, text=True)
        if r.returncode != 0:
            return None, degraded, (r.stdout + r.stderr)
        log("built %s in %.1fs" % (os.path.relpath(out, VERIF), time.time() - t0))
        bins[pkg] = out
    return bins, degraded, ""


# ----------------------------------------------------------------------------------------------
# running shards, merging, evidence
# ----------------------------------------------------------------------------------------------

def run_shards(cid, cfg, bins, tier, seed, tag, replay=None, extra_env=None):
    jobs = []
    outdir = os.path.join(BUILD, tag, "out")
    shutil.rmtree(outdir, ignore_errors=True)
    os.makedirs(outdir)
    os.makedirs(os.path.join(BUILD, "replays-scratch"), exist_ok=True)
    nsh = 1 if replay else cfg.get("shards", {}).get(tier, NCPU)
    budget = cfg.get("budget_s", {}).get(tier, 100 if tier == "quick" else 1500)
    procs = []
    for pkg, binp in bins.items():
        runpat = cfg["run"][pkg] if isinstance(cfg["run"], dict) else cfg["run"]
        for sh in range(nsh):
            rep = os.path.join(outdir, "%s.%d.json" % (pkg.replace("/", "_"), sh))
            env = goenv()
            # no asynchronous preemption: with GOMAXPROCS=1 goroutine switches then only happen at blocking operations,
            # which keeps executions inside a bubble reproducible also on a loaded machine
            env["GODEBUG"] = (env.get("GODEBUG", "") + ",asyncpreemptoff=1").strip(",")
            env.update(VERIF_TIER=tier, VERIF_SEED=str(seed), VERIF_SHARD="%d/%d" % (sh, nsh), VERIF_OUT=rep,
                       VERIF_BUDGET_S=str(budget),
                       # counterexamples of mutated / patched builds go to scratch, those of the real tree to /verif/replays
                       VERIF_REPLAYS=os.path.join(VERIF, "replays") if tag == cid else os.path.join(BUILD, "replays-scratch"),
                       GOMAXPROCS=str(cfg.get("gomaxprocs", 1)), VERIF_PROP=cid)
            if replay:
                env["VERIF_REPLAY"] = os.path.abspath(replay)
            if extra_env:
                env.update(extra_env)
            memkb = cfg.get("mem_kb", 6 * 1024 * 1024)
            cmd = "ulimit -v %d; exec %s -test.run '^%s$' -test.timeout %ds -test.count 1" % (
                memkb, binp, runpat, budget * 3 + 600)
            if os.environ.get("VERIF_VERBOSE"):
                cmd += " -test.v"
            lf = open(rep + ".log", "w")
            p = subprocess.Popen(["bash", "-c", cmd], cwd=os.path.join(REPO, pkg), env=env, stdout=lf,
                                 stderr=subprocess.STDOUT)
            procs.append((p, rep, lf, pkg, sh))
    reports, failures = [], []
    deadline = time.time() + budget * 3 + 900
    for p, rep, lf, pkg, sh in procs:
        try:
            p.wait(timeout=max(1, deadline - time.time()))
        except subprocess.TimeoutExpired:
            p.kill()
            p.wait()
            failures.append("%s shard %d: outer timeout" % (pkg, sh))
        lf.close()
        if os.path.exists(rep):
            try:
                reports.append(json.load(open(rep)))
                continue
            except Exception as e:  # noqa
                failures.append("%s shard %d: unreadable report: %s" % (pkg, sh, e))
        else:
            try:
                tail = open(rep + ".log").read()[-3000:]
            except OSError:
                tail = "(log file missing: the build directory was removed by a concurrent run of the same check)"
            failures.append("%s shard %d: no report (exit %s)\n%s" % (pkg, sh, p.returncode, tail))
    return reports, failures


SUMKEYS = ("evaluations", "transitions", "executions", "replay_divergences", "unconfirmed_candidates",
           "determinism_checked")


def merge(reports):
    m = {"violations": [], "samples": [], "counters": {}, "scenarios": {}, "outcomes": set(), "nontrivial": set(),
         "states": set(), "states_n": 0, "exhaustive": True, "notes": [], "bound_completed": None}
    for k in SUMKEYS:
        m[k] = 0
    for r in reports:
        for k in SUMKEYS:
            m[k] += int(r.get(k, 0))
        m["violations"] += (r.get("violations") or [])
        m["samples"] += (r.get("samples") or [])[:3]
        for k, v in (r.get("counters") or {}).items():
            m["counters"][k] = m["counters"].get(k, 0) + v
        for k, v in (r.get("scenarios") or {}).items():
            d = m["scenarios"].setdefault(k, {})
            for kk, vv in v.items():
                if isinstance(vv, bool):
                    d[kk] = d.get(kk, True) and vv
                elif isinstance(vv, (int, float)):
                    d[kk] = d.get(kk, 0) + vv
                else:
                    d[kk] = vv
        m["outcomes"].update((r.get("outcomes") or []))
        m["nontrivial"].update((r.get("nontrivial") or []))
        if r.get("state_hashes"):
            m["states"].update(r["state_hashes"])
        elif r.get("states_file") and os.path.exists(r["states_file"]):
            data = open(r["states_file"], "rb").read()
            m["states"].update(data[i:i + 8] for i in range(0, len(data), 8))
            os.remove(r["states_file"])
        else:
            m["states_n"] += int(r.get("states", 0))
        m["exhaustive"] = m["exhaustive"] and bool(r.get("exhaustive", False))
        m["notes"] += (r.get("notes") or [])
        b = r.get("bound_completed")
        if b is not None:
            m["bound_completed"] = b if m["bound_completed"] is None else min(b, m["bound_completed"])
    m["states_total"] = len(m["states"]) + m["states_n"]
    return m


def load_known():
    p = os.path.join(VERIF, "known_findings.json")
    if not os.path.exists(p):
        return []
    return json.load(open(p)).get("findings", [])


def race_pass(cid, cfg):
    """DESIGN §4.5: the harness bodies, free-running with the real sync package, under the race detector.
    Sampling by nature: it only discharges the 'no unsynchronised access between scheduling points' assumption
    of schedx and never decides a property; a report is recorded in the evidence, not raised as a violation."""
    rt = cfg.get("race_tests")
    if not rt:
        return None
    tag, ov, _ = build_overlay(cid, cfg, None, novsync=True)
    res = {"runs": 0, "data_races": 0, "reports": []}
    for pkg, test in rt.items():
        out = os.path.join(BUILD, tag, pkg.replace("/", "_") + ".race.test")
        r = subprocess.run([GO, "test", "-c", "-race", "-vet=off", "-overlay", ov, "-o", out, "./" + pkg], cwd=REPO, env=goenv(),
                           capture_output=True, text=True)
        if r.returncode != 0:
            res["reports"].append("race build failed: " + (r.stdout + r.stderr)[-300:])
            continue
        env = goenv()
        env.update(GOMAXPROCS="8", VERIF_TIER="thorough")
        try:
            rr = subprocess.run([out, "-test.run", "^%s$" % test, "-test.count", "1", "-test.timeout", "600s"], cwd=os.path.join(REPO, pkg),
                                env=env, capture_output=True, text=True, timeout=700)
            txt = rr.stdout + rr.stderr
        except subprocess.TimeoutExpired:
            txt = "timeout"
        res["runs"] += 1
        n = txt.count("WARNING: DATA RACE")
        res["data_races"] += n
        if n:
            i = txt.index("WARNING: DATA RACE")
            res["reports"].append(txt[i:i + 1500])
    return res


def write_evidence(cid, cfg, tier, seed, m, wall, degraded, failures, nviol, race=None):
    level = cfg["level"]
    cov = {
        "evaluations": m["evaluations"] or m["executions"] or m["transitions"],
        "distinct_nontrivial": len(m["nontrivial"]) if m["nontrivial"] else len(m["outcomes"]),
        "rule": cfg.get("rule", ""),
        "samples": m["samples"][:8] or ["(none)"],
        "exhaustive": bool(m["exhaustive"]) and not failures,
        "executions": m["executions"],
        "distinct_outcomes": len(m["outcomes"]),
        "bound_completed": m["bound_completed"],
        "counters": m["counters"],
        "scenarios": m["scenarios"],
        "replay_divergences": m["replay_divergences"],
        "unconfirmed_candidates": m["unconfirmed_candidates"],
        "determinism_checked": m["determinism_checked"],
        "degraded": degraded,
        "harness_failures": failures,
        "notes": sorted(set(m["notes"]))[:20],
    }
    if race is not None:
        cov["race_pass"] = race
    if level == "model_checking":
        cov["states"] = m["states_total"]
        cov["transitions"] = m["transitions"]
        cov["traces_validated_against_impl"] = m["executions"] or m["transitions"]
        cov["explanation"] = ("the implementation is the model: every transition is a call into the real code built "
                              "from /repo's working tree, so every explored trace is an implementation trace")
    ev = {
        "property_id": cid, "tier": tier, "seed": seed, "level": level, "coverage": cov,
        "assumptions": cfg.get("assumptions", []), "wall_s": round(wall, 2), "violations": nviol,
    }
    os.makedirs(os.path.join(VERIF, "evidence"), exist_ok=True)
    with open(os.path.join(VERIF, "evidence", cid + ".json"), "w") as f:
        json.dump(ev, f, indent=1, sort_keys=True, default=str)


def do_check(cid, tier, mutant=None, quiet=False, replay=None):
    cfg = CHECKS[cid]
    seed = int(os.environ.get("VERIF_SEED", "0") or 0)
    t0 = time.time()
    bins, degraded, err = build_bins(cid, cfg, mutant)
    tag = cid + ("-" + os.path.basename(mutant)[:-6] if mutant else "")
    if bins is None:
        # The tree does not compile with the harness: not a property violation. Report loudly, no alarm.
        log("BUILD FAILED for %s:\n%s" % (cid, err[-4000:]))
        if not mutant:
            m = merge([])
            m["exhaustive"] = False
            write_evidence(cid, cfg, tier, seed, m, time.time() - t0, degraded, ["build failed: " + err[-1500:]], 0)
        return 2, []
    reports, failures = run_shards(cid, cfg, bins, tier, seed, tag, replay=replay)
    m = merge(reports)
    known = [k for k in load_known() if k["property"] == cid and k.get("status") == "open"]
    unmatched, matched = [], {}
    for v in m["violations"]:
        hit = None
        for k in known:
            if re.search(k["signature"], v.get("signature", "")):
                hit = k
                break
        if hit:
            matched[hit["id"]] = (hit, v)
        else:
            unmatched.append(v)
    for f in failures:
        log("harness failure:", f)
    race = None
    if not mutant and not replay and tier == "thorough":
        race = race_pass(cid, cfg)
        if race and race["data_races"]:
            log("race pass: %d data race report(s) (assumption of the interleaving exploration NOT discharged; see evidence)" % race["data_races"])
    if not mutant and not replay:
        write_evidence(cid, cfg, tier, seed, m, time.time() - t0, degraded, failures, len(unmatched), race)
    if not quiet:
        log("%s tier=%s executions=%d transitions=%d states=%d outcomes=%d exhaustive=%s wall=%.1fs" % (
            cid, tier, m["executions"] or m["evaluations"], m["transitions"], m["states_total"], len(m["outcomes"]),
            m["exhaustive"] and not failures, time.time() - t0))
    for kid, (k, v) in matched.items():
        print("KNOWN-FINDING: property=%s %s (%s)" % (cid, k["description"], kid))
    seen = set()
    for v in unmatched:
        sig = v.get("signature", "")
        if sig in seen:
            continue
        seen.add(sig)
        print("VIOLATION property=%s replay=%s" % (cid, v.get("replay", "")))
        print("  signature: %s" % sig, file=sys.stderr)
        print("  %s" % v.get("description", "")[:1500], file=sys.stderr)
    if unmatched:
        return 1, unmatched
    if failures and not reports:
        return 2, []
    return 0, []


def do_selftest(cid, only):
    cfg = CHECKS[cid]
    muts = sorted(glob.glob(os.path.join(VERIF, "mutants", cid, "*.patch")))
    if only:
        muts = [m for m in muts if os.path.basename(m)[:-6] in only]
    ok = True
    rows = []
    tier = os.environ.get("VERIF_TIER", "quick")
    for mp in muts:
        t0 = time.time()
        rc, viol = do_check(cid, tier, mutant=mp, quiet=True)
        caught = rc == 1
        rows.append((os.path.basename(mp), "CAUGHT" if caught else ("BUILD/HARNESS-ERROR" if rc == 2 else "MISSED"),
                     time.time() - t0, viol[0].get("signature", "") if viol else ""))
        ok = ok and caught
        shutil.rmtree(os.path.join(BUILD, cid + "-" + os.path.basename(mp)[:-6]), ignore_errors=True)
        shutil.rmtree(os.path.join(BUILD, "mut", cid + "-" + os.path.basename(mp)[:-6]), ignore_errors=True)
    for r in rows:
        print("selftest %s %-40s %-8s %.0fs %s" % (cid, r[0], r[1], r[2], r[3][:100]))
    return 0 if ok else 1


def do_setup():
    os.makedirs(BUILD, exist_ok=True)
    bad = 0
    for cid, cfg in CHECKS.items():
        bins, degraded, err = build_bins(cid, cfg)
        if bins is None:
            log("setup: build failed for", cid, err[-2000:])
            bad += 1
    # setup only warms the build cache: every check rebuilds what it needs, so a harness that does not build
    # must not keep the other checks from running
    if bad:
        log("setup: %d check(s) did not build (see above); continuing" % bad)
    return 0


def main():
    a = sys.argv[1:]
    if not a:
        print(__doc__)
        return 2
    if a[0] == "setup":
        return do_setup()
    if a[0] == "list":
        for c in CHECKS:
            print(c, CHECKS[c]["pkgs"])
        return 0
    if a[0] == "check":
        tier = os.environ.get("VERIF_TIER", "quick")
        if "--tier" in a:
            tier = a[a.index("--tier") + 1]
        rc, _ = do_check(a[1], tier)
        # a tree that does not build with the harness, or shards that died, are reported on stderr and in the evidence
        # (exhaustive:false, harness_failures); they are not property violations and never an alarm (DESIGN 10.1)
        return 1 if rc == 1 else 0
    if a[0] == "replay":
        rc, _ = do_check(a[1], "quick", replay=a[2])
        return rc
    if a[0] == "selftest":
        return do_selftest(a[1], a[2:])
    if a[0] == "trypatch":
        # ./mc trypatch Cxx <patch file> [--tier t]: run the check with the patch applied through the build overlay
        # (same effect as `git -C /repo apply`, without touching /repo; no evidence is written)
        tier = a[a.index("--tier") + 1] if "--tier" in a else "quick"
        src = os.path.abspath(a[2])
        name = re.sub(r"[^A-Za-z0-9]+", "_", "_".join(src.split(os.sep)[-4:-1])) + "_" + hashlib.sha1(src.encode()).hexdigest()[:6]
        os.makedirs(os.path.join(BUILD, "try"), exist_ok=True)
        mp = os.path.join(BUILD, "try", name + ".patch")
        shutil.copy(src, mp)
        rc, viol = do_check(a[1], tier, mutant=mp)
        shutil.rmtree(os.path.join(BUILD, a[1] + "-" + name), ignore_errors=True)
        shutil.rmtree(os.path.join(BUILD, "mut", a[1] + "-" + name), ignore_errors=True)
        print("trypatch %s %s: %s" % (a[1], a[2], "CAUGHT" if rc == 1 else ("BUILD/HARNESS-ERROR" if rc == 2 else "MISSED")))
        return rc
    print(__doc__)
    return 2


if __name__ == "__main__":
    sys.exit(main())
